import McpModel.Sessions.BridgeOps6
/-!
Bridge (E7/C11): the general step for a POST without a session id on a stateful endpoint — an id is
minted, one entry is appended to the model's table (a live session, or an id that is dead already).
-/
namespace Sessions

theorem findSess_append_new {t : List Sess} {E : Sess} {next : Nat} (hlt : ∀ e ∈ t, e.id < next) (hE : E.id = next) (j : Nat) :
    findSess j (t ++ [E]) = if j = next then some E else findSess j t := by
  rw [findSess_append]
  by_cases hj : j = next
  · rw [if_pos hj]
    have : findSess j t = none := by
      cases hf : findSess j t with
      | none => rfl
      | some e => have := findSess_some hf; have := hlt e this.1; omega
    rw [this]; simp [findSess, hE, hj]
  · rw [if_neg hj]
    cases hf : findSess j t with
    | some e => rfl
    | none => simp [findSess, hE]; exact fun h => absurd h.symm hj

theorem nsOf_zero_of_minted {P : List Pend} {next : Nat} (h : ∀ p ∈ P, ∀ i, sidOf p = some i → i < next) :
    nsOf P next = 0 ∧ nrOf P next = 0 := by
  constructor
  · unfold nsOf
    rw [List.length_eq_zero_iff, List.filter_eq_nil_iff]
    intro p hp hs
    unfold isSlowOf at hs
    cases hk : p.kind with
    | slow a b =>
      cases a with
      | none => simp [hk] at hs
      | some v => simp [hk] at hs; have := h p hp v (by simp [sidOf, hk]); omega
    | run a b => simp [hk] at hs
    | del i f => simp [hk] at hs
    | cls i => simp [hk] at hs
    | upl a b c => simp [hk] at hs
  · unfold nrOf
    rw [List.length_eq_zero_iff, List.filter_eq_nil_iff]
    intro p hp hs
    unfold isRunOf at hs
    cases hk : p.kind with
    | slow a b => simp [hk] at hs
    | run a b => simp [hk] at hs; have := h p hp a (by simp [sidOf, hk]); omega
    | del i f => simp [hk] at hs
    | cls i => simp [hk] at hs
    | upl a b c => simp [hk] at hs

/-- **a POST without a session id** -/
theorem sim_append_op {cfg : Cfg} {d d' : RState} {m : Mon} {o : Obs} (hs : Sim cfg d m) {op : Op} {r : Req}
    {st1 st2 : State} {E : Sess} {status : St} {hdr : Option Name} {log : List LogEnt} {ns' na' : Nat}
    (hreq : op.req = some r) (hrv : r.verb = .post) (hrr : r.ref = .absent)
    (hmo : modelOp d op = some { st := st1, status := status, hdr := hdr, hang := false, done := [], log := log, pend := d.pend, nslow := ns', nasync := na', released := d.released })
    (hset : settle st1 = st2) (htbl : st2.tbl = d.st.tbl ++ [E]) (hcfg : st2.cfg = d.st.cfg) (hnext : st2.next = d.st.next + 1)
    (hnow : st2.now = d.st.now) (hfl : st2.faults = d.st.faults) (hinv : Inv st2)
    (hEid : E.id = d.st.next) (hEo : E.owner = r.user.user) (hEok : EOk cfg d.st.now 0 0 E) (hEu : E.upl = 0)
    (hE : (E.removed = false ∧ E.closing = false ∧ (cfg.timeout ≠ 0 → E.timer = .armed (d.st.now + cfg.timeout)) ∧
            r.kind = some .init ∧ status.accepted2xx = true ∧ hdr = some (sname d.st.next) ∧ r.racy = false) ∨
          (E.removed = true ∧ (hdr = none ∨ hdr = some (sname d.st.next))))
    (hans : chkAnswer cfg (effFaults cfg m) m.tbl r status = none)
    (hlog : chkLog cfg (some r) status log = none)
    (hmint : ∀ h, hdr = some h → isInitKind r.kind = true ∧ status.accepted2xx = true)
    (hnoid : chkNoId cfg (some r) status hdr = false)
    (hba : bookAnswer cfg (effFaults cfg m) m.now (tagOf m op) m.tbl m.pend op status = (m.tbl, m.pend))
    (hbs : bookSlots m.tbl m.pend m.run op status = (m.tbl, m.run))
    (hnotick : nowAfter m op = m.now) (hfault : faultsAfter m op status = m.faults)
    (hcnt : countersAfter m op status = (ns', na')) (hns : d.nslow ≤ ns') (hna : d.nasync ≤ na')
    (hop : replayOp d op = some (d', o)) :
    (monStep cfg m op o).viol = none ∧ Sim cfg d' (monStep cfg m op o).mon := by
  have hst2 : st2.cfg.stateless = false := by rw [hcfg]; exact hs.stateful_st
  have hcfg' : st2.cfg = cfg := by rw [hcfg]; exact hs.cfg_eq
  have hlt : ∀ e ∈ d.st.tbl, e.id < d.st.next := ids_lt hs.inv
  have hfnew := fun j => findSess_append_new hlt hEid j
  obtain ⟨hz1, hz2⟩ := nsOf_zero_of_minted hs.pok.minted
  have hnone : monFind m.tbl (sname d.st.next) = none := by
    cases hf : monFind m.tbl (sname d.st.next) with
    | none => rfl
    | some a =>
      obtain ⟨j, hj, hn⟩ := hs.minted a (monFind_name hf).2
      rw [(monFind_name hf).1] at hn
      have := sname_inj hn; omega
  -- everything is settled
  have hsettle : settle st2 = st2 := by
    apply settle_settled hinv hst2
    intro e he
    rw [htbl] at he
    rcases List.mem_append.mp he with he | he
    · rw [hnow]; exact settleE_of_eok _ (hs.eok e he)
    · have he' : e = E := by simpa using he
      rw [he']; rw [hnow]; exact settleE_of_eok _ hEok
  have hkeep : d.pend.filter (keepOf st2) = d.pend ∧ d.pend.filterMap (doneOf st2) = [] := by
    have hk : ∀ p ∈ d.pend, keepOf st2 p = true := by
      intro p hp
      have h0 := hs.pok.keep hp
      unfold keepOf at h0 ⊢
      cases hkind : p.kind with
      | slow a b => rfl
      | run a b => rfl
      | upl a b c => rfl
      | del i f =>
        rw [hkind] at h0
        have hi := hs.pok.minted p hp i (by simp [sidOf, hkind])
        simp only [isLive, htbl, hfnew i, if_neg (Nat.ne_of_lt hi)]; exact h0
      | cls i =>
        rw [hkind] at h0
        have hi := hs.pok.minted p hp i (by simp [sidOf, hkind])
        simp only [isLive, htbl, hfnew i, if_neg (Nat.ne_of_lt hi)]; exact h0
    refine ⟨List.filter_eq_self.mpr hk, ?_⟩
    apply List.filterMap_eq_nil_iff.mpr
    intro p hp
    cases hd : doneOf st2 p with
    | none => rfl
    | some c => have := (doneOf_tag hd).2; rw [hk p hp] at this; cases this
  simp only [replayOp, hmo, completions_eq, hset] at hop
  rw [hkeep.1, hkeep.2] at hop
  simp only [Option.some.injEq, Prod.mk.injEq, List.append_nil] at hop
  obtain ⟨hd', ho⟩ := hop
  subst hd'; subst ho
  -- the snapshot: the old table, then the new session if it is in the table
  have hshow : showMap st2 = showMap d.st ++ (if E.inMap then [entOf E] else []) := by
    simp only [showMap_eq, htbl, List.filter_append, List.map_append]
    congr 1
    cases h : E.inMap <;> simp [List.filter_cons, h]
  have hexp : m.tbl.map (expire cfg (nowAfter m op)) = m.tbl := by rw [hnotick]; exact hs.expire_id
  have htc0 := table_checks hs.tblpre hs.stateful m.now (some r) status hdr
  -- the monitor's table after the scan
  let anew : MSess := { name := sname d.st.next, owner := ownerOf E.owner, life := .live, posts := 0, idleSince := m.now }
  have hscan : scanMap cfg m.now (some r) status hdr m.tbl (showMap st2) =
      (if E.inMap then m.tbl ++ [anew] else m.tbl, none) := by
    rw [hshow, scanMap_append, htc0.1]
    cases hin : E.inMap with
    | false => simp [scanMap, firstViol]
    | true =>
      have hrm : E.removed = false := by have := hEok.inMap; rw [hin] at this; simpa using this.symm
      rcases hE with ⟨_, hcl, _, hk, hacc, hh, hracy⟩ | ⟨hr, _⟩
      · simp only [if_true, scanMap, judgeEntry, entOf, hEid, hnone, reqRacy, hracy, hrv, hrr, hs.stateful, hk, hacc, hh, hEo,
          ownerOf_user, firstViol]
        simp [anew, hEo, ownerOf_user, hk, firstViol]
      · rw [hr] at hrm; cases hrm
  have htbl3nodup : ((if E.inMap then m.tbl ++ [anew] else m.tbl).map (·.name)).Nodup := by
    split
    · rw [List.map_append, List.nodup_append]
      refine ⟨hs.mnodup, by simp, ?_⟩
      intro a ha b hb hab
      simp at hb; subst hb
      obtain ⟨x, hx, rfl⟩ := List.mem_map.mp ha
      have := monFind_none hnone x hx
      exact this hab
    · exact hs.mnodup
  have hfind3 : ∀ j, j ≠ d.st.next → monFind (if E.inMap then m.tbl ++ [anew] else m.tbl) (sname j) = monFind m.tbl (sname j) := by
    intro j hj
    split
    · rw [monFind_append]
      cases hf : monFind m.tbl (sname j) with
      | some a => rfl
      | none =>
        simp only [monFind, List.find?_cons, anew]
        have : (sname d.st.next == sname j) = false := by simp; exact fun h => hj (sname_inj h).symm
        simp [this]
    · rfl
  have hpre : TblPre cfg st2 d.pend (if E.inMap then m.tbl ++ [anew] else m.tbl) := by
    refine ⟨hinv, hst2, ?_, htbl3nodup, ?_, ?_⟩
    · intro e he; rw [htbl] at he
      rcases List.mem_append.mp he with he | he
      · exact (hs.eok e he).inMap
      · have he' : e = E := by simpa using he
        rw [he']; exact hEok.inMap
    · intro a ha
      rw [hnext]
      split at ha
      · rcases List.mem_append.mp ha with ha | ha
        · obtain ⟨j, hj, hn⟩ := hs.minted a ha; exact ⟨j, by omega, hn⟩
        · simp at ha; subst ha; exact ⟨d.st.next, by omega, rfl⟩
      · obtain ⟨j, hj, hn⟩ := hs.minted a ha; exact ⟨j, by omega, hn⟩
    · intro e he; rw [htbl] at he
      rcases List.mem_append.mp he with he | he
      · have hne : e.id ≠ d.st.next := Nat.ne_of_lt (hlt e he)
        have := hs.rel e he
        unfold RelAt at this; unfold RelPreAt
        rw [hfind3 e.id hne]
        cases hf : monFind m.tbl (sname e.id) with
        | none => rw [hf] at this; exact this
        | some a => rw [hf] at this; exact this.toERelPre
      · have he' : e = E := by simpa using he
        rw [he']
        unfold RelPreAt
        rw [hEid, hz1, hz2]
        cases hin : E.inMap with
        | false =>
          simp only [Bool.false_eq_true, if_false, hnone]
          have := hEok.inMap; rw [hin] at this; simpa using this.symm
        | true =>
          have hrm : E.removed = false := by have := hEok.inMap; rw [hin] at this; simpa using this.symm
          simp only [if_true, monFind_append, hnone]
          have : monFind [anew] (sname d.st.next) = some anew := by simp [monFind, anew]
          rw [this]
          rcases hE with ⟨_, hcl, htm, _⟩ | ⟨hr, _⟩
          · refine ⟨rfl, (by intro h; cases h), ?_, (by intro _; exact ⟨by rw [hEu], rfl⟩), ?_⟩
            · constructor
              · intro _; exact ⟨hrm, hcl⟩
              · intro _; rfl
            · intro _ _ _ hT; rw [htm hT]; show _ = Timer.armed (m.now + cfg.timeout); rw [hs.now]
          · rw [hr] at hrm; cases hrm
  have heok2 : ∀ e' ∈ st2.tbl, EOk cfg st2.now (nsOf d.pend e'.id) (nrOf d.pend e'.id) e' := by
    intro e he; rw [htbl] at he; rw [hnow]
    rcases List.mem_append.mp he with he | he
    · exact hs.eok e he
    · have he' : e = E := by simpa using he
      rw [he']; rw [hEid, hz1, hz2]; exact hEok
  generalize htbl3 : (if E.inMap then m.tbl ++ [anew] else m.tbl) = tbl3 at hscan htbl3nodup hfind3 hpre
  have htc := table_checks hpre hs.stateful m.now (some r) status hdr
  have hbd : bookDone (nowAfter m op)
      (bookSlots (bookAnswer cfg (effFaults cfg m) (nowAfter m op) (tagOf m op) (m.tbl.map (expire cfg (nowAfter m op))) m.pend op status).1
        (bookAnswer cfg (effFaults cfg m) (nowAfter m op) (tagOf m op) (m.tbl.map (expire cfg (nowAfter m op))) m.pend op status).2 m.run op status).1
      (bookAnswer cfg (effFaults cfg m) (nowAfter m op) (tagOf m op) (m.tbl.map (expire cfg (nowAfter m op))) m.pend op status).2 [] =
      (m.tbl, m.pend) := by
    rw [hexp, hnotick, hba, hbs]; rfl
  constructor
  · apply monStep_viol_none
    · rw [hexp, hreq]; exact hans
    · rw [chkLogOp_eq (by intro n f h; rw [h] at hreq; cases hreq), hreq]; exact hlog
    · rw [hexp, hreq]
      cases hh : hdr with
      | none => rfl
      | some h =>
        obtain ⟨h1, h2⟩ := hmint h hh
        have hhn : h = sname d.st.next := by
          rcases hE with ⟨_, _, _, _, _, hx, _⟩ | ⟨_, hx | hx⟩ <;> rw [hh] at hx <;> first | (cases hx; rfl) | cases hx
        simp [chkMint, hs.stateful, hrv, h1, h2, hrr, Ref.name, hhn, hnone]
    · show (scanMap cfg (nowAfter m op) op.req status hdr _ (showMap st2)).2 = none
      rw [hbd, hnotick, hreq, hscan]
    · exact htc.2.1
    · show chkGone _ (scanMap cfg (nowAfter m op) op.req status hdr _ (showMap st2)).1 = none
      rw [hbd, hnotick, hreq, hscan]; exact htc.2.2.1
    · exact htc.2.2.2.1
    · rw [hreq]; exact hnoid
    · exact chkClose_model hinv (fun e he => ⟨_, _, heok2 e he⟩)
  · obtain ⟨e1, e2, e3, e4, e5, e6, e7⟩ := monStep_mon cfg m op
      { status := status, hdr := hdr, hang := false, done := [], map := showMap st2, srv := showSrv st2, log := log, stale := showStale st2 }
    -- the final table: reaped, plus the id of a failed initialize
    have hfin : (monStep cfg m op { status := status, hdr := hdr, hang := false, done := [], map := showMap st2, srv := showSrv st2, log := log, stale := showStale st2 }).mon.tbl =
        noteFailedInit m.now r.user.owner hdr (reapDying ((showMap st2).map (·.name)) tbl3) := by
      rw [e1]
      show noteFailedInit _ _ hdr (reapDying _ (scanMap cfg (nowAfter m op) op.req status hdr _ (showMap st2)).1) = _
      rw [hbd, hnotick, hreq, hscan]; rfl
    have hrelR := htc.2.2.2.2
    generalize hR : reapDying ((showMap st2).map (·.name)) tbl3 = tblR at hfin hrelR
    have hnodupR : (tblR.map (·.name)).Nodup := by rw [← hR]; exact reapDying_nodup hpre.mnodup
    have hmintedR : ∀ a ∈ tblR, ∃ j, j < st2.next ∧ a.name = sname j := by
      intro a ha
      rw [← hR] at ha
      obtain ⟨b, hb, hab⟩ := reapDying_mem ha
      obtain ⟨j, hj, hn⟩ := hpre.minted b hb
      exact ⟨j, hj, by rw [hab]; exact hn⟩
    have hhn : ∀ h, hdr = some h → h = sname d.st.next := by
      intro h hh
      rcases hE with ⟨_, _, _, _, _, hx, _⟩ | ⟨_, hx | hx⟩ <;> rw [hh] at hx <;> first | (cases hx; rfl) | cases hx
    -- the three shapes of the final table
    have hshape : (monStep cfg m op { status := status, hdr := hdr, hang := false, done := [], map := showMap st2, srv := showSrv st2, log := log, stale := showStale st2 }).mon.tbl = tblR ∨
        (monFind tblR (sname d.st.next) = none ∧
          (monStep cfg m op { status := status, hdr := hdr, hang := false, done := [], map := showMap st2, srv := showSrv st2, log := log, stale := showStale st2 }).mon.tbl =
            tblR ++ [{ name := sname d.st.next, owner := r.user.owner, life := .dead, posts := 0, idleSince := m.now }]) := by
      rw [hfin]
      unfold noteFailedInit
      cases hh : hdr with
      | none => left; rfl
      | some h =>
        have := hhn h hh
        subst this
        simp only []
        cases hf : monFind tblR (sname d.st.next) with
        | none => right; exact ⟨rfl, by simp⟩
        | some x => left; simp
    refine ⟨hcfg', hinv, hs.stateful, by rw [e2, hnotick, hnow]; exact hs.now, by rw [e5]; show faultsAfter m op status = _; rw [hfault, hfl]; exact hs.faults,
      by rw [e6]; show (countersAfter m op status).1 = _; rw [hcnt], by rw [e7]; show (countersAfter m op status).2 = _; rw [hcnt], ?_, ?_, heok2, ?_,
      by rw [e3]; show (bookDone _ _ _ []).2 = _; rw [hbd]; exact hs.pend,
      by rw [e4]; show (bookSlots _ _ m.run op status).2 = _; rw [hexp, hnotick, hba, hbs]; exact hs.run, ?_⟩
    · -- names stay distinct
      rcases hshape with h | ⟨hnf, h⟩
      · rw [h]; exact hnodupR
      · rw [h, List.map_append, List.nodup_append]
        refine ⟨hnodupR, by simp, ?_⟩
        intro a ha b hb hab
        simp at hb; subst hb
        obtain ⟨x, hx, rfl⟩ := List.mem_map.mp ha
        exact monFind_none hnf x hx hab
    · -- names are minted
      intro a ha
      rcases hshape with h | ⟨hnf, h⟩
      · rw [h] at ha; exact hmintedR a ha
      · rw [h] at ha
        rcases List.mem_append.mp ha with ha | ha
        · exact hmintedR a ha
        · simp at ha; subst ha
          exact ⟨d.st.next, by rw [hnext]; omega, rfl⟩
    · -- the relation
      intro e he
      have hr0 := hrelR e he
      unfold RelAt at hr0 ⊢
      rcases hshape with h | ⟨hnf, h⟩
      · rw [h]; exact hr0
      · rw [h, monFind_append]
        rw [htbl] at he
        rcases List.mem_append.mp he with he | he
        · have hne : e.id ≠ d.st.next := Nat.ne_of_lt (hlt e he)
          cases hf : monFind tblR (sname e.id) with
          | some a => rw [hf] at hr0; exact hr0
          | none =>
            rw [hf] at hr0
            have : monFind [({ name := sname d.st.next, owner := r.user.owner, life := .dead, posts := 0, idleSince := m.now } : MSess)] (sname e.id) = none := by
              simp [monFind]; exact fun h => hne (sname_inj h).symm
            simp only [this]; exact hr0
        · have he' : e = E := by simpa using he
          rw [he'] at hr0 ⊢
          rw [hEid] at hr0 ⊢
          rw [hnf] at hr0
          simp only [hnf]
          have : monFind [({ name := sname d.st.next, owner := r.user.owner, life := .dead, posts := 0, idleSince := m.now } : MSess)] (sname d.st.next) =
              some { name := sname d.st.next, owner := r.user.owner, life := .dead, posts := 0, idleSince := m.now } := by
            simp [monFind]
          rw [this]
          refine ⟨⟨by simp [hEo, ownerOf_user], fun _ => hr0, ?_, (by intro h; cases h), (by intro h; cases h)⟩, fun _ => rfl⟩
          constructor
          · intro h; cases h
          · intro h; rw [hr0] at h; cases h.1
    · -- the asynchronous requests
      have := pendOk_counters hs.pok hns hna
      refine ⟨this.tags, this.slots, ?_, ?_, this.sids, this.relLe⟩
      · intro p hp
        have hsh := this.shape p hp
        cases hkind : p.kind with
        | slow a b => rw [hkind] at hsh; exact hsh
        | run a b => rw [hkind] at hsh; exact hsh
        | upl a b c => rw [hkind] at hsh; exact hsh
        | del i f =>
          rw [hkind] at hsh
          have hi := hs.pok.minted p hp i (by simp [sidOf, hkind])
          refine ⟨hsh.1, ?_⟩
          show isLive st2 i = true
          simp only [isLive, htbl, hfnew i, if_neg (Nat.ne_of_lt hi)]; exact hsh.2
        | cls i =>
          rw [hkind] at hsh
          have hi := hs.pok.minted p hp i (by simp [sidOf, hkind])
          refine ⟨hsh.1, ?_⟩
          show isLive st2 i = true
          simp only [isLive, htbl, hfnew i, if_neg (Nat.ne_of_lt hi)]; exact hsh.2
      · intro p hp i hi
        show i < st2.next
        rw [hnext]; have := hs.pok.minted p hp i hi; omega

end Sessions
