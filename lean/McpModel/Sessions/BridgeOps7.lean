import McpModel.Sessions.BridgeCreate
/-!
Bridge (E7/C11): the creating POST (`post -`) and its racy variant (`postx`).
-/
namespace Sessions

theorem wasInitialized_new {s : State} (hi : Inv s) : wasInitialized s s.next = false := by
  simp [wasInitialized, findSess_none_of_ge hi (Nat.le_refl _)]

theorem bookAnswer_post_absent (cfg : Cfg) (fl : Faults) (now : Nat) (tag : Tag) (tbl : List MSess)
    (pend : List (Tag × Name)) (u : UserTok) (kind : PKind) (st : St) :
    bookAnswer cfg fl now tag tbl pend (.post .absent u kind) st = (tbl, pend) := by
  simp only [bookAnswer]
  split <;> rfl

theorem sim_post_absent {cfg : Cfg} {d d' : RState} {m : Mon} {o : Obs} (hs : Sim cfg d m) (u : UserTok) (kind : PKind)
    (hop : replayOp d (.post .absent u kind) = some (d', o)) :
    (monStep cfg m (.post .absent u kind) o).viol = none ∧ Sim cfg d' (monStep cfg m (.post .absent u kind) o).mon := by
  have hst := hs.stateful_st
  have hreq : (Op.post .absent u kind).req = some { verb := .post, ref := .absent, user := u, kind := some kind } := rfl
  have hcnt := countersAfter_post m .absent u kind
  rw [hs.nslow, hs.nasync] at hcnt
  have hset0 : ∀ e ∈ d.st.tbl, settleE d.st.now d.st.closeFails e = e := hs.settleE_id _ _ rfl
  have hstep0 := step_postBegin_none (s := d.st) hst u.user kind.kind
  -- the common end: one entry `E` was appended
  have fin : ∀ (st1 : State) (E : Sess) (status : St) (hdr : Option Name) (log : List LogEnt),
      modelOp d (.post .absent u kind) = some { st := st1, status := status, hdr := hdr, hang := false, done := [], log := log, pend := d.pend, nslow := (if kind == .slow then d.nslow + 1 else d.nslow), nasync := (if kind == .slow then d.nasync else d.nasync + 1), released := d.released } →
      settle st1 = withNew d.st E → Inv st1 →
      E.id = d.st.next → E.owner = u.user → EOk cfg d.st.now 0 0 E → E.upl = 0 →
      ((E.removed = false ∧ E.closing = false ∧ (cfg.timeout ≠ 0 → E.timer = .armed (d.st.now + cfg.timeout)) ∧
          kind = .init ∧ status.accepted2xx = true ∧ hdr = some (sname d.st.next)) ∨
        (E.removed = true ∧ (hdr = none ∨ hdr = some (sname d.st.next)))) →
      (status.accepted2xx || (kind != .notif && (effFaults cfg m).reqOpen && status == .code 500) ||
        ((effFaults cfg m).connOpen && status == .code 500)) = true →
      chkLog cfg (some { verb := .post, ref := .absent, user := u, kind := some kind }) status log = none →
      (∀ h, hdr = some h → isInitKind (some kind) = true ∧ status.accepted2xx = true) →
      (kind = .init → status.accepted2xx = true → hdr.isSome = true) →
      (monStep cfg m (.post .absent u kind) o).viol = none ∧ Sim cfg d' (monStep cfg m (.post .absent u kind) o).mon := by
    intro st1 E status hdr log hmo hset hinv1 hEid hEo hEok hEu hE hacc hlog hmint hnoid
    have hinv2 : Inv (withNew d.st E) := by rw [← hset]; exact settle_inv hinv1
    apply sim_append_op (r := { verb := .post, ref := .absent, user := u, kind := some kind }) (E := E) hs hreq rfl rfl hmo hset rfl rfl rfl rfl rfl hinv2 hEid hEo hEok hEu
    · rcases hE with ⟨a, b, c, dd, e, f⟩ | h
      · left; exact ⟨a, b, c, by rw [dd], e, f, rfl⟩
      · right; exact h
    · simp only [chkAnswer, hs.stateful, Bool.false_eq_true, if_false, Ref.name, beq_self_eq_true, if_true, Bool.true_and]
      have h1 : ((Verb.post == Verb.other) = false) := rfl
      simp only [h1, Bool.false_eq_true, if_false]
      have : ((some kind : Option PKind) != some PKind.notif) = (kind != PKind.notif) := by cases kind <;> rfl
      rw [this, hacc]; rfl
    · exact hlog
    · exact hmint
    · simp only [chkNoId, beq_self_eq_true, Bool.true_and, hs.stateful, Bool.not_false, Bool.and_true]
      by_cases hk : kind = .init
      · subst hk
        cases hac : status.accepted2xx with
        | false => simp
        | true => have := hnoid rfl hac; cases hh : hdr <;> simp_all
      · have : ((some kind : Option PKind) == some PKind.init) = false := by cases kind <;> simp_all
        simp [this]
    · exact bookAnswer_post_absent _ _ _ _ _ _ _ _ _
    · rfl
    · rfl
    · rfl
    · exact hcnt _
    · split <;> omega
    · split <;> omega
    · exact hop
  cases hcf : d.st.connectFails with
  | true =>
    -- the event store refuses `Connect`: the id is born dead
    rw [hcf] at hstep0
    simp only [if_true] at hstep0
    obtain ⟨f1, f2, f3, f4⟩ := failed_facts cfg d.st u.user
    apply fin (withNew d.st (failedSess d.st u.user)) (failedSess d.st u.user) (.code 500) none []
    · simp only [modelOp, Ref.sid, Option.isNone_none, hst, Bool.not_false, Bool.and_self, if_true, hstep0]
    · rw [settle_new hst hs.inv f1 hset0, settleE_removed_id f4]
    · exact step_inv hs.inv hstep0
    · exact f1
    · exact f2
    · exact f3
    · rfl
    · right; exact ⟨f4, Or.inl rfl⟩
    · simp [hs.effFaults_after.2.2, hcf]
    · exact chkLog_nil _ _ _
    · intro h hh; cases hh
    · intro _ hacc; simp [St.accepted2xx] at hacc
  | false =>
    rw [hcf] at hstep0
    simp only [Bool.false_eq_true, if_false] at hstep0
    have he0id : (newSess d.st u.user kind.kind).id = d.st.next := rfl
    have hpub := step_publish_new hst hs.inv he0id (k := kind.kind) rfl
    have hinv0 := step_inv hs.inv hstep0
    have hinv1 := step_inv hinv0 hpub
    have he1id : (tryF (publishF true d.st.cfg.timeout (d.st.accepts kind.kind)) (newSess d.st u.user kind.kind)).id = d.st.next := by
      simp [tryF, publishF, newSess, publishedSess, (deliver_fields _ _ _).2.2.2.2.2.2.1]
    cases hacc : d.st.accepts kind.kind with
    | false =>
      have hacc' : kind.kind.hasCall = true ∧ d.st.openFails = true := by simpa [State.accepts] using hacc
      rw [hacc] at hpub he1id
      have hresp : postResp d.st kind.kind (if kind.kind.isInitialize then some d.st.next else none) (newSess d.st u.user kind.kind).closing = .storeRefused 500 := by
        simp [postResp, hacc, stStoreOpenFailed, Generated.Sessions.storeOpenFailed]
      rw [hresp] at hpub
      obtain ⟨f1, f2, f3, f4⟩ := created_facts cfg d.st hs.cfg_eq u.user kind.kind false d.st.closeFails
      apply fin (doL (withNew d.st (tryF (publishF true d.st.cfg.timeout false) (newSess d.st u.user kind.kind))) (.postEnd (some d.st.next) true))
        (createdE d.st.now cfg.timeout d.st.closeFails (newSess d.st u.user kind.kind) kind.kind false) (.code 500) none []
      · simp only [modelOp, Ref.sid, Option.isNone_none, hst, Bool.not_false, Bool.and_self, if_true, hstep0, hpub, Option.getD_none,
          Bool.false_eq_true, if_false]
      · rw [doL_postEnd_new hst hs.inv he1id, settle_new hst hs.inv (by rw [keepsId_endPost]; exact he1id) hset0, hs.cfg_eq]
        simp only [createdE, hdK_false, id]
      · exact doL_inv (step_inv hinv0 hpub) _
      · exact f1
      · exact f2
      · exact f3
      · exact created_upl _ _ _ _ _ _
      · right
        simp only [Bool.false_eq_true, and_false, if_false] at f4
        exact ⟨f4, Or.inl rfl⟩
      · rw [kind_hasCall] at hacc'
        simp [hs.effFaults_after.2.1, hacc'.1, hacc'.2]
      · exact chkLog_nil _ _ _
      · intro h hh; cases hh
      · intro _ hac; simp [St.accepted2xx] at hac
    | true =>
      rw [hacc] at hpub he1id
      have hresp : postResp d.st kind.kind (if kind.kind.isInitialize then some d.st.next else none) (newSess d.st u.user kind.kind).closing =
          .forward (if kind.kind.isInitialize then some d.st.next else none) true := by
        simp [postResp, hacc, newSess]
      rw [hresp] at hpub
      obtain ⟨f1, f2, f3, f4⟩ := created_facts cfg d.st hs.cfg_eq u.user kind.kind true d.st.closeFails
      have hwas := wasInitialized_new hs.inv
      apply fin (doL (runHandler (withNew d.st (tryF (publishF true d.st.cfg.timeout true) (newSess d.st u.user kind.kind))) d.st.next kind.kind true) (.postEnd (some d.st.next) true))
        (createdE d.st.now cfg.timeout d.st.closeFails (newSess d.st u.user kind.kind) kind.kind true)
        (postStatus kind) (postHdr kind ((if kind.kind.isInitialize then some d.st.next else none).map sname)) (postLog (sname d.st.next) u kind true true)
      · simp only [modelOp, Ref.sid, Option.isNone_none, hst, Bool.not_false, Bool.and_self, if_true, hstep0, hpub, Option.getD_none,
          Bool.false_eq_true, if_false, hwas, Bool.and_false]
      · rw [runHandler_new hst hs.inv he1id, doL_postEnd_new hst hs.inv (by rw [keepsId_hdK]; exact he1id),
          settle_new hst hs.inv (by rw [keepsId_endPost, keepsId_hdK]; exact he1id) hset0, hs.cfg_eq]
        rfl
      · exact doL_inv (runHandler_inv (step_inv hinv0 hpub) _ _ _) _
      · exact f1
      · exact f2
      · exact f3
      · exact created_upl _ _ _ _ _ _
      · by_cases hk : kind = .init
        · subst hk
          simp only [PKind.kind, and_self, if_true] at f4
          left; exact ⟨f4.1, f4.2.1, f4.2.2, rfl, rfl, rfl⟩
        · have : ¬(kind.kind = Kind.init ∧ true = true) := by cases kind <;> simp_all [PKind.kind]
          rw [if_neg this] at f4
          right
          refine ⟨f4, ?_⟩
          cases kind <;> simp_all [postHdr, PKind.kind, Kind.isInitialize]
      · cases kind <;> simp [postStatus, St.accepted2xx]
      · unfold chkLog
        have hrj : (postStatus kind).rejected = false := by cases kind <;> rfl
        simp only [hrj, Bool.false_and, Bool.false_eq_true, if_false, hs.stateful, Ref.name]
        cases kind <;> simp [postLog, firstSome]
      · intro h hh
        cases kind <;> simp_all [postHdr, isInitKind, postStatus, St.accepted2xx]
      · intro hk _; subst hk; simp [postHdr, PKind.kind, Kind.isInitialize]

theorem countersAfter_postx (m : Mon) (u : UserTok) (kind : PKind) (st : St) :
    countersAfter m (.postx u kind) st =
      (if kind == .slow then m.nslow + 1 else m.nslow, if kind == .slow then m.nasync else m.nasync + 1) := by
  cases kind <;> rfl

theorem sim_postx {cfg : Cfg} {d d' : RState} {m : Mon} {o : Obs} (hs : Sim cfg d m) (u : UserTok) (kind : PKind)
    (hop : replayOp d (.postx u kind) = some (d', o)) :
    (monStep cfg m (.postx u kind) o).viol = none ∧ Sim cfg d' (monStep cfg m (.postx u kind) o).mon := by
  have hst := hs.stateful_st
  have hreq : (Op.postx u kind).req = some { verb := .post, ref := .absent, user := u, kind := some kind, racy := true } := rfl
  have hcnt := countersAfter_postx m u kind
  rw [hs.nslow, hs.nasync] at hcnt
  have hset0 : ∀ e ∈ d.st.tbl, settleE d.st.now d.st.closeFails e = e := hs.settleE_id _ _ rfl
  have hstep0 := step_postBegin_none (s := d.st) hst u.user kind.kind
  have fin : ∀ (st1 : State) (E : Sess) (status : St) (hdr : Option Name),
      modelOp d (.postx u kind) = some { st := st1, status := status, hdr := hdr, hang := false, done := [], log := [], pend := d.pend, nslow := (if kind == .slow then d.nslow + 1 else d.nslow), nasync := (if kind == .slow then d.nasync else d.nasync + 1), released := d.released } →
      settle st1 = withNew d.st E → Inv st1 →
      E.id = d.st.next → E.owner = u.user → EOk cfg d.st.now 0 0 E → E.upl = 0 → E.removed = true →
      (hdr = none ∨ hdr = some (sname d.st.next)) →
      (status.accepted2xx || (kind != .notif && (effFaults cfg m).reqOpen && status == .code 500) ||
        ((effFaults cfg m).connOpen && status == .code 500)) = true →
      (∀ h, hdr = some h → isInitKind (some kind) = true ∧ status.accepted2xx = true) →
      (kind = .init → status.accepted2xx = true → hdr.isSome = true) →
      (monStep cfg m (.postx u kind) o).viol = none ∧ Sim cfg d' (monStep cfg m (.postx u kind) o).mon := by
    intro st1 E status hdr hmo hset hinv1 hEid hEo hEok hEu hrm hh hacc hmint hnoid
    have hinv2 : Inv (withNew d.st E) := by rw [← hset]; exact settle_inv hinv1
    apply sim_append_op (r := { verb := .post, ref := .absent, user := u, kind := some kind, racy := true }) (E := E) hs hreq rfl rfl hmo hset rfl rfl rfl rfl rfl hinv2 hEid hEo hEok hEu
      (Or.inr ⟨hrm, hh⟩)
    · simp only [chkAnswer, hs.stateful, Bool.false_eq_true, if_false, Ref.name, beq_self_eq_true, if_true, Bool.true_and]
      have h1 : ((Verb.post == Verb.other) = false) := rfl
      simp only [h1, Bool.false_eq_true, if_false]
      have : ((some kind : Option PKind) != some PKind.notif) = (kind != PKind.notif) := by cases kind <;> rfl
      rw [this, hacc]; rfl
    · exact chkLog_nil _ _ _
    · exact hmint
    · simp only [chkNoId, beq_self_eq_true, Bool.true_and, hs.stateful, Bool.not_false, Bool.and_true]
      by_cases hk : kind = .init
      · subst hk
        cases hac : status.accepted2xx with
        | false => simp
        | true => have := hnoid rfl hac; cases hh' : hdr <;> simp_all
      · have : ((some kind : Option PKind) == some PKind.init) = false := by cases kind <;> simp_all
        simp [this]
    · simp only [bookAnswer]; split <;> rfl
    · rfl
    · rfl
    · rfl
    · exact hcnt _
    · split <;> omega
    · split <;> omega
    · exact hop
  cases hcf : d.st.connectFails with
  | true =>
    rw [hcf] at hstep0
    simp only [if_true] at hstep0
    obtain ⟨f1, f2, f3, f4⟩ := failed_facts cfg d.st u.user
    apply fin (withNew d.st (failedSess d.st u.user)) (failedSess d.st u.user) (.code 500) none
    · simp only [modelOp, hst, Bool.false_eq_true, if_false, hstep0]
    · rw [settle_new hst hs.inv f1 hset0, settleE_removed_id f4]
    · exact step_inv hs.inv hstep0
    · exact f1
    · exact f2
    · exact f3
    · rfl
    · exact f4
    · left; rfl
    · simp [hs.effFaults_after.2.2, hcf]
    · intro h hh; cases hh
    · intro _ hacc; simp [St.accepted2xx] at hacc
  | false =>
    rw [hcf] at hstep0
    simp only [Bool.false_eq_true, if_false] at hstep0
    have he0id : (newSess d.st u.user kind.kind).id = d.st.next := rfl
    have hx1id : (tryF (closeDoneF d.st.closeFails) (tryF closeF (newSess d.st u.user kind.kind))).id = d.st.next := by
      rw [keepsId_closeDone, keepsId_close]; rfl
    have hx1p : (tryF (closeDoneF d.st.closeFails) (tryF closeF (newSess d.st u.user kind.kind))).pending = some kind.kind := by
      simp [tryF, closeF, closeDoneF, newSess]
    have hx1c : (tryF (closeDoneF d.st.closeFails) (tryF closeF (newSess d.st u.user kind.kind))).closing = true := by
      simp [tryF, closeF, closeDoneF, newSess]
    have hst1 : doL (doL (withNew d.st (newSess d.st u.user kind.kind)) (.serverClose d.st.next)) (.closeDone d.st.next) =
        withNew d.st (tryF (closeDoneF d.st.closeFails) (tryF closeF (newSess d.st u.user kind.kind))) := by
      rw [doL_serverClose_new hst hs.inv he0id, doL_closeDone_new hst hs.inv (by rw [keepsId_close]; rfl)]
    have hinv0 := step_inv hs.inv hstep0
    have hinv1 : Inv (withNew d.st (tryF (closeDoneF d.st.closeFails) (tryF closeF (newSess d.st u.user kind.kind)))) := by
      rw [← hst1]; exact doL_inv (doL_inv hinv0 _) _
    have hpub := step_publish_new hst hs.inv hx1id hx1p
    rw [hx1c] at hpub
    obtain ⟨f1, f2, f3, f4⟩ := racy_facts cfg d.st u.user kind.kind (d.st.accepts kind.kind) d.st.closeFails
    have he2id : (tryF (publishF true d.st.cfg.timeout (d.st.accepts kind.kind)) (tryF (closeDoneF d.st.closeFails) (tryF closeF (newSess d.st u.user kind.kind)))).id = d.st.next := by
      simp [tryF, publishF, closeF, closeDoneF, newSess]
    have hsettle : settle (doL (withNew d.st (tryF (publishF true d.st.cfg.timeout (d.st.accepts kind.kind)) (tryF (closeDoneF d.st.closeFails) (tryF closeF (newSess d.st u.user kind.kind))))) (.postEnd (some d.st.next) true)) =
        withNew d.st (racyE d.st.now cfg.timeout d.st.closeFails (newSess d.st u.user kind.kind) (d.st.accepts kind.kind)) := by
      rw [doL_postEnd_new hst hs.inv he2id, settle_new hst hs.inv (by rw [keepsId_endPost]; exact he2id) hset0, hs.cfg_eq]
      rfl
    cases hacc : d.st.accepts kind.kind with
    | false =>
      have hacc' : kind.kind.hasCall = true ∧ d.st.openFails = true := by simpa [State.accepts] using hacc
      have hresp : postResp d.st kind.kind (if kind.kind.isInitialize then some d.st.next else none) true = .storeRefused 500 := by
        simp [postResp, hacc, stStoreOpenFailed, Generated.Sessions.storeOpenFailed]
      rw [hresp] at hpub
      apply fin _ _ (.code 500) none ?_ hsettle (doL_inv (step_inv hinv1 hpub) _) f1 f2 f3 (racy_upl _ _ _ _ _ _) f4 (Or.inl rfl)
      · rw [kind_hasCall] at hacc'
        simp [hs.effFaults_after.2.1, hacc'.1, hacc'.2]
      · intro h hh; cases hh
      · intro _ hac; simp [St.accepted2xx] at hac
      · simp only [modelOp, hst, Bool.false_eq_true, if_false, hstep0, hst1, hpub]
    | true =>
      have hresp : postResp d.st kind.kind (if kind.kind.isInitialize then some d.st.next else none) true =
          .forward (if kind.kind.isInitialize then some d.st.next else none) false := by
        simp [postResp, hacc]
      rw [hresp] at hpub
      apply fin _ _ (.code 200) ((if kind.kind.isInitialize then some d.st.next else none).map sname) ?_ hsettle
        (doL_inv (step_inv hinv1 hpub) _) f1 f2 f3 (racy_upl _ _ _ _ _ _) f4
      · cases kind.kind.isInitialize <;> simp
      · simp [St.accepted2xx]
      · intro h hh
        rw [kind_isInit] at hh
        cases hik : isInitKind (some kind) with
        | false => rw [hik] at hh; simp at hh
        | true => exact ⟨rfl, rfl⟩
      · intro hk _; subst hk; simp [PKind.kind, Kind.isInitialize]
      · simp only [modelOp, hst, Bool.false_eq_true, if_false, hstep0, hst1, hpub]

end Sessions
