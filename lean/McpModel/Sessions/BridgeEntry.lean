import McpModel.Sessions.BridgeInv
/-!
Bridge (E7/C11), entry level: what the label sequence of each harness operation does to ONE entry of the
model's table (pure record reasoning, no lists), in explicit form.
-/
namespace Sessions

/-! ### settling one entry -/

theorem settleE_id {now : Nat} {cf : Bool} {e : Sess} (hnd : ∀ d, e.timer = .armed d → now < d)
    (hq : ¬(e.removed = false ∧ e.closing = true ∧ e.busy = 0 ∧ e.initBusy = 0)) : settleE now cf e = e := by
  have h1 : timerFireF now e = none := by
    unfold timerFireF
    split
    · rfl
    · split
      · rename_i d hd
        have := hnd d hd
        split
        · omega
        · rfl
      · rfl
  have h2 : closeDoneF cf e = none := by
    unfold closeDoneF
    split
    · rfl
    · rename_i hx
      exfalso; apply hq
      simp only [Bool.or_eq_true, Bool.not_eq_true', decide_eq_true_eq, not_or, Bool.not_eq_true, Decidable.not_not] at hx
      exact ⟨hx.1.1.1, by simpa using hx.1.1.2, hx.1.2, hx.2⟩
  simp [settleE, tryF, h1, h2]

theorem settleE_of_eok {cfg : Cfg} {now ns nr : Nat} {e : Sess} (cf : Bool) (h : EOk cfg now ns nr e) :
    settleE now cf e = e := by
  apply settleE_id h.notDue
  intro ⟨h1, h2, h3, _⟩
  have := h.quiet h2 h1
  have := h.busy
  omega

/-- a close that can complete does -/
def closedE (cf : Bool) (e : Sess) : Sess := { e with removed := true, inMap := false, timer := .nil, closeErr := cf }

theorem settleE_close {now : Nat} {cf : Bool} {e : Sess} (hnd : ∀ d, e.timer = .armed d → now < d)
    (hr : e.removed = false) (hc : e.closing = true) (hb : e.busy = 0) (hib : e.initBusy = 0) :
    settleE now cf e = closedE cf e := by
  have h1 : timerFireF now e = none := by
    unfold timerFireF
    split
    · rfl
    · split
      · rename_i d hd
        have := hnd d hd
        split
        · omega
        · rfl
      · rfl
  simp [settleE, tryF, h1, closeDoneF, hr, hc, hb, hib, closedE]

/-- the idle timer fires: the close begins, and completes when no handler is in flight -/
def firedE (cf : Bool) (e : Sess) : Sess :=
  if e.busy = 0 ∧ e.initBusy = 0 then closedE cf { e with timer := .stopped, closing := true }
  else { e with timer := .stopped, closing := true }

theorem settleE_fire {now : Nat} {cf : Bool} {e : Sess} {d : Nat} (hr : e.removed = false) (ht : e.timer = .armed d)
    (hd : d ≤ now) : settleE now cf e = firedE cf e := by
  have h1 : timerFireF now e = some { e with timer := .stopped, closing := true } := by
    simp [timerFireF, hr, ht, hd]
  unfold firedE
  by_cases hb : e.busy = 0 ∧ e.initBusy = 0
  · simp [settleE, tryF, h1, closeDoneF, hr, hb, closedE]
  · simp only [settleE, tryF, h1, Option.getD_some, closeDoneF, hr, if_neg hb]
    have hx : (¬e.busy = 0 ∨ ¬e.initBusy = 0) := by
      by_cases h0 : e.busy = 0
      · exact Or.inr (fun h => hb ⟨h0, h⟩)
      · exact Or.inl h0
    simp [hx]

/-! ### a POST that is answered at once (`startPOST`, the handler if any, `endPOST`) -/

/-- the handler of a POST that is answered at once -/
def hdK (k : Kind) (dlv : Bool) (x : Sess) : Sess :=
  match k with
  | .init => if dlv then tryF (handlerDoneF true) x else x
  | .badInit | .call => if dlv then tryF (handlerDoneF false) x else x
  | .notif => x

/-- net effect: the idle period restarts when no other POST is in progress; `initialize` initializes -/
def touchE (now T : Nat) (ini : Bool) (e : Sess) : Sess :=
  let e1 := if ini then { e with initialized := true } else e
  match e.timer with
  | .nil => e1
  | _ => if e.refs = 0 then { e1 with timer := .armed (now + T), idleSince := now } else e1

theorem touch_eq {now T : Nat} {e : Sess} (k : Kind) (ok : Bool) (hr : e.removed = false) (hcr : e.creating = false)
    (hrp : e.timer ≠ .nil → e.refs = e.posts) (harm : ∀ d, e.timer = .armed d → e.refs = 0) :
    tryF (endPost now T false) (hdK k (ok && !e.closing) (startPost ok k e)) =
      touchE now T (k == .init && ok && !e.closing) e := by
  rcases e with ⟨id, owner, refs, timer, closing, removed, inMap, pending, initialized, creating, busy, initBusy, posts, idleSince, closeErr, upl⟩
  simp only [] at hr hcr hrp harm
  subst hr; subst hcr
  cases ok <;> cases closing <;> cases k <;> cases timer <;>
    simp [hdK, startPost, startTimer, deliver, tryF, handlerDoneF, endPost, touchE] <;>
    (try (by_cases h0 : refs = 0 <;> simp [h0])) <;>
    (try (have := harm _ rfl; omega))

/-! ### building blocks -/

/-- `startPOST` + hand-over of a call whose handler parks -/
def pendE (e : Sess) : Sess :=
  match e.timer with
  | .nil => { e with posts := e.posts + 1, busy := e.busy + 1 }
  | t => { e with posts := e.posts + 1, refs := e.refs + 1, timer := if e.refs = 0 then .stopped else t, busy := e.busy + 1 }

theorem pend_eq {e : Sess} (hc : e.closing = false) : startPost true .call e = pendE e := by
  rcases e with ⟨id, owner, refs, timer, closing, removed, inMap, pending, initialized, creating, busy, initBusy, posts, idleSince, closeErr, upl⟩
  simp only [] at hc
  subst hc
  cases timer <;> simp [startPost, startTimer, deliver, pendE]

/-- `endPOST` of a POST that did not create the session -/
def endE (now T : Nat) (e : Sess) : Sess :=
  match e.timer with
  | .nil => { e with posts := e.posts - 1 }
  | t =>
    if e.refs - 1 = 0 then { e with posts := e.posts - 1, refs := e.refs - 1, timer := .armed (now + T), idleSince := now }
    else { e with posts := e.posts - 1, refs := e.refs - 1, timer := t }

theorem endPost_eq {now T : Nat} {e : Sess} (hp : e.posts ≠ 0) (hcr : e.creating = false) :
    tryF (endPost now T false) e = endE now T e := by
  rcases e with ⟨id, owner, refs, timer, closing, removed, inMap, pending, initialized, creating, busy, initBusy, posts, idleSince, closeErr, upl⟩
  simp only [] at hp hcr
  subst hcr
  cases timer <;> simp [tryF, endPost, endE, hp] <;> (by_cases h0 : refs - 1 = 0 <;> simp [h0])

/-- a parked handler returns -/
def hdoneE (e : Sess) : Sess := { e with busy := e.busy - 1 }

theorem hdone_eq {e : Sess} (hr : e.removed = false) (hb : e.busy ≠ 0) : tryF (handlerDoneF false) e = hdoneE e := by
  simp [tryF, handlerDoneF, hr, hb, hdoneE]

/-- `Close()` begins -/
def closeE (e : Sess) : Sess := { e with closing := true }

theorem close_eq {e : Sess} (hr : e.removed = false) : tryF closeF e = closeE e := by
  simp [tryF, closeF, hr, closeE]

theorem close_removed {e : Sess} (hr : e.removed = true) : tryF closeF e = e := by
  simp [tryF, closeF, hr]

end Sessions
