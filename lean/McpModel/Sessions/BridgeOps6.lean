import McpModel.Sessions.BridgeOps5
/-!
Bridge (E7/C11): the clock advances (every entry settles again), the event store changes its mind.
-/
namespace Sessions

theorem bookDone1_found (now : Nat) (tbl : List MSess) {pend : List (Tag × Name)} {c : Tag × Nat} {t : Tag} {nm : Name}
    (hf : pend.find? (·.1 == c.1) = some (t, nm)) (hnp : (∀ k, c.1 ≠ .p k) ∧ (∀ k, c.1 ≠ .u k)) :
    (bookDone1 now (tbl, pend) c).1 = monUpd tbl nm mDead := by
  unfold bookDone1
  rw [hf]
  cases hc : c.1 with
  | p k => exact absurd hc (hnp.1 k)
  | u k => exact absurd hc (hnp.2 k)
  | q k => rfl
  | d k => rfl
  | c k => rfl
  | r k => rfl
  | raw s => rfl

/-- Completions of DELETEs / server-side closes whose sessions are gone keep the tables related. -/
theorem bookDone_rel {cfg : Cfg} {tblS : List Sess} (hnS : NodupIds tblS) (now : Nat) (P : List Pend) :
    ∀ (done : List (Tag × Nat)) (tbl : List MSess) (pend : List (Tag × Name)),
      (∀ e ∈ tblS, RelPreAt cfg P tbl e) →
      (∀ c ∈ done, ∀ x ∈ pend, x.1 = c.1 → ((∀ k, c.1 ≠ .p k) ∧ (∀ k, c.1 ≠ .u k)) ∧ ∃ e ∈ tblS, x.2 = sname e.id ∧ e.removed = true) →
      (∀ e ∈ tblS, RelPreAt cfg P (bookDone now tbl pend done).1 e) ∧
      ((bookDone now tbl pend done).1.map (·.name) = tbl.map (·.name)) := by
  intro done
  induction done with
  | nil => intro tbl pend h _; exact ⟨h, rfl⟩
  | cons c rest ih =>
    intro tbl pend hrel hdone
    unfold bookDone
    simp only [List.foldl_cons]
    have hsub : ∀ x, x ∈ (bookDone1 now (tbl, pend) c).2 → x ∈ pend := by
      intro x hx; rw [bookDone1_pend] at hx; exact (List.mem_filter.mp hx).1
    have h1 : (∀ e ∈ tblS, RelPreAt cfg P (bookDone1 now (tbl, pend) c).1 e) ∧
        (bookDone1 now (tbl, pend) c).1.map (·.name) = tbl.map (·.name) := by
      unfold bookDone1
      cases hf : pend.find? (·.1 == c.1) with
      | none => exact ⟨hrel, rfl⟩
      | some x =>
        obtain ⟨t, nm⟩ := x
        have hx := List.mem_of_find?_eq_some hf
        have ht : t = c.1 := by simpa using List.find?_some hf
        obtain ⟨hnp, e0, he0, hnm, hrm⟩ := hdone c List.mem_cons_self (t, nm) hx ht
        simp only [] at hnm
        have hupd := bookDone1_found now tbl hf hnp
        unfold bookDone1 at hupd
        rw [hf] at hupd
        simp only [] at hupd ⊢
        rw [hupd, monUpd_names keepsName_mDead]
        refine ⟨?_, rfl⟩
        intro e he
        by_cases hid : e.id = e0.id
        · have : e = e0 := inj_of_nodup_ids hnS e he e0 he0 hid
          subst this
          rw [hnm]
          exact relPreAt_dead (hrel e he) hrm
        · have := hrel e he
          unfold RelPreAt at this ⊢
          rw [hnm, monFind_monUpd_ne keepsName_mDead _ (sname_ne hid)]
          exact this
    have hrec := ih (bookDone1 now (tbl, pend) c).1 (bookDone1 now (tbl, pend) c).2 h1.1
      (fun c' hc' x hx => hdone c' (List.mem_cons_of_mem _ hc') x (hsub x hx))
    unfold bookDone at hrec
    rw [show (bookDone1 now (tbl, pend) c) = ((bookDone1 now (tbl, pend) c).1, (bookDone1 now (tbl, pend) c).2) from rfl]
    exact ⟨hrec.1, by rw [hrec.2, h1.2]⟩

theorem keepsName_expire (cfg : Cfg) (now : Nat) : KeepsName (expire cfg now) := by
  intro a; unfold expire; split <;> rfl

theorem sim_tick {cfg : Cfg} {d d' : RState} {m : Mon} {o : Obs} (hs : Sim cfg d m) (n : Nat)
    (hop : replayOp d (.tick n) = some (d', o)) :
    (monStep cfg m (.tick n) o).viol = none ∧ Sim cfg d' (monStep cfg m (.tick n) o).mon := by
  have hst := hs.stateful_st
  have hnid := inv_nodupIds hs.inv
  have hreq : (Op.tick n).req = none := rfl
  -- the model side
  have hmo : modelOp d (.tick n) = some { st := { d.st with now := d.st.now + n }, status := .ok, pend := d.pend, nslow := d.nslow, nasync := d.nasync, released := d.released } := by
    simp only [modelOp, doL_tick]
  have hset0 := settle_eq (s := { d.st with now := d.st.now + n }) hst hnid
  have hset : settle { d.st with now := d.st.now + n } =
      { d.st with now := d.st.now + n, tbl := d.st.tbl.map (settleE (d.st.now + n) d.st.closeFails) } := hset0
  clear hset0
  have hinv' : Inv { d.st with now := d.st.now + n, tbl := d.st.tbl.map (settleE (d.st.now + n) d.st.closeFails) } := by
    have := settle_inv (doL_inv hs.inv (.tick n))
    rw [doL_tick, hset] at this
    exact this
  simp only [replayOp, hmo, hset, completions_eq] at hop
  simp only [Option.some.injEq, Prod.mk.injEq] at hop
  obtain ⟨hd', ho⟩ := hop
  subst hd'; subst ho
  -- entries
  have hmem' : ∀ e' ∈ d.st.tbl.map (settleE (d.st.now + n) d.st.closeFails), ∃ e ∈ d.st.tbl, e' = settleE (d.st.now + n) d.st.closeFails e := by
    intro e' he'
    obtain ⟨e, he, rfl⟩ := List.mem_map.mp he'
    exact ⟨e, he, rfl⟩
  have heok' : ∀ e' ∈ d.st.tbl.map (settleE (d.st.now + n) d.st.closeFails),
      EOk cfg (d.st.now + n) (nsOf d.pend e'.id) (nrOf d.pend e'.id) e' := by
    intro e' he'
    obtain ⟨e, he, rfl⟩ := hmem' e' he'
    rw [keepsId_settleE]
    exact eok_tick n _ (hs.eok e he) (hs.good he)
  have hexpF : ∀ nm, monFind (m.tbl.map (expire cfg (m.now + n))) nm = (monFind m.tbl nm).map (expire cfg (m.now + n)) :=
    fun nm => monFind_map (keepsName_expire _ _) _ _
  have hrel0 : ∀ e' ∈ d.st.tbl.map (settleE (d.st.now + n) d.st.closeFails),
      RelPreAt cfg d.pend (m.tbl.map (expire cfg (m.now + n))) e' := by
    intro e' he'
    obtain ⟨e, he, rfl⟩ := hmem' e' he'
    have hrel := hs.rel e he
    unfold RelAt at hrel
    unfold RelPreAt
    rw [keepsId_settleE, hexpF]
    cases hf : monFind m.tbl (sname e.id) with
    | none =>
      rw [hf] at hrel
      simp only [Option.map_none]
      rw [settleE_removed_id hrel]; exact hrel
    | some a =>
      rw [hf] at hrel
      simp only [Option.map_some]
      rw [hs.now]
      exact rel_tick n _ hrel (hs.eok e he) (hs.good he)
  -- completions (none in practice; whatever completes belongs to a session that is gone)
  have hnid' : NodupIds (d.st.tbl.map (settleE (d.st.now + n) d.st.closeFails)) := nodupIds_map (keepsId_settleE _ _) hnid
  have hdone := bookDone_rel (cfg := cfg) hnid' (m.now + n) d.pend
    (d.pend.filterMap (doneOf { d.st with now := d.st.now + n, tbl := d.st.tbl.map (settleE (d.st.now + n) d.st.closeFails) }))
    (m.tbl.map (expire cfg (m.now + n))) (d.pend.filterMap pendOf) hrel0 (by
      intro c hc x hx hxc
      obtain ⟨q, hq, hqc⟩ := List.mem_filterMap.mp hc
      obtain ⟨q', hq', hqx⟩ := List.mem_filterMap.mp hx
      have hqt := doneOf_tag hqc
      have : q' = q := pend_unique hs.pok.tags hq' hq (by rw [← pendOf_tag hqx, hxc, hqt.1])
      subst this
      obtain ⟨j, hj, hxn⟩ := pendOf_sid hqx
      have hjlt := hs.pok.minted q' hq' j hj
      have hsh := hs.pok.shape q' hq'
      have hkeep := hqt.2
      unfold keepOf at hkeep
      unfold sidOf at hj
      have key : isLive { d.st with now := d.st.now + n, tbl := d.st.tbl.map (settleE (d.st.now + n) d.st.closeFails) } j = false →
          ∃ e ∈ d.st.tbl.map (settleE (d.st.now + n) d.st.closeFails), x.2 = sname e.id ∧ e.removed = true := by
        intro hl
        obtain ⟨e, hfe⟩ := findSess_of_lt hs.inv hjlt
        have hf' : findSess j (d.st.tbl.map (settleE (d.st.now + n) d.st.closeFails)) = some (settleE (d.st.now + n) d.st.closeFails e) := by
          rw [findSess_map (keepsId_settleE _ _), hfe]; rfl
        rw [isLive_eq hf'] at hl
        refine ⟨_, (findSess_some hf').1, ?_, by simpa using hl⟩
        rw [hxn, keepsId_settleE, (findSess_some hfe).2]
      cases hkind : q'.kind with
      | slow a b => rw [hkind] at hkeep; cases hkeep
      | run a b => rw [hkind] at hkeep; cases hkeep
      | upl a b c => rw [hkind] at hkeep; cases hkeep
      | del i f =>
        rw [hkind] at hkeep hsh hj
        obtain ⟨⟨nn, hn, _⟩, _⟩ := hsh
        simp at hj; subst hj
        exact ⟨⟨(by intro k hk'; rw [hqt.1, hn] at hk'; cases hk'), (by intro k hk'; rw [hqt.1, hn] at hk'; cases hk')⟩, key hkeep⟩
      | cls i =>
        rw [hkind] at hkeep hsh hj
        obtain ⟨⟨nn, hn, _⟩, _⟩ := hsh
        simp at hj; subst hj
        exact ⟨⟨(by intro k hk'; rw [hqt.1, hn] at hk'; cases hk'), (by intro k hk'; rw [hqt.1, hn] at hk'; cases hk')⟩, key hkeep⟩)
  have hpend2 := pend_after_completions (s := { d.st with now := d.st.now + n, tbl := d.st.tbl.map (settleE (d.st.now + n) d.st.closeFails) })
    hs.pok.tags (m.now + n) (m.tbl.map (expire cfg (m.now + n)))
  -- the bookkeeping as `monStep` computes it
  have hnow : nowAfter m (.tick n) = m.now + n := rfl
  have hba : ∀ st, bookAnswer cfg (effFaults cfg m) (m.now + n) (tagOf m (.tick n)) (m.tbl.map (expire cfg (m.now + n))) m.pend (.tick n) st =
      (m.tbl.map (expire cfg (m.now + n)), m.pend) := by
    intro st; simp [bookAnswer, hs.stateful]
  generalize htbl2 : (bookDone (m.now + n) (m.tbl.map (expire cfg (m.now + n))) (d.pend.filterMap pendOf)
    (d.pend.filterMap (doneOf { d.st with now := d.st.now + n, tbl := d.st.tbl.map (settleE (d.st.now + n) d.st.closeFails) }))).1 = tbl2 at hdone
  have hnames2 : tbl2.map (·.name) = m.tbl.map (·.name) := by
    rw [hdone.2, map_names_keeps (keepsName_expire _ _)]
  have hpre : TblPre cfg { d.st with now := d.st.now + n, tbl := d.st.tbl.map (settleE (d.st.now + n) d.st.closeFails) }
      (d.pend.filter (keepOf { d.st with now := d.st.now + n, tbl := d.st.tbl.map (settleE (d.st.now + n) d.st.closeFails) })) tbl2 := by
    refine ⟨hinv', hst, fun e' he' => (heok' e' he').inMap, by rw [hnames2]; exact hs.mnodup, ?_, ?_⟩
    · intro a ha
      have : a.name ∈ m.tbl.map (·.name) := by rw [← hnames2]; exact List.mem_map.mpr ⟨a, ha, rfl⟩
      obtain ⟨b, hb, hab⟩ := List.mem_map.mp this
      obtain ⟨j, hj, hn⟩ := hs.minted b hb
      exact ⟨j, hj, by rw [← hab]; exact hn⟩
    · intro e' he'
      have := hdone.1 e' he'
      unfold RelPreAt at this ⊢
      rw [nsOf_filter_keep, nrOf_filter_keep]
      exact this
  have heok2 : ∀ e' ∈ d.st.tbl.map (settleE (d.st.now + n) d.st.closeFails),
      EOk cfg (d.st.now + n) (nsOf (d.pend.filter (keepOf { d.st with now := d.st.now + n, tbl := d.st.tbl.map (settleE (d.st.now + n) d.st.closeFails) })) e'.id)
        (nrOf (d.pend.filter (keepOf { d.st with now := d.st.now + n, tbl := d.st.tbl.map (settleE (d.st.now + n) d.st.closeFails) })) e'.id) e' := by
    intro e' he'; rw [nsOf_filter_keep, nrOf_filter_keep]; exact heok' e' he'
  have htc := table_checks hpre hs.stateful (m.now + n) none .ok none
  have hbd : bookDone (nowAfter m (.tick n))
      (bookSlots (bookAnswer cfg (effFaults cfg m) (nowAfter m (.tick n)) (tagOf m (.tick n)) (m.tbl.map (expire cfg (nowAfter m (.tick n)))) m.pend (.tick n) .ok).1
        (bookAnswer cfg (effFaults cfg m) (nowAfter m (.tick n)) (tagOf m (.tick n)) (m.tbl.map (expire cfg (nowAfter m (.tick n)))) m.pend (.tick n) .ok).2 m.run (.tick n) .ok).1
      (bookAnswer cfg (effFaults cfg m) (nowAfter m (.tick n)) (tagOf m (.tick n)) (m.tbl.map (expire cfg (nowAfter m (.tick n)))) m.pend (.tick n) .ok).2
      ([] ++ d.pend.filterMap (doneOf { d.st with now := d.st.now + n, tbl := d.st.tbl.map (settleE (d.st.now + n) d.st.closeFails) })) =
      (tbl2, (d.pend.filter (keepOf { d.st with now := d.st.now + n, tbl := d.st.tbl.map (settleE (d.st.now + n) d.st.closeFails) })).filterMap pendOf) := by
    rw [hnow, hba]
    simp only [bookSlots, List.nil_append, hs.pend]
    exact Prod.ext htbl2 hpend2
  constructor
  · apply monStep_viol_none
    · rfl
    · exact chkLogOp_nil _ _ _ _
    · rfl
    · show (scanMap cfg _ none .ok none _ (showMap _)).2 = none
      rw [hbd, hnow, htc.1]
    · exact htc.2.1
    · show chkGone _ (scanMap cfg _ none .ok none _ (showMap _)).1 = none
      rw [hbd, hnow, htc.1]; exact htc.2.2.1
    · exact htc.2.2.2.1
    · rfl
    · exact chkClose_model hinv' (fun e he => ⟨_, _, heok' e he⟩)
  · obtain ⟨e1, e2, e3, e4, e5, e6, e7⟩ := monStep_mon cfg m (.tick n)
      { status := .ok, hdr := none, hang := false, done := [] ++ d.pend.filterMap (doneOf { d.st with now := d.st.now + n, tbl := d.st.tbl.map (settleE (d.st.now + n) d.st.closeFails) }),
        map := showMap { d.st with now := d.st.now + n, tbl := d.st.tbl.map (settleE (d.st.now + n) d.st.closeFails) },
        srv := showSrv { d.st with now := d.st.now + n, tbl := d.st.tbl.map (settleE (d.st.now + n) d.st.closeFails) }, log := [],
        stale := showStale { d.st with now := d.st.now + n, tbl := d.st.tbl.map (settleE (d.st.now + n) d.st.closeFails) } }
    apply sim_finish (tbl2 := tbl2)
      (d' := { st := { d.st with now := d.st.now + n, tbl := d.st.tbl.map (settleE (d.st.now + n) d.st.closeFails) }, nslow := d.nslow, nasync := d.nasync, released := d.released,
               pend := d.pend.filter (keepOf { d.st with now := d.st.now + n, tbl := d.st.tbl.map (settleE (d.st.now + n) d.st.closeFails) }) })
      hpre heok2 hs.cfg_eq hs.stateful
    · rw [e1]
      show noteFailedInit _ _ none (reapDying _ (scanMap cfg _ none .ok none _ (showMap _)).1) = _
      rw [hbd, hnow, htc.1]; rfl
    · rw [e2, hnow, hs.now]
    · rw [e5]; exact hs.faults
    · rw [e6]; exact hs.nslow
    · rw [e7]; exact hs.nasync
    · rw [e3]
      show (bookDone _ _ _ _).2 = _
      rw [hbd]
    · rw [e4]
      show (bookSlots _ _ m.run (.tick n) .ok).2 = _
      simp only [bookSlots]
      rw [hs.run, runOf_filter_keep]
    · exact PendOkW.strong (st := { d.st with now := d.st.now + n, tbl := d.st.tbl.map (settleE (d.st.now + n) d.st.closeFails) }) hs.pok.weak

/-- the same table, whatever the other fields of the state -/
theorem Sim.idTarget {cfg : Cfg} {d : RState} {m : Mon} (hs : Sim cfg d m) :
    ∀ e ∈ d.st.tbl, e.id = 0 → EOk cfg d.st.now (nsOf d.pend 0) (nrOf d.pend 0) (id e) ∧ RelPreAt cfg d.pend m.tbl (id e) := by
  intro e he hid0
  have hk0 := hs.eok e he
  have hrel0 := hs.rel e he
  rw [hid0] at hk0
  refine ⟨hk0, ?_⟩
  unfold RelAt at hrel0
  show match monFind m.tbl (sname e.id) with
    | some a => ERelPre cfg (nsOf d.pend e.id) (nrOf d.pend e.id) e a
    | none => e.removed = true
  cases hf : monFind m.tbl (sname e.id) with
  | none => rw [hf] at hrel0; exact hrel0
  | some a => rw [hf] at hrel0; exact hrel0.toERelPre

theorem sim_fault {cfg : Cfg} {d d' : RState} {m : Mon} {o : Obs} (hs : Sim cfg d m) (f : Faults)
    (hop : replayOp d (.fault f) = some (d', o)) :
    (monStep cfg m (.fault f) o).viol = none ∧ Sim cfg d' (monStep cfg m (.fault f) o).mon := by
  have hreq : (Op.fault f).req = none := rfl
  have hba : ∀ st, bookAnswer cfg (effFaults cfg m) m.now (tagOf m (.fault f)) m.tbl m.pend (.fault f) st = (m.tbl, m.pend) := by
    intro st; simp [bookAnswer, hs.stateful]
  cases hes : d.st.cfg.eventStore with
  | false =>
    have hmo : modelOp d (.fault f) = some { st := d.st, status := .noop, pend := d.pend, nslow := d.nslow, nasync := d.nasync, released := d.released } := by
      simp [modelOp, hes]
    exact sim_quiet_op hs hmo rfl rfl rfl rfl rfl rfl (by simp [countersAfter, hs.nslow, hs.nasync]) (by rw [hreq]; rfl)
      (hba _) rfl rfl (by simp [faultsAfter]) (by simp [chkNoId, hreq]) (Nat.le_refl _) (Nat.le_refl _) hop
  | true =>
    have hmo : modelOp d (.fault f) = some { st := { d.st with faults := f }, status := .ok, hdr := none, hang := false, done := [], log := [], pend := d.pend, nslow := d.nslow, nasync := d.nasync, released := d.released } := by
      simp [modelOp, hes, doL_faults]
    have hinv : Inv { d.st with faults := f } := by
      have := doL_inv hs.inv (.faults f); rw [doL_faults] at this; exact this
    apply sim_one_op' (i := 0) (G := id) (st2 := { d.st with faults := f }) hs hmo (Or.inl rfl) (by rw [map_lift_id 0]) (fun _ => rfl) rfl rfl rfl hinv
      hs.pok.weak (fun j _ => ⟨rfl, rfl⟩) (fun p hp j _ _ => hs.pok.keep hp) (tblX := m.tbl)
    · rw [hba]; show bookDone _ _ _ [] = _; simp [bookSlots, bookDone, hs.pend]
    · rw [hba]; simp [bookSlots, hs.run]
    · intro j _; rfl
    · exact hs.mnodup
    · exact hs.minted
    · exact hs.idTarget
    · rw [hreq]; rfl
    · exact chkLogOp_nil _ _ _ _
    · simp [chkNoId, hreq]
    · rfl
    · intro h hh; cases hh
    · rfl
    · simp [faultsAfter]
    · simp [countersAfter, hs.nslow, hs.nasync]
    · exact hop

end Sessions
