import McpModel.Sessions.BridgeStateless
import McpModel.Sessions.BridgeOps8
/-!
# Bridge (E7 / C11): the monitor raises no clause on any observation trace of the model

`monitor_accepts_model`: for every configuration with the repaired publication (`publishChecks`, F20) and
EVERY list of harness operations — POST (init / badinit / ping / notif / slow) with no, minted, never-minted
ids by any user, `postx`, POSTs whose body arrives in pieces (`postb` / `body`: in progress from the arrival of
their headers, without a handler until the last piece), GET, DELETE, other methods, release / abandon of parked
handlers, clock ticks of any length, event-store fault scripts, server-side closes; each operation is the label list that the real
handler executes for it, followed by the internal labels enabled at quiescence — the typed monitor
(`runMon`) reports nothing on the model's own observations (`modelTrace`), and the end-of-case clause is
silent on the model's final record (`monEnd_accepts_model`).

The proof is a simulation: `Sim` (stateful) / `SimSL` (stateless) relate the replay state of the model to the
state of the monitor (BridgeInv.lean); every operation re-establishes it (`sim_step`) without a clause.
No hypothesis besides `publishChecks = true` is needed: the operation language has no ill-formed elements.
-/
namespace Sessions

/-! ### the stateless step -/

theorem SimSL.effFaults_sl {cfg : Cfg} {d : RState} {m : Mon} (hs : SimSL cfg d m) :
    (effFaults cfg m).after = d.st.replayFails ∧ (effFaults cfg m).reqOpen = d.st.openFails ∧
    (effFaults cfg m).connOpen = d.st.connectFails := by
  unfold effFaults State.replayFails State.openFails State.connectFails
  rw [hs.cfg_eq, hs.faults]
  cases cfg.eventStore <;> simp

theorem sim_sl_step {cfg : Cfg} {d d' : RState} {m : Mon} {o : Obs} (hs : SimSL cfg d m) (op : Op)
    (hop : replayOp d op = some (d', o)) :
    (monStep cfg m op o).viol = none ∧ SimSL cfg d' (monStep cfg m op o).mon := by
  have hsl : d.st.cfg.stateless = true := by rw [hs.cfg_eq]; exact hs.stateless
  have ht : d.st.tbl = [] := hs.inv.stateless hsl
  have ho := slOut hsl ht hop
  have hba : ∀ now tag, bookAnswer cfg (effFaults cfg m) now tag [] [] op o.status = ([], []) := by
    intro now tag; simp [bookAnswer, hs.stateless]
  have hbs : bookSlots [] [] [] op o.status = ([], []) := by
    cases op <;> simp [bookSlots]
  have hfl := hs.effFaults_sl
  constructor
  · apply monStep_viol_none
    · rw [hs.mtbl]
      simp only [List.map_nil]
      cases hr : op.req with
      | none => rfl
      | some r =>
        have ha := ho.ans r hr
        simp only [chkAnswerO, chkAnswer, hs.stateless, if_true]
        by_cases hv : r.verb = .post
        · obtain ⟨hstat, _⟩ := ha.2 hv
          simp only [hv, beq_self_eq_true, Bool.not_true, Bool.false_eq_true, if_false, Bool.true_and]
          rcases hstat with h | h | h | ⟨h, hc⟩ | ⟨h, hc, hk⟩ <;> rw [h]
          · simp [St.accepted2xx]
          · simp [St.accepted2xx]
          · simp [St.accepted2xx]
          · simp [St.accepted2xx, hfl.2.2, hc]
          · have : (r.kind != some PKind.notif) = true := by simp [hk]
            simp [St.accepted2xx, hfl.2.1, hc, this]
        · have := (ha.1 hv).1
          have hv' : (r.verb == Verb.post) = false := by simp [hv]
          simp [hv', this]
    · rw [chkLogOp_eq ho.notBody]
      unfold chkLog
      cases hr : op.req with
      | none => simp [ho.nolog hr]
      | some r =>
        have ha := ho.ans r hr
        by_cases hv : r.verb = .post
        · obtain ⟨hstat, hlog⟩ := ha.2 hv
          have hrj : o.status.rejected = false := by
            rcases hstat with h | h | h | ⟨h, _⟩ | ⟨h, _⟩ <;> rw [h] <;> rfl
          simp only [hrj, Bool.false_and, Bool.false_eq_true, if_false, hs.stateless, if_true]
          apply firstSome_none
          intro l hl
          obtain ⟨h1, h2⟩ := hlog l hl
          simp [h1, h2]
        · simp [(ha.1 hv).2, firstSome]
    · rw [ho.hdr]; rfl
    · rw [hs.mtbl, hs.mpend, hs.mrun]
      simp only [List.map_nil, hba, hbs, bookDone_nil_pend, ho.map, scanMap]
    · rw [ho.map]; rfl
    · rw [hs.mtbl, hs.mpend, hs.mrun]
      simp only [List.map_nil, hba, hbs, bookDone_nil_pend, ho.map, scanMap]
      rfl
    · simp only [chkSrv, hs.stateless, if_true]
      have : o.srv.any (· != Name.e) = false := by
        rw [List.any_eq_false]
        intro n hn; simp [ho.srv n hn]
      simp [this]
    · unfold chkNoId
      cases op.req <;> simp [hs.stateless]
    · rw [ho.map, ho.stale]; rfl
  · obtain ⟨e1, e2, e3, e4, e5, e6, e7⟩ := monStep_mon cfg m op o
    have hcfg' : d'.st.cfg = cfg := by rw [ho.cfg]; exact hs.cfg_eq
    refine ⟨hcfg', ?_, hs.stateless, ?_, ?_, ?_, ?_⟩
    · -- the model's invariant
      refine ⟨(by rw [ho.cfg]; exact hs.inv.fixed), ?_, (by rw [ho.tbl]; intro e he; cases he), fun _ => ho.tbl⟩
      rw [ho.tbl, ho.next]
      have := hs.inv.ids
      rw [ht] at this
      exact this
    · rw [e5, ho.faults]
      unfold faultsAfter faultsOfOp
      cases op with
      | fault f =>
        simp only []
        rw [ho.fstat f rfl, hs.faults]
        cases d.st.cfg.eventStore <;> simp
      | _ => exact hs.faults
    · rw [e1, hs.mtbl, hs.mpend, hs.mrun, ho.hdr]
      simp only [List.map_nil, hba, hbs, bookDone_nil_pend, ho.map, scanMap, noteFailedInit, reapDying]
    · rw [e3, hs.mtbl, hs.mpend, hs.mrun]
      simp only [List.map_nil, hba, hbs, bookDone_nil_pend]
    · rw [e4, hs.mtbl, hs.mpend, hs.mrun]
      simp only [List.map_nil, hba, hbs]

/-! ### one record -/

/-- the replay state and the monitor state are related (either kind of endpoint) -/
def SimAny (cfg : Cfg) (d : RState) (m : Mon) : Prop :=
  (cfg.stateless = false ∧ Sim cfg d m) ∨ (cfg.stateless = true ∧ SimSL cfg d m)

theorem sim_init (cfg : Cfg) (hfix : cfg.publishChecks = true) : SimAny cfg (.init cfg) {} := by
  have hinv : Inv (init cfg) := inv_init cfg hfix
  cases hsl : cfg.stateless with
  | false =>
    left
    refine ⟨hsl, ?_⟩
    exact {
      cfg_eq := rfl, inv := hinv, stateful := hsl, now := rfl, faults := rfl, nslow := rfl, nasync := rfl,
      mnodup := (by simp), minted := (by intro a ha; cases ha), eok := (by intro e he; cases he),
      rel := (by intro e he; cases he), pend := rfl, run := rfl,
      pok := {
        tags := (by simp [RState.init]), slots := (by simp [RState.init]), shape := (by intro p hp; cases hp),
        minted := (by intro p hp; cases hp), sids := (by intro p hp; cases hp), relLe := (by intro k hk; cases hk) } }
  | true =>
    right
    exact ⟨hsl, { cfg_eq := rfl, inv := hinv, stateless := hsl, faults := rfl, mtbl := rfl, mpend := rfl, mrun := rfl }⟩

/-- **one operation**: the monitor is silent on the model's observation and the relation is kept -/
theorem sim_step {cfg : Cfg} {d d' : RState} {m : Mon} {o : Obs} (hs : SimAny cfg d m) (op : Op)
    (hop : replayOp d op = some (d', o)) :
    (monStep cfg m op o).viol = none ∧ SimAny cfg d' (monStep cfg m op o).mon := by
  rcases hs with ⟨hsl, hs⟩ | ⟨hsl, hs⟩
  · have key : (monStep cfg m op o).viol = none ∧ Sim cfg d' (monStep cfg m op o).mon := by
      cases op with
      | post ref u kind =>
        by_cases href : ref = .absent
        · subst href; exact sim_post_absent hs u kind hop
        · exact sim_post_ref hs ref href u kind hop
      | postx u kind => exact sim_postx hs u kind hop
      | release k => exact sim_release hs k hop
      | abandon k => exact sim_abandon hs k hop
      | get ref u => exact sim_get hs ref u hop
      | delete ref u => exact sim_delete hs ref u hop
      | other ref u => exact sim_other hs ref u hop
      | tick n => exact sim_tick hs n hop
      | fault f => exact sim_fault hs f hop
      | close ref => exact sim_close hs ref hop
      | postb ref u => exact sim_postb hs ref u hop
      | body n fin => exact sim_body hs n fin hop
    exact ⟨key.1, Or.inl ⟨hsl, key.2⟩⟩
  · have key := sim_sl_step hs op hop
    exact ⟨key.1, Or.inr ⟨hsl, key.2⟩⟩

/-! ### a whole case -/

theorem runMonFrom_model {cfg : Cfg} : ∀ (ops : List Op) (d : RState) (m : Mon) (i : Nat), SimAny cfg d m →
    runMonFrom cfg m i (modelTraceFrom d ops) = none ∧
    SimAny cfg (replayFrom d ops) (monAfter cfg m (modelTraceFrom d ops)) := by
  intro ops
  induction ops with
  | nil => intro d m i hs; exact ⟨rfl, hs⟩
  | cons op ops ih =>
    intro d m i hs
    simp only [modelTraceFrom, replayFrom]
    cases hop : replayOp d op with
    | none => exact ih d m i hs
    | some p =>
      obtain ⟨d', o⟩ := p
      obtain ⟨hv, hs'⟩ := sim_step hs op hop
      simp only [runMonFrom, hv, monAfter]
      exact ih d' _ (i + 1) hs'

/-- **monitor_accepts_model** — no false alarm on conforming behaviour: for ALL operation lists the typed C11
monitor reports no clause on the observation trace that the model produces. -/
theorem monitor_accepts_model (cfg : Cfg) (hfix : cfg.publishChecks = true) (ops : List Op) :
    runMon cfg (modelTrace cfg ops) = none :=
  (runMonFrom_model ops (.init cfg) {} 0 (sim_init cfg hfix)).1

/-- the relation holds at the end of every case -/
theorem sim_after_model (cfg : Cfg) (hfix : cfg.publishChecks = true) (ops : List Op) :
    SimAny cfg (replayFrom (.init cfg) ops) (monAfter cfg {} (modelTrace cfg ops)) :=
  (runMonFrom_model ops (.init cfg) {} 0 (sim_init cfg hfix)).2

/-- with the repaired publication the model never leaves a dead session in the handler's table -/
theorem endLeft_zero {cfg : Cfg} {d : RState} {m : Mon} (hs : SimAny cfg d m) : endLeft d = 0 := by
  have hinv : Inv d.st := by
    rcases hs with ⟨_, hs⟩ | ⟨_, hs⟩
    · exact hs.inv
    · exact hs.inv
  unfold endLeft
  rw [List.length_eq_zero_iff, List.filter_eq_nil_iff]
  intro e he h
  simp only [Bool.and_eq_true] at h
  have := (good_inMap (hinv.good e he) h.1).1
  rw [h.2] at this; cases this

/-- **monEnd_accepts_model**: the end-of-case clause is silent on the model's final record. -/
theorem monEnd_accepts_model (cfg : Cfg) (hfix : cfg.publishChecks = true) (ops : List Op) :
    monEnd (monAfter cfg {} (modelTrace cfg ops))
      (some { stuck := 0, map := endLeft (replayFrom (.init cfg) ops), srv := 0 }) = none := by
  rw [endLeft_zero (sim_after_model cfg hfix ops)]
  simp [monEnd]

/-- Non-vacuity: a history with two users, a parked handler, a DELETE that waits for it, an idle timeout
and a server-side close has one record per operation, and the monitor is silent on it. -/
example :
    let ops : List Op := [.post .absent (.u 1) .init, .post .absent (.u 2) .init, .post (.s 1) (.u 1) .slow,
      .delete (.s 1) (.u 2), .delete (.s 1) (.u 1), .tick 100, .release 1, .get (.s 1) (.u 1), .close (.s 2), .post (.s 2) (.u 2) .ping]
    (modelTrace ⟨false, 100, true, false⟩ ops).length = 10 ∧
    (modelTrace ⟨false, 100, true, false⟩ ops).map (·.2.status) =
      [.code 200, .code 200, .pending, .code 403, .pending, .ok, .ok, .code 404, .noop, .code 404] ∧
    runMon ⟨false, 100, true, false⟩ (modelTrace ⟨false, 100, true, false⟩ ops) = none := by
  decide

end Sessions
