import McpModel.Cancel.Monitor
/-!
The invariant of the cancel model (`Inv`), relating the state to the monitor's summary of the ghost
trace (`summ s.trace`), and its preservation by every label (`inv_step`, `inv_run`).
-/
namespace Cancel

/-! ## the summary of a trace, one event at a time -/

theorem summ_snoc (tr : List Ev) (e : Ev) : summ (tr ++ [e]) = mupd (summ tr) e := by
  simp [summ, List.foldl_append]

theorem setFirst_same {α : Type} (f : Nat → Option α) (i : Nat) (v : α) :
    setFirst f i v i = (f i).or (some v) := by simp [setFirst]

theorem setFirst_other {α : Type} (f : Nat → Option α) {i j : Nat} (v : α) (h : j ≠ i) : setFirst f i v j = f j := by
  simp [setFirst, h]

theorem setFirst_none {α : Type} (f : Nat → Option α) (i : Nat) (v : α) (h : f i = none) : setFirst f i v i = some v := by
  simp [setFirst, h]

theorem setFirst_keeps {α : Type} (f : Nat → Option α) (i j : Nat) (v x : α) (h : f j = some x) : setFirst f i v j = some x := by
  unfold setFirst
  by_cases hj : j = i
  · subst hj; simp [h]
  · simp [hj, h]

theorem setFirst_isSome {α : Type} (f : Nat → Option α) (i j : Nat) (v : α) :
    (setFirst f i v j).isSome = (decide (j = i) || (f j).isSome) := by
  unfold setFirst
  by_cases hj : j = i
  · subst hj; cases f j <;> simp
  · simp [hj]

theorem setFirst_some {α : Type} (f : Nat → Option α) (i j : Nat) (v x : α) (h : setFirst f i v j = some x) :
    f j = some x ∨ (j = i ∧ f i = none ∧ x = v) := by
  unfold setFirst at h
  by_cases hj : j = i
  · subst hj
    cases hf : f j with
    | none => simp [hf] at h; exact Or.inr ⟨rfl, rfl, h.symm⟩
    | some y => simp [hf] at h; exact Or.inl (by rw [h])
  · simp [hj] at h; exact Or.inl h

theorem setFirst_eq_none {α : Type} (f : Nat → Option α) (i j : Nat) (v : α) (h : setFirst f i v j = none) :
    f j = none ∧ j ≠ i := by
  unfold setFirst at h
  by_cases hj : j = i
  · subst hj; cases hf : f j <;> simp [hf] at h
  · simp [hj] at h; exact ⟨h, hj⟩

/-! ## the routing facts the bridge uses -/

/-- **cancel_notice_follows_request_route (static form).** With the notifier keeping the values of the call's
context, the cancel notice of a call takes the route the call itself took — whenever request and notice are
served by the same connection of the peer (everything but a stateless server without propagation). -/
theorem noticeRoute_eq_callRoute (c : Cfg) (i : Nat) (hk : c.keepValues = true) (he : expected c i = true) :
    noticeRoute c i = callRoute c i := by
  unfold noticeRoute callRoute noticeVals expected at *
  simp only [hk, if_true]
  cases htr : c.tr <;> cases hd : (c.info i).dir <;> simp [route, htr, hd] at he ⊢
  simp [he]

theorem sameConn_of_expected (c : Cfg) (i : Nat) (hk : c.keepValues = true) (he : expected c i = true) :
    sameConn c i = true := by
  simp [sameConn, noticeRoute_eq_callRoute c i hk he]

theorem setMin_le (f : Nat → Option Nat) (i j v x : Nat) (h : f j = some x) : ∃ y, setMin f i v j = some y ∧ y ≤ x := by
  unfold setMin
  by_cases hj : j = i
  · subst hj; simp only [if_true, h]; exact ⟨min x v, rfl, Nat.min_le_left _ _⟩
  · simp only [hj, if_false]; exact ⟨x, h, Nat.le_refl _⟩

theorem setMin_some (f : Nat → Option Nat) (i j v y : Nat) (h : setMin f i v j = some y) :
    f j = some y ∨ (j = i ∧ y ≤ v ∧ (y = v ∨ f j = some y)) := by
  unfold setMin at h
  by_cases hj : j = i
  · subst hj
    cases hf : f j with
    | none => simp [hf] at h; exact Or.inr ⟨rfl, by omega, Or.inl h.symm⟩
    | some x =>
      simp only [if_true, hf] at h
      injection h with h
      by_cases hx : x ≤ v
      · left; rw [← h, Nat.min_eq_left hx]
      · right; refine ⟨rfl, by omega, Or.inl ?_⟩; rw [← h]; omega
  · simp [hj] at h; exact Or.inl h

theorem setMin_eq_none (f : Nat → Option Nat) (i j v : Nat) (h : setMin f i v j = none) : f j = none ∧ j ≠ i := by
  unfold setMin at h
  by_cases hj : j = i
  · subst hj; cases hf : f j <;> simp [hf] at h
  · simp [hj] at h; exact ⟨h, hj⟩

theorem setMin_none_iff (f : Nat → Option Nat) (i j v : Nat) : setMin f i v j = none ↔ (f j = none ∧ j ≠ i) := by
  constructor
  · exact setMin_eq_none f i j v
  · intro ⟨h, hj⟩; simp [setMin, hj, h]

theorem setMin_same_isSome (f : Nat → Option Nat) (i v : Nat) : (setMin f i v i).isSome = true := by
  unfold setMin; cases f i <;> simp

/-- `routeOpen` can only be lost as the log grows. -/
theorem routeOpen_mono (c : Cfg) (m : MSt) (e : Ev) (i t : Nat) (h : routeOpen c m i t = false) :
    routeOpen c (mupd m e) i t = false := by
  unfold routeOpen at *
  cases hr : callRoute c i with
  | conn => simp [hr] at h
  | oneShot k => simp [hr] at h
  | standalone => simpa [hr] using h
  | reqStream p =>
    simp only [hr] at h ⊢
    cases hf : m.closed p with
    | none => simp [hf, optAll] at h
    | some x =>
      rw [hf] at h
      simp only [optAll, decide_eq_false_iff_not] at h
      have : ∃ y, (mupd m e).closed p = some y ∧ y ≤ x := by
        unfold mupd
        cases e.k <;> first | exact ⟨x, hf, Nat.le_refl _⟩ | exact setMin_le _ _ _ _ _ hf
      obtain ⟨y, hy, hle⟩ := this
      rw [hy]
      simp only [optAll, decide_eq_false_iff_not]
      omega

end Cancel

namespace Cancel

/-- A route that is closed at time t is closed at every later time. -/
theorem routeOpen_antitone (c : Cfg) (m : MSt) (i t t' : Nat) (h : routeOpen c m i t = false) (hle : t ≤ t') :
    routeOpen c m i t' = false := by
  unfold routeOpen at *
  cases hr : callRoute c i with
  | conn => simp [hr] at h
  | oneShot k => simp [hr] at h
  | standalone => simpa [hr] using h
  | reqStream p =>
    simp only [hr] at h ⊢
    cases hf : m.closed p with
    | none => simp [hf, optAll] at h
    | some x =>
      rw [hf] at h
      simp only [optAll, decide_eq_false_iff_not] at h ⊢
      omega

/-- The monitor's summary of the ghost trace. -/
abbrev M (s : St) : MSt := summ s.trace

structure Inv (c : Cfg) (s : St) : Prop where
  le_closed : ∀ i t, (M s).closed i = some t → t ≤ s.now
  closed_iff : ∀ i, (M s).closed i = none ↔ (s.req i ≠ .finished ∧ s.ctxDone i = none)
  beg_iff : ∀ i, ((M s).beg i).isSome = (s.req i == .running || s.req i == .finished)
  fin_iff : ∀ i, ((M s).fin i).isSome = (s.req i == .finished)
  can_eq : ∀ i, ((M s).can i).map (·.2) = s.ctxDone i
  ret_eq : ∀ i, ((M s).ret i).map (·.2) = s.res i
  le_noticeAt : ∀ i, s.noticeAt i ≤ s.now
  ret_after : ∀ i t dl, (M s).ret i = some (t, .ctx dl) → s.noticeAt i ≤ t
  snd_iff : ∀ i, ((M s).snd i).isSome = (s.req i != .idle)
  hc_of : ∀ i, s.hcan i = true → s.req i = .running → ((M s).hc i).isSome = true
  inflight : ∀ i, s.req i ≠ .idle → s.res i = none → s.reg i = true ∨ s.got i = true ∨ s.retired i = true
  issued : ∀ i, s.res i ≠ none → s.req i ≠ .idle
  active : ∀ i, s.reg i = true ∨ s.got i = true → s.req i ≠ .idle
  answered : ∀ i, s.reg i = true → (s.req i = .finished ∨ s.req i = .skipped) → s.respTransit i = true
  hcan_of : ∀ i, s.hcan i = true → s.notice i = .delivered
  notice_ctx : ∀ i, s.notice i ≠ .none → s.ctxDone i ≠ none
  retired_notice : ∀ i, s.retired i = true → s.notice i ≠ .none
  ctx_issued : ∀ i, s.ctxDone i ≠ none → s.req i ≠ .idle
  abort_notice : ∀ i, abortIsNotice c i = true → s.ctxDone i ≠ none → s.notice i ≠ .none
  notice_src : ∀ i, s.notice i ≠ .none → s.retired i = true ∨ abortIsNotice c i = true
  retired_excl : ∀ i, s.retired i = true → s.reg i = false ∧ s.got i = false
  res_ctx : ∀ i dl, s.res i = some (.ctx dl) → s.ctxDone i = some dl ∧ s.retired i = true
  pending_now : ∀ i, s.notice i = .pending → (c.info i).fault = false → s.now = s.noticeAt i
  dropped : ∀ i, s.notice i = .dropped →
    (c.info i).fault = true ∨ expected c i = false ∨ routeOpen c (M s) i (s.noticeAt i) = false
  delivered : ∀ i, s.notice i = .delivered → sameConn c i = true → (s.req i = .queued ∨ s.req i = .running) → s.hcan i = true
  delivered_nt : ∀ i, s.notice i = .delivered → s.req i ≠ .transit
  urgent_now : ∀ i, s.ctxDone i ≠ none → (s.reg i = true ∨ s.got i = true ∨ s.retired i = true) → s.res i = none →
    ∃ dl, (M s).can i = some (s.now, dl)
  encl_run : ∀ i p, s.req i ≠ .idle → (c.info i).encl = some p → s.req p = .running ∨ s.req p = .finished
  bounded : ∀ i, c.n ≤ i → s.req i = .idle ∧ s.notice i = .none ∧ s.ctxDone i = none
  good : scan ⟨c, false⟩ {} s.trace = none

theorem inv_init (c : Cfg) : Inv c init := by
  constructor <;> simp [init, M, summ, scan]

/-! ## reading the log one event further -/

theorem scan_snoc (mc : MonCfg) (m : MSt) (tr : List Ev) (e : Ev) :
    scan mc m (tr ++ [e]) = none ↔ scan mc m tr = none ∧ checkAt mc (tr.foldl mupd m) e = none := by
  induction tr generalizing m with
  | nil => simp [scan]; cases checkAt mc m e <;> simp
  | cons a tr ih =>
    simp only [List.cons_append, scan, List.foldl_cons]
    cases checkAt mc m a with
    | some cl => simp
    | none => simpa using ih (mupd m a)

/-- No time-dependent clause can fire at the current virtual time. -/
theorem timeCheck_none {c : Cfg} {s : St} (hk : c.keepValues = true) (I : Inv c s) :
    timeCheck ⟨c, false⟩ (M s) s.now = none := by
  have h1 : ∀ i, lateCaller (M s) s.now i = false := by
    intro i
    unfold lateCaller
    cases hs : (M s).snd i with
    | none => rfl
    | some ts =>
      cases hc : (M s).can i with
      | none => rfl
      | some x =>
        obtain ⟨tc, dl⟩ := x
        cases hr : (M s).ret i with
        | some r => rfl
        | none =>
          have e1 := I.snd_iff i; rw [hs] at e1
          have e2 := I.can_eq i; rw [hc] at e2
          have e3 := I.ret_eq i; rw [hr] at e3
          have hidle : s.req i ≠ .idle := by intro h; simp [h] at e1
          have hres : s.res i = none := by simpa using e3.symm
          have hctx : s.ctxDone i ≠ none := by rw [← e2]; simp
          obtain ⟨dl', hcan⟩ := I.urgent_now i hctx (I.inflight i hidle hres) hres
          rw [hc] at hcan
          have : tc = s.now := by injection hcan with h; injection h
          simp only [decide_eq_false_iff_not]
          omega
  have h2 : ∀ i, latePeer c (M s) s.now i = false := by
    intro i
    unfold latePeer
    cases hr : (M s).ret i with
    | none => rfl
    | some x =>
      obtain ⟨tr, r⟩ := x
      cases r with
      | ok p => rfl
      | other k => rfl
      | ctx dl =>
        cases hb : (M s).beg i with
        | none => rfl
        | some tb =>
          cases hh : (M s).hc i with
          | some x => rfl
          | none =>
            cases hf : (M s).fin i with
            | some x => rfl
            | none =>
              simp only
              have hat := I.ret_after i tr dl hr
              have e3 := I.ret_eq i; rw [hr] at e3
              have hres : s.res i = some (.ctx dl) := by simpa using e3.symm
              have hn : s.notice i ≠ .none := I.retired_notice i (I.res_ctx i dl hres).2
              by_cases hex : expected c i = true
              · by_cases hfa : (c.info i).fault = false
                · by_cases hro : routeOpen c (M s) i tr = true
                  · cases hnp : s.notice i with
                    | none => exact absurd hnp hn
                    | pending =>
                      have := I.pending_now i hnp hfa
                      simp only [hex, hfa, hro, Bool.not_false, Bool.and_true, Bool.true_and, decide_eq_false_iff_not]
                      omega
                    | dropped =>
                      rcases I.dropped i hnp with h | h | h
                      · rw [hfa] at h; cases h
                      · rw [hex] at h; cases h
                      · rw [routeOpen_antitone c (M s) i _ tr h hat] at hro; cases hro
                    | delivered =>
                      have hb' := I.beg_iff i; rw [hb] at hb'
                      have hf' := I.fin_iff i; rw [hf] at hf'
                      have hrun : s.req i = .running := by
                        cases hq : s.req i <;> simp [hq] at hb' hf' ⊢
                      have hcan := I.delivered i hnp (sameConn_of_expected c i hk hex) (Or.inr hrun)
                      have := I.hc_of i hcan hrun
                      rw [hh] at this; cases this
                  · simp [hro]
                · simp [hfa]
              · simp [hex]
  unfold timeCheck
  have f1 : (List.range c.n).find? (lateCaller (M s) s.now) = none := by
    rw [List.find?_eq_none]; intro i _; simp [h1 i]
  have f2 : (List.range c.n).find? (latePeer c (M s) s.now) = none := by
    rw [List.find?_eq_none]; intro i _; simp [h2 i]
  simp [f1, f2]

end Cancel

namespace Cancel

macro "destruct_inv" I:ident : tactic =>
  `(tactic| obtain ⟨a1, a2, a3, a4, a5, a6, a7, a8, a9, a10, a11, a12, a13, a14, a15, a16, a17, a18, a19, a20, a21, a22, a23, a24, a25, a26, a27, a28, a29, a30⟩ := $I)

/-- The `dropped` clause of the invariant survives one more event in the log. -/
theorem dropped_mono {c : Cfg} {s : St} (e : Ev) (I : Inv c s) :
    ∀ i, s.notice i = .dropped →
      (c.info i).fault = true ∨ expected c i = false ∨ routeOpen c (mupd (M s) e) i (s.noticeAt i) = false := by
  intro i h
  rcases I.dropped i h with h | h | h
  · exact Or.inl h
  · exact Or.inr (Or.inl h)
  · exact Or.inr (Or.inr (routeOpen_mono c _ e i _ h))

theorem good_emit {c : Cfg} {s : St} (hk : c.keepValues = true) (I : Inv c s) (k : EvK) (i : Nat)
    (h : evCheck ⟨c, false⟩ (M s) ⟨k, i, s.now⟩ = none) : scan ⟨c, false⟩ {} (emit s k i) = none := by
  unfold emit
  rw [scan_snoc]
  refine ⟨I.good, ?_⟩
  show checkAt _ (M s) _ = none
  unfold checkAt
  rw [h]
  exact timeCheck_none hk I

theorem inv_call {c : Cfg} {s s' : St} (hk : c.keepValues = true) (i : Nat) (I : Inv c s) (h : step c s (.call i) = some s') : Inv c s' := by
  simp only [step] at h
  split at h
  · rename_i hp
    cases h
    have hd := dropped_mono ⟨.snd, i, s.now⟩ I
    have hg := good_emit hk I (.snd) i rfl
    destruct_inv I
    constructor <;> simp only [M, emit, summ_snoc, mupd] at * <;> grind [upd, setFirst, enclRunning, setFirst_some, setMin_some, setMin_none_iff]
  · cases h

theorem inv_start {c : Cfg} {s s' : St} (hk : c.keepValues = true) (i : Nat) (I : Inv c s) (h : step c s (.start i) = some s') : Inv c s' := by
  simp only [step] at h
  split at h
  · rename_i hp
    cases h
    have hd := dropped_mono ⟨.beg, i, s.now⟩ I
    have hg := good_emit hk I (.beg) i rfl
    destruct_inv I
    constructor <;> simp only [M, emit, summ_snoc, mupd] at * <;> grind [upd, setFirst, setFirst_some, setMin_some, setMin_none_iff]
  · cases h

theorem inv_finish {c : Cfg} {s s' : St} (hk : c.keepValues = true) (i : Nat) (I : Inv c s) (h : step c s (.finish i) = some s') : Inv c s' := by
  simp only [step] at h
  split at h
  · rename_i hp
    cases h
    have hd := dropped_mono ⟨.fin, i, s.now⟩ I
    have hg := good_emit hk I (.fin) i rfl
    destruct_inv I
    constructor <;> simp only [M, emit, summ_snoc, mupd] at * <;> grind [upd, setFirst, setFirst_some, setMin_some, setMin_none_iff]
  · cases h

theorem inv_cancel {c : Cfg} {s s' : St} (hk : c.keepValues = true) (i : Nat) (dl : Bool) (I : Inv c s) (h : step c s (.cancel i dl) = some s') : Inv c s' := by
  simp only [step] at h
  split at h
  · rename_i hp
    have hd := dropped_mono ⟨.can dl, i, s.now⟩ I
    have hg := good_emit hk I (.can dl) i rfl
    split at h
    · rename_i ha
      cases h
      destruct_inv I
      constructor <;> simp only [M, emit, summ_snoc, mupd] at * <;> grind [upd, setFirst, setFirst_some, setMin_some, setMin_none_iff]
    · rename_i ha
      cases h
      destruct_inv I
      constructor <;> simp only [M, emit, summ_snoc, mupd] at * <;> grind [upd, setFirst, setFirst_some, setMin_some, setMin_none_iff]
  · cases h

theorem inv_deliver {c : Cfg} {s s' : St} (i : Nat) (I : Inv c s) (h : step c s (.deliver i) = some s') : Inv c s' := by
  simp only [step] at h
  split at h
  · rename_i hp
    cases h
    destruct_inv I
    constructor <;> simp only [M] at * <;> grind [upd]
  · cases h

theorem inv_skip {c : Cfg} {s s' : St} (i : Nat) (I : Inv c s) (h : step c s (.skip i) = some s') : Inv c s' := by
  simp only [step] at h
  split at h
  · rename_i hp
    cases h
    destruct_inv I
    constructor <;> simp only [M] at * <;> grind [upd]
  · cases h

theorem inv_resp {c : Cfg} {s s' : St} (i : Nat) (I : Inv c s) (h : step c s (.resp i) = some s') : Inv c s' := by
  simp only [step] at h
  split at h
  · rename_i hp
    split at h
    · rename_i hr
      cases h
      destruct_inv I
      constructor <;> simp only [M] at * <;> grind [upd]
    · rename_i hr
      cases h
      destruct_inv I
      constructor <;> simp only [M] at * <;> grind [upd]
  · cases h

theorem evCheck_retOk (c : Cfg) (m : MSt) (i t : Nat) : evCheck ⟨c, false⟩ m ⟨.ret (.ok (payload c i)), i, t⟩ = none := by
  unfold payload
  split <;> simp [evCheck]

theorem inv_retOk {c : Cfg} {s s' : St} (hk : c.keepValues = true) (i : Nat) (I : Inv c s) (h : step c s (.retOk i) = some s') : Inv c s' := by
  simp only [step] at h
  split at h
  · rename_i hp
    cases h
    have hd := dropped_mono ⟨.ret (.ok (payload c i)), i, s.now⟩ I
    have hg := good_emit hk I (.ret (.ok (payload c i))) i (evCheck_retOk c _ i _)
    destruct_inv I
    constructor <;> simp only [M, emit, summ_snoc, mupd] at * <;> grind [upd, setFirst, setFirst_some, setMin_some, setMin_none_iff]
  · cases h

theorem evCheck_retCtx {c : Cfg} {s : St} (I : Inv c s) (i : Nat) (dl : Bool) (h : s.ctxDone i = some dl) :
    evCheck ⟨c, false⟩ (M s) ⟨.ret (.ctx dl), i, s.now⟩ = none := by
  have := I.can_eq i
  rw [h] at this
  cases hc : (M s).can i with
  | none => rw [hc] at this; cases this
  | some x =>
    obtain ⟨t, dl'⟩ := x
    rw [hc] at this
    have : dl' = dl := by simpa using this
    simp [evCheck, hc, this]

theorem inv_retCtx {c : Cfg} {s s' : St} (hk : c.keepValues = true) (i : Nat) (I : Inv c s) (h : step c s (.retCtx i) = some s') : Inv c s' := by
  simp only [step] at h
  split at h
  · rename_i dl hdl
    split at h
    · rename_i hp
      cases h
      have hd := dropped_mono ⟨.ret (.ctx dl), i, s.now⟩ I
      have hg := good_emit hk I (.ret (.ctx dl)) i (evCheck_retCtx I i dl hdl)
      destruct_inv I
      constructor <;> simp only [M, emit, summ_snoc, mupd] at * <;> grind [upd, setFirst, setFirst_some, setMin_some, setMin_none_iff]
    · cases h
  · cases h

theorem inv_retire {c : Cfg} {s s' : St} (i : Nat) (I : Inv c s) (h : step c s (.retire i) = some s') : Inv c s' := by
  simp only [step] at h
  split at h
  · rename_i hp
    split at h
    · rename_i ha
      cases h
      destruct_inv I
      constructor <;> simp only [M] at * <;> grind [upd]
    · rename_i ha
      cases h
      destruct_inv I
      constructor <;> simp only [M] at * <;> grind [upd]
  · cases h

theorem evCheck_hc {c : Cfg} {s : St} (I : Inv c s) (i : Nat) (h : s.notice i = .pending) :
    evCheck ⟨c, false⟩ (M s) ⟨.hc, i, s.now⟩ = none := by
  have h1 := I.notice_ctx i (by rw [h]; simp)
  have h2 := I.can_eq i
  cases hc : (M s).can i with
  | none => rw [hc] at h2; simp at h2; exact absurd h2.symm h1
  | some x => simp [evCheck, hc]

set_option maxHeartbeats 1000000 in
theorem inv_notice {c : Cfg} {s s' : St} (hk : c.keepValues = true) (i : Nat) (I : Inv c s) (h : step c s (.notice i) = some s') : Inv c s' := by
  simp only [step] at h
  split at h
  · rename_i hp
    split at h
    · rename_i hq
      cases h
      by_cases hrun : s.req i = .running
      · simp only [hrun, if_true]
        have hd := dropped_mono ⟨.hc, i, s.now⟩ I
        have hg := good_emit hk I .hc i (evCheck_hc I i hp.1)
        destruct_inv I
        constructor <;> simp only [M, emit, summ_snoc, mupd] at * <;> grind [upd, setFirst, setFirst_some, setMin_some, setMin_none_iff]
      · simp only [hrun, if_false]
        destruct_inv I
        constructor <;> simp only [M] at * <;> grind [upd]
    · rename_i hq
      cases h
      destruct_inv I
      constructor <;> simp only [M] at * <;> grind [upd]
  · cases h

theorem callRoute_reqStream {c : Cfg} {i p : Nat} (h : callRoute c i = .reqStream p) : (c.info i).encl = some p := by
  unfold callRoute route at h
  cases htr : c.tr <;> cases hd : (c.info i).dir <;> simp [htr, hd] at h
  all_goals
    cases he : (c.info i).encl with
    | none => simp [he] at h
    | some q =>
      simp [he] at h
      split at h
      · cases h
      · injection h with h; rw [h]

/-- Why a notice is dropped: the transport faulted it, or request and notice are not served by the same
connection, or the route the request travelled is gone — as the LOG shows it. -/
theorem drop_reason {c : Cfg} {s : St} (hk : c.keepValues = true) (I : Inv c s) (i : Nat) (hp : s.notice i = .pending)
    (h : (c.info i).fault = true ∨ routeExists c s (noticeRoute c i) = false) :
    (c.info i).fault = true ∨ expected c i = false ∨ routeOpen c (M s) i (s.now) = false := by
  rcases h with h | h
  · exact Or.inl h
  · by_cases hex : expected c i = true
    · right; right
      rw [noticeRoute_eq_callRoute c i hk hex] at h
      unfold routeOpen
      cases hr : callRoute c i with
      | conn => simp [hr, routeExists] at h
      | oneShot k => simp [hr, routeExists] at h
      | standalone => simpa [hr, routeExists] using h
      | reqStream p =>
        simp only [hr, routeExists, Bool.and_eq_false_iff] at h ⊢
        have hidle := I.ctx_issued i (I.notice_ctx i (by rw [hp]; simp))
        have hrun := I.encl_run i p hidle (callRoute_reqStream hr)
        have hcl : (M s).closed p ≠ none := by
          intro hn
          have := (I.closed_iff p).mp hn
          rcases h with h | h
          · rcases hrun with h' | h'
            · simp [h'] at h
            · exact this.1 h'
          · rw [this.2] at h; simp at h
        cases hx : (M s).closed p with
        | none => exact absurd hx hcl
        | some t =>
          have := I.le_closed p t hx
          simp only [optAll, decide_eq_false_iff_not]
          omega
    · right; left; simpa using hex

theorem inv_drop {c : Cfg} {s s' : St} (hk : c.keepValues = true) (i : Nat) (I : Inv c s) (h : step c s (.drop i) = some s') : Inv c s' := by
  simp only [step] at h
  split at h
  · rename_i hp
    cases h
    have hr := drop_reason hk I i hp.1 hp.2
    have hn : (c.info i).fault = false → s.now = s.noticeAt i := I.pending_now i hp.1
    destruct_inv I
    constructor <;> simp only [M] at * <;> grind [upd]
  · cases h

theorem quiet_spec {c : Cfg} {s : St} (h : quiet c s = true) (i : Nat) (hi : i < c.n) : urgent c s i = false := by
  unfold quiet at h
  rw [List.all_eq_true] at h
  simpa using h i (List.mem_range.mpr hi)

theorem inv_tick {c : Cfg} {s s' : St} (d : Nat) (I : Inv c s) (h : step c s (.tick d) = some s') : Inv c s' := by
  simp only [step] at h
  split at h
  · rename_i hp
    cases h
    have hq : ∀ i, i < c.n → urgent c s i = false := quiet_spec hp.2
    unfold urgent at hq
    destruct_inv I
    constructor <;> simp only [M] at * <;> grind
  · cases h

/-- **The invariant is preserved by every label.** -/
theorem inv_step {c : Cfg} (hk : c.keepValues = true) {s s' : St} (l : Label) (I : Inv c s) (h : step c s l = some s') : Inv c s' := by
  cases l with
  | call i => exact inv_call hk i I h
  | deliver i => exact inv_deliver i I h
  | start i => exact inv_start hk i I h
  | skip i => exact inv_skip i I h
  | finish i => exact inv_finish hk i I h
  | resp i => exact inv_resp i I h
  | retOk i => exact inv_retOk hk i I h
  | cancel i dl => exact inv_cancel hk i dl I h
  | retire i => exact inv_retire i I h
  | retCtx i => exact inv_retCtx hk i I h
  | notice i => exact inv_notice hk i I h
  | drop i => exact inv_drop hk i I h
  | tick d => exact inv_tick d I h

theorem inv_run_from {c : Cfg} (hk : c.keepValues = true) (ls : List Label) {s s' : St} (I : Inv c s) (h : run c s ls = some s') : Inv c s' := by
  induction ls generalizing s with
  | nil => simp [run] at h; subst h; exact I
  | cons l ls ih =>
    simp only [run] at h
    cases hs : step c s l with
    | none => simp [hs] at h
    | some s1 =>
      simp only [hs, Option.bind_some] at h
      exact ih (inv_step hk l I hs) h

/-- **inv_run.** The invariant holds in every state the model can reach. -/
theorem inv_run {c : Cfg} (hk : c.keepValues = true) (ls : List Label) {s : St} (h : run c init ls = some s) : Inv c s :=
  inv_run_from hk ls (inv_init c) h

end Cancel
