import McpModel.Generated.CancelGen
/-!
Engine `cancel` — C04 end to end: "call, nested call, cancel, notice routed along the same path as the
request it names, peer preempts exactly the indexed request", over an abstract routing function.

Calls are natural numbers.  The static part of a case (`Cfg`) says, per call, in which direction it
travels, in the handler context of which incoming request it is made (`encl`: the value
`idContextKey` of its context — `ServerSession.handle` puts the request id there, a regenerated
fact), and whether the transport faults its cancel notice.  What the code does, and which label
stands for it (every label emits at most one visible event, stamped with the virtual time `now`):

  `call i`     `mcp.call`: `conn.Call` registers the call and writes the request on `callRoute i`
               (event `snd`).  Enabled only when that route exists (a nested call is made inside
               the running handler of its enclosing request).
  `deliver i`  the request reaches the peer's connection and is indexed (`incomingByID`) and queued.
  `start i`    the peer's dispatcher runs the handler (event `beg`); a request whose context was
               cancelled while it was queued is not started: `skip i` answers it without user code.
  `finish i`   the handler returns (event `fin`); the request is un-indexed, the response travels.
  `resp i`     the response reaches the caller's connection: a registered call is completed,
               anything else (the call was retired: a LATE response) is discarded without effect.
  `retOk i`    the caller returns the response (event `ret ok`).
  `cancel i`   the call's context ends (event `can`).  On a stateless server that ties handlers to
               their HTTP exchange (`propagate`) the client aborts the exchange in this very step:
               the "notice" of such a call is the abort (`abortIsNotice`), pending from here on.
  `retire i`   `mcp.call` sees the ended context: `conn.Retire`, then the detached notifier is
               started (the order is a regenerated fact).  Enabled by the caller's own state alone.
  `retCtx i`   … and returns the context's error (event `ret ctx`); the notifier runs concurrently,
               so its effect on the peer may be seen before or after this event.
  `notice i`   the notifier's `conn.Notify(notifications/cancelled)` is written on `noticeRoute i`
               — the route computed from the VALUES of the call's context if `keepValues`
               (`context.WithoutCancel(ctx)`, regenerated), from no values otherwise — and the peer's
               canceller runs `Cancel(id)`: the request indexed under that id ON THE CONNECTION THE
               NOTICE ARRIVED ON has its context cancelled (event `hc` if its handler is running).
               Needs the route to be there (`routeMay`: on a response stream its client has just
               abandoned delivery is a race) and the request to have been delivered (FIFO per route).
  `drop i`     the notice cannot be written (route gone, or fault): nothing happens.
  `tick d`     virtual time advances — only when nothing urgent is pending (`quiet`): as under
               testing/synctest, time moves only when every goroutine is blocked.  Urgent: a request
               in transit, a caller whose context ended and who has not returned, a notice that is
               neither delivered nor dropped (unless the transport stalls it: a faulted notice may
               stay pending while time passes).

`trace` is ghost state: the events emitted so far, oldest first.  Core Lean only (linked into the driver).
-/
namespace Cancel

inductive Tr where
  | pipe        -- one bidirectional channel: in-memory, io pipes, the HTTP+SSE transport
  | stateful    -- streamable HTTP with a session
  | stateless   -- streamable HTTP, every POST a connection of its own
deriving DecidableEq, Repr, Inhabited

inductive Dir where | c2s | s2c
deriving DecidableEq, Repr, Inhabited

structure Info where
  dir : Dir := .c2s
  /-- the incoming request whose id the call's context carries (`idContextKey`) -/
  encl : Option Nat := none
  /-- the transport stalls / rejects this call's cancel notice -/
  fault : Bool := false
  /-- the result carries no payload tag (ping) -/
  plain : Bool := false
deriving Repr, Inhabited

structure Cfg where
  tr : Tr := .pipe
  /-- stateful streamable server with JSONResponse -/
  json : Bool := false
  /-- the client keeps a standalone SSE stream -/
  standalone : Bool := true
  /-- stateless: a handler's context is tied to its HTTP request (2026-07-28 + PropagateRequestCancellation) -/
  propagate : Bool := false
  /-- the notifier keeps the values of the call's context (regenerated: `Generated.Cancel.noticeKeepsValues`) -/
  keepValues : Bool := true
  /-- calls are numbered below `n` -/
  n : Nat := 0
  info : Nat → Info := fun _ => {}

inductive Route where
  | conn                 -- the session's one connection (pipe; a POST of a stateful session)
  | oneShot (k : Nat)    -- stateless: the connection made for POST number k
  | reqStream (p : Nat)  -- the SSE response stream of incoming request p
  | standalone           -- the standalone SSE stream
deriving DecidableEq, Repr

/-- The routing function: `ioConn.Write`, `streamableClientConn.Write` (one POST per message),
`streamableServerConn.Write` (by `idContextKey`; with JSON responses everything but responses goes
to the standalone stream). -/
def route (c : Cfg) (d : Dir) (vals : Option Nat) (post : Nat) : Route :=
  match c.tr, d with
  | .pipe, _ => .conn
  | .stateful, .c2s => .conn
  | .stateless, .c2s => .oneShot post
  | _, .s2c =>
    match vals with
    | some p => if c.json then .standalone else .reqStream p
    | none => .standalone

def callRoute (c : Cfg) (i : Nat) : Route := route c (c.info i).dir (c.info i).encl (2 * i)

/-- The values the notifier's context carries. -/
def noticeVals (c : Cfg) (i : Nat) : Option Nat := if c.keepValues then (c.info i).encl else none

/-- On a stateless server the notice is a POST of its own, hence a connection of its own; with
`propagate` what reaches the handler is the end of the request's own HTTP exchange. -/
def noticeRoute (c : Cfg) (i : Nat) : Route :=
  route c (c.info i).dir (noticeVals c i) (if c.propagate then 2 * i else 2 * i + 1)

/-- The jsonrpc2 connection at the far end of a route. -/
inductive Endpoint where | session | oneShot (k : Nat) | client
deriving DecidableEq, Repr

def endpoint : Route → Endpoint
  | .conn => .session
  | .oneShot k => .oneShot k
  | .reqStream _ => .client
  | .standalone => .client

/-- The request and its cancel notice are served by the same connection of the peer: the scope of
"the peer's handler for exactly that request is cancelled". -/
def sameConn (c : Cfg) (i : Nat) : Bool := endpoint (noticeRoute c i) == endpoint (callRoute c i)

inductive RPhase where
  | idle | transit | queued | running | finished | skipped
deriving DecidableEq, Repr, Inhabited

inductive NPhase where
  | none | pending | delivered | dropped
deriving DecidableEq, Repr, Inhabited

inductive Res where
  | ok (p : Option Nat)   -- the peer's result, with the payload tag it carries
  | ctx (dl : Bool)       -- the context's error: Canceled / DeadlineExceeded
  | other (code : Nat)    -- anything else (only in observations; the model never produces it)
deriving DecidableEq, Repr, Inhabited

inductive EvK where
  | snd | beg | fin | hc
  | can (dl : Bool)
  | ret (r : Res)
deriving DecidableEq, Repr, Inhabited

structure Ev where
  k : EvK
  i : Nat
  t : Nat
deriving DecidableEq, Repr, Inhabited

inductive Label where
  | call (i : Nat) | deliver (i : Nat) | start (i : Nat) | skip (i : Nat) | finish (i : Nat)
  | resp (i : Nat) | retOk (i : Nat) | cancel (i : Nat) (dl : Bool) | retire (i : Nat) | retCtx (i : Nat)
  | notice (i : Nat) | drop (i : Nat) | tick (d : Nat)
deriving DecidableEq, Repr, Inhabited

structure St where
  now : Nat := 0
  req : Nat → RPhase := fun _ => .idle
  reg : Nat → Bool := fun _ => false
  got : Nat → Bool := fun _ => false
  /-- the call was retired because its context ended; the caller is about to return -/
  retired : Nat → Bool := fun _ => false
  res : Nat → Option Res := fun _ => none
  ctxDone : Nat → Option Bool := fun _ => none
  notice : Nat → NPhase := fun _ => .none
  /-- virtual time at which the notifier of call i was started -/
  noticeAt : Nat → Nat := fun _ => 0
  hcan : Nat → Bool := fun _ => false
  respTransit : Nat → Bool := fun _ => false
  trace : List Ev := []

def init : St := {}

/-- Point update. -/
def upd {α : Type} (f : Nat → α) (i : Nat) (v : α) : Nat → α := fun j => if j = i then v else f j

@[simp] theorem upd_same {α : Type} (f : Nat → α) (i : Nat) (v : α) : upd f i v i = v := by simp [upd]
theorem upd_other {α : Type} (f : Nat → α) {i j : Nat} (v : α) (h : j ≠ i) : upd f i v j = f j := by simp [upd, h]

/-- Does the route exist in this state?  The response stream of request p takes server→client messages
while p's handler runs and the client has not abandoned the exchange. -/
def routeExists (c : Cfg) (s : St) : Route → Bool
  | .conn => true
  | .oneShot _ => true
  | .standalone => c.standalone
  | .reqStream p => s.req p == .running && s.ctxDone p == none

/-- A nested call is made by the running handler of its enclosing request. -/
def enclRunning (c : Cfg) (s : St) (i : Nat) : Bool :=
  match (c.info i).encl with
  | some p => s.req p == .running
  | none => true

/-- What reaches the peer is the end of the call's own HTTP exchange, at the moment the context ends. -/
def abortIsNotice (c : Cfg) (i : Nat) : Bool :=
  c.tr == .stateless && c.propagate && (c.info i).dir == .c2s

/-- May a message still get through on this route?  A response stream that the client has just abandoned (its
caller's context ended) may still carry what the server wrote before the client stopped reading: whether a
notice written in that instant arrives is a race; likewise a notice written just before the enclosing handler's
response (which ends the stream) is delivered, one written just after is refused. -/
def routeMay (c : Cfg) (s : St) : Route → Bool
  | .reqStream p => s.req p == .running || s.req p == .finished
  | r => routeExists c s r

def payload (c : Cfg) (i : Nat) : Option Nat := if (c.info i).plain then none else some i

/-- What must happen before virtual time may advance, for call i. -/
def urgent (c : Cfg) (s : St) (i : Nat) : Bool :=
  s.req i == .transit
  || (s.ctxDone i != none && (s.reg i || s.got i || s.retired i) && s.res i == none)
  || (s.notice i == .pending && !(c.info i).fault)

def quiet (c : Cfg) (s : St) : Bool := (List.range c.n).all fun i => !urgent c s i

def emit (s : St) (k : EvK) (i : Nat) : List Ev := s.trace ++ [⟨k, i, s.now⟩]

def step (c : Cfg) (s : St) : Label → Option St
  | .call i =>
    if i < c.n ∧ s.req i = .idle ∧ s.res i = none ∧ s.ctxDone i = none ∧ routeExists c s (callRoute c i) = true
        ∧ enclRunning c s i = true then
      some { s with req := upd s.req i .transit, reg := upd s.reg i true, trace := emit s .snd i }
    else none
  | .deliver i =>
    if s.req i = .transit then some { s with req := upd s.req i .queued } else none
  | .start i =>
    if s.req i = .queued ∧ s.hcan i = false then
      some { s with req := upd s.req i .running, trace := emit s .beg i }
    else none
  | .skip i =>
    if s.req i = .queued ∧ s.hcan i = true then
      some { s with req := upd s.req i .skipped, respTransit := upd s.respTransit i true }
    else none
  | .finish i =>
    if s.req i = .running then
      some { s with req := upd s.req i .finished, respTransit := upd s.respTransit i true, trace := emit s .fin i }
    else none
  | .resp i =>
    if s.respTransit i = true then
      if s.reg i = true then
        some { s with respTransit := upd s.respTransit i false, reg := upd s.reg i false, got := upd s.got i true }
      else
        some { s with respTransit := upd s.respTransit i false }
    else none
  | .retOk i =>
    if s.got i = true ∧ s.res i = none then
      some { s with got := upd s.got i false, res := upd s.res i (some (.ok (payload c i))),
                    trace := emit s (.ret (.ok (payload c i))) i }
    else none
  | .cancel i dl =>
    if i < c.n ∧ s.ctxDone i = none ∧ s.req i ≠ .idle then
      if abortIsNotice c i = true then
        some { s with ctxDone := upd s.ctxDone i (some dl), notice := upd s.notice i .pending,
                      noticeAt := upd s.noticeAt i s.now, trace := emit s (.can dl) i }
      else
        some { s with ctxDone := upd s.ctxDone i (some dl), trace := emit s (.can dl) i }
    else none
  | .retire i =>
    if s.ctxDone i ≠ none ∧ (s.reg i = true ∨ s.got i = true) ∧ s.res i = none then
      if abortIsNotice c i = true then
        some { s with reg := upd s.reg i false, got := upd s.got i false, retired := upd s.retired i true }
      else
        some { s with reg := upd s.reg i false, got := upd s.got i false, retired := upd s.retired i true,
                      notice := upd s.notice i .pending, noticeAt := upd s.noticeAt i s.now }
    else none
  | .retCtx i =>
    match s.ctxDone i with
    | some dl =>
      if s.retired i = true ∧ s.res i = none then
        some { s with res := upd s.res i (some (.ctx dl)), trace := emit s (.ret (.ctx dl)) i }
      else none
    | none => none
  | .notice i =>
    if s.notice i = .pending ∧ (c.info i).fault = false ∧ routeMay c s (noticeRoute c i) = true ∧ s.req i ≠ .transit then
      if sameConn c i = true ∧ (s.req i = .queued ∨ s.req i = .running) then
        some { s with notice := upd s.notice i .delivered, hcan := upd s.hcan i true,
                      trace := if s.req i = .running then emit s .hc i else s.trace }
      else
        some { s with notice := upd s.notice i .delivered }
    else none
  | .drop i =>
    if s.notice i = .pending ∧ ((c.info i).fault = true ∨ routeExists c s (noticeRoute c i) = false) then
      some { s with notice := upd s.notice i .dropped }
    else none
  | .tick d =>
    if 0 < d ∧ quiet c s = true then some { s with now := s.now + d } else none

def run (c : Cfg) (s : St) : List Label → Option St
  | [] => some s
  | l :: ls => (step c s l).bind fun s' => run c s' ls

/-- The observation trace of a label list: the events of the state it leads to (if allowed). -/
def traceOf (c : Cfg) (ls : List Label) : List Ev :=
  match run c init ls with
  | some s => s.trace
  | none => []

end Cancel
