import McpModel.Cancel.Props
/-!
# The bridge between the C04 monitor and the cancel model

`monitor_accepts_model`: the monitor (`mon`, evaluated by the driver on the IMPLEMENTATION's event log) raises
no clause on the log of any run of the model — for ALL label lists, every configuration whose notifier keeps
the values of the call's context (the regenerated fact `gen_keeps_values`).  `monEnd_accepts_final`: neither
does the end-of-case monitor in a state in which nothing is left to run.  So a `V` never comes from conforming
behaviour; what a `V` means on the observed log is stated per clause in `Sound.lean`.
-/
namespace Cancel

theorem traceOf_eq {c : Cfg} {ls : List Label} {s : St} (h : run c init ls = some s) : traceOf c ls = s.trace := by
  simp [traceOf, h]

/-- **monitor_accepts_model.** For every label list the model allows, no clause of C04 fires on the model's
own event log (nor, the monitor reading the log from left to right, on any prefix of it). -/
theorem monitor_accepts_model {c : Cfg} (hk : c.keepValues = true) (ls : List Label) {s : St}
    (h : run c init ls = some s) : mon ⟨c, false⟩ (traceOf c ls) = none := by
  rw [traceOf_eq h]
  exact (inv_run hk ls h).good

/-- … in particular for the configuration the driver builds from the regenerated flag. -/
theorem monitor_accepts_model_fromCode (c : Cfg) (ls : List Label) {s : St}
    (h : run c.fromCode init ls = some s) : mon ⟨c.fromCode, false⟩ (traceOf c.fromCode ls) = none :=
  monitor_accepts_model (fromCode_keepValues c) ls h

/-- The bridge needs the regenerated fact: with a notifier that drops the values (C04-m9) the MODEL itself
violates the clause `peerNotCancelled` — the monitor fires on the model's own log. -/
theorem monitor_rejects_background_notifier :
    mon ⟨cfgNested false false, false⟩ (traceOf (cfgNested false false) (nestedCancelRun ++ [.drop 1, .tick 1000, .finish 1]))
      = some (.peerNotCancelled 1) := by decide

/-- Nothing is left to run: no request in transit, queued or being handled, no response travelling or consumed
but not returned,
no retired call whose caller has not returned. -/
def Final (c : Cfg) (s : St) : Prop :=
  ∀ i, i < c.n → (s.req i = .idle ∨ s.req i = .finished ∨ s.req i = .skipped) ∧ s.respTransit i = false ∧ s.got i = false
    ∧ (s.retired i = true → s.res i ≠ none)

/-- **monEnd_accepts_final.** In a final state of the model every call that was issued has returned. -/
theorem monEnd_accepts_final {c : Cfg} (hk : c.keepValues = true) (ls : List Label) {s : St}
    (h : run c init ls = some s) (hf : Final c s) : monEnd ⟨c, false⟩ (traceOf c ls) = none := by
  rw [traceOf_eq h]
  have I := inv_run hk ls h
  unfold monEnd
  simp only [Bool.false_eq_true, if_false]
  have : (List.range c.n).find? (fun i => ((summ s.trace).snd i).isSome && ((summ s.trace).ret i).isNone) = none := by
    rw [List.find?_eq_none]
    intro i hi
    have hi' : i < c.n := List.mem_range.mp hi
    obtain ⟨hreq, hrt, hgot, hretd⟩ := hf i hi'
    simp only [Bool.and_eq_true, not_and, Bool.not_eq_true, Option.isNone_eq_false_iff]
    intro hs
    have h1 := I.snd_iff i
    have h1' : ((M s).snd i).isSome = true := hs
    rw [h1'] at h1
    have hidle : s.req i ≠ .idle := by intro hx; simp [hx] at h1
    have h2 := I.ret_eq i
    cases hr : s.res i with
    | some r =>
      rw [hr] at h2
      cases hx : (M s).ret i with
      | none => rw [hx] at h2; cases h2
      | some x => rfl
    | none =>
      exfalso
      rcases I.inflight i hidle hr with hreg | hg | hrd
      · have hfs : s.req i = .finished ∨ s.req i = .skipped := by
          rcases hreq with h' | h' | h'
          · exact absurd h' hidle
          · exact Or.inl h'
          · exact Or.inr h'
        have := I.answered i hreg hfs
        rw [hrt] at this; cases this
      · rw [hgot] at hg; cases hg
      · exact hretd hrd hr
  simp [this]

end Cancel
