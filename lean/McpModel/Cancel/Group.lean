import McpModel.Cancel.Props
/-!
# C04 — any number of calls cancelled together (engine `cancel`)

"for all sets of concurrent in-flight calls": the cancel notices of different calls are independent processes —
`mcp.call` starts one detached notifier per cancelled call, unconditionally (the regenerated fact
`cancel.call_notifier`: between `conn.Retire` and `go` there is no other statement).  In the model the label
`notice i` is enabled by the state of call i and of its route alone; nothing in it counts pending notices.  The
theorems below say so for ALL finite sets of calls: however many notices are pending at once, each of them can be
delivered, in any order, and each cancels the handler of exactly its own request (`group_notices_all_delivered`);
a pending notice is never disabled by what happens to the callers and notices of other calls (`notice_enabled_frame`);
and a whole group of running calls whose contexts end together all return their context's error and all their
handlers are cancelled, without virtual time passing (`group_cancel_all_return_all_cancelled`).  A bound on the number
of notices in flight that DROPS the surplus (the seeded change C04-m16: a semaphore of 16) is not a run of this
model: `drop` needs a fault or a missing route (`cancel_notice_follows_request_route`).
-/
namespace Cancel

/-- `routeMay` reads the phase of the requests only. -/
theorem routeMay_congr {c : Cfg} {s s' : St} (h : s'.req = s.req) (r : Route) : routeMay c s' r = routeMay c s r := by
  cases r <;> simp [routeMay, routeExists, h]

theorem routeMay_of_req {c : Cfg} {s s' : St} {r : Route} (h3 : routeMay c s r = true) (h : s'.req = s.req) :
    routeMay c s' r = true := by rw [routeMay_congr h]; exact h3

/-- What the delivery of the notice of call j does to the rest of the state. -/
theorem notice_frame {c : Cfg} {s s' : St} (j : Nat) (h : step c s (.notice j) = some s') :
    s'.req = s.req ∧ s'.now = s.now ∧ s'.reg = s.reg ∧ s'.got = s.got ∧ s'.res = s.res ∧ s'.ctxDone = s.ctxDone
      ∧ s'.retired = s.retired ∧ s'.notice j = .delivered ∧ (∀ i, i ≠ j → s'.notice i = s.notice i ∧ s'.hcan i = s.hcan i)
      ∧ (s.hcan j = true → s'.hcan j = true) := by
  simp only [step] at h
  split at h
  · split at h
    · cases h
      refine ⟨rfl, rfl, rfl, rfl, rfl, rfl, rfl, by simp [upd], fun i hi => by simp [upd, hi], fun _ => by simp [upd]⟩
    · cases h
      refine ⟨rfl, rfl, rfl, rfl, rfl, rfl, rfl, by simp [upd], fun i hi => by simp [upd, hi], fun h => h⟩
  · cases h

/-- When is `notice i` enabled: call i's own notice, fault flag, route and request phase — nothing else. -/
def noticeReady (c : Cfg) (s : St) (i : Nat) : Prop :=
  s.notice i = .pending ∧ (c.info i).fault = false ∧ routeMay c s (noticeRoute c i) = true ∧ s.req i ≠ .transit

theorem notice_enabled_of_ready {c : Cfg} {s : St} {i : Nat} (h : noticeReady c s i) : (step c s (.notice i)).isSome = true := by
  obtain ⟨h1, h2, h3, h4⟩ := h
  simp only [step]
  rw [if_pos ⟨h1, h2, h3, h4⟩]
  split <;> rfl

/-- **notice_enabled_frame.** A deliverable pending notice stays deliverable whatever happens to OTHER calls'
callers and notices: another context ends, another caller retires its call and returns, another notice is
delivered or dropped.  (No label of another call consumes anything the notice of call i needs.) -/
theorem notice_enabled_frame {c : Cfg} {s s' : St} (i j : Nat) (hij : j ≠ i) (l : Label)
    (hl : l = .notice j ∨ l = .drop j ∨ l = .retire j ∨ l = .retCtx j ∨ (∃ dl, l = .cancel j dl))
    (h : step c s l = some s') (hr : noticeReady c s i) : noticeReady c s' i := by
  obtain ⟨h1, h2, h3, h4⟩ := hr
  have hi : i ≠ j := fun e => hij e.symm
  rcases hl with hl | hl | hl | hl | ⟨dl, hl⟩ <;> subst hl
  · obtain ⟨hreq, _, _, _, _, _, _, _, hoth, _⟩ := notice_frame j h
    exact ⟨by rw [(hoth i hi).1]; exact h1, h2, by rw [routeMay_congr hreq]; exact h3, by rw [hreq]; exact h4⟩
  · simp only [step] at h
    split at h
    · cases h
      exact ⟨by simp [upd, hi, h1], h2, routeMay_of_req h3 rfl, h4⟩
    · cases h
  · simp only [step] at h
    split at h
    · split at h <;> (cases h; exact ⟨by simp [upd, hi, h1], h2, routeMay_of_req h3 rfl, h4⟩)
    · cases h
  · simp only [step] at h
    split at h
    · split at h
      · cases h; exact ⟨h1, h2, routeMay_of_req h3 rfl, h4⟩
      · cases h
    · cases h
  · simp only [step] at h
    split at h
    · split at h <;> (cases h; exact ⟨by simp [upd, hi, h1], h2, routeMay_of_req h3 rfl, h4⟩)
    · cases h

/-- **group_notices_all_delivered.** ANY number of pending deliverable notices (a duplicate-free list `js` of calls, of
any length) can all be delivered, in the order of the list — hence in any order —, without virtual time passing:
afterwards every one of them is delivered, the handler of every named request that its connection indexes (queued
or running) has its context cancelled, and nothing changed for any call outside the list. -/
theorem group_notices_all_delivered {c : Cfg} (js : List Nat) (hnd : js.Nodup) (s : St)
    (hp : ∀ j ∈ js, noticeReady c s j) :
    ∃ s', run c s (js.map Label.notice) = some s' ∧ s'.req = s.req ∧ s'.now = s.now ∧ s'.res = s.res ∧ s'.ctxDone = s.ctxDone ∧
      (∀ j ∈ js, s'.notice j = .delivered ∧
        (sameConn c j = true → (s.req j = .queued ∨ s.req j = .running) → s'.hcan j = true)) ∧
      (∀ k, k ∉ js → s'.hcan k = s.hcan k ∧ s'.notice k = s.notice k) := by
  induction js generalizing s with
  | nil => exact ⟨s, rfl, rfl, rfl, rfl, rfl, by simp, fun _ _ => ⟨rfl, rfl⟩⟩
  | cons j js ih =>
    have hj := hp j (by simp)
    obtain ⟨hjnot, hnd'⟩ := List.nodup_cons.mp hnd
    have hen := notice_enabled_of_ready hj
    obtain ⟨s1, hs1⟩ := Option.isSome_iff_exists.mp hen
    obtain ⟨hreq, hnow, _, _, hres, hctx, _, hdel, hoth, hkeep⟩ := notice_frame j hs1
    have hcanj := (notice_cancels_exactly_named j hs1).2.1
    have hp1 : ∀ k ∈ js, noticeReady c s1 k := by
      intro k hk
      have hkj : j ≠ k := fun e => hjnot (e ▸ hk)
      exact notice_enabled_frame k j hkj (.notice j) (Or.inl rfl) hs1 (hp k (by simp [hk]))
    obtain ⟨s', hrun, hreq', hnow', hres', hctx', hall, hout⟩ := ih hnd' s1 hp1
    refine ⟨s', by simp [run, hs1, hrun], by rw [hreq', hreq], by rw [hnow', hnow], by rw [hres', hres], by rw [hctx', hctx], ?_, ?_⟩
    · intro k hk
      rcases List.mem_cons.mp hk with hk | hk
      · subst hk
        obtain ⟨hh, hn⟩ := hout k hjnot
        refine ⟨by rw [hn]; exact hdel, fun hsc hq => by rw [hh]; exact hcanj hsc hq⟩
      · obtain ⟨hd, hc⟩ := hall k hk
        exact ⟨hd, fun hsc hq => hc hsc (by rw [hreq]; exact hq)⟩
    · intro k hk
      have hkj : k ≠ j := fun e => hk (by simp [e])
      have hk' : k ∉ js := fun e => hk (by simp [e])
      obtain ⟨hh, hn⟩ := hout k hk'
      exact ⟨by rw [hh]; exact (hoth k hkj).2, by rw [hn]; exact (hoth k hkj).1⟩

/-- A call in flight whose own state lets its context end and its caller give up. -/
def inFlight (c : Cfg) (s : St) (j : Nat) : Prop :=
  j < c.n ∧ s.ctxDone j = none ∧ s.req j ≠ .idle ∧ s.reg j = true ∧ s.res j = none ∧ abortIsNotice c j = false

/-- One call: its context ends, its caller retires the call and returns the context's error — three steps enabled by
the call's own state, touching no other call, no request phase, no handler context, not the clock; its notice is
pending afterwards. -/
theorem cancel_retire_return {c : Cfg} {s : St} (j : Nat) (dl : Bool) (h : inFlight c s j) :
    ∃ s1, run c s [.cancel j dl, .retire j, .retCtx j] = some s1 ∧ s1.req = s.req ∧ s1.now = s.now ∧ s1.hcan = s.hcan ∧
      s1.notice j = .pending ∧ s1.res j = some (.ctx dl) ∧
      (∀ k, k ≠ j → s1.reg k = s.reg k ∧ s1.res k = s.res k ∧ s1.ctxDone k = s.ctxDone k ∧ s1.notice k = s.notice k) := by
  obtain ⟨h1, h2, h3, h4, h5, h6⟩ := h
  have h6' : ¬ (abortIsNotice c j = true) := by rw [h6]; simp
  let sA : St := { s with ctxDone := upd s.ctxDone j (some dl), trace := emit s (.can dl) j }
  let sB : St := { sA with reg := upd sA.reg j false, got := upd sA.got j false, retired := upd sA.retired j true,
                           notice := upd sA.notice j .pending, noticeAt := upd sA.noticeAt j sA.now }
  let sC : St := { sB with res := upd sB.res j (some (.ctx dl)), trace := emit sB (.ret (.ctx dl)) j }
  have e1 : step c s (.cancel j dl) = some sA := by
    simp only [step]; rw [if_pos ⟨h1, h2, h3⟩, if_neg h6']
  have e2 : step c sA (.retire j) = some sB := by
    simp only [step]
    rw [if_pos ⟨by simp [sA, upd], Or.inl h4, h5⟩, if_neg h6']
  have e3 : step c sB (.retCtx j) = some sC := by
    have hcd : sB.ctxDone j = some dl := by simp [sB, sA, upd]
    simp only [step]
    rw [hcd]
    simp only
    rw [if_pos ⟨by simp [sB, upd], h5⟩]
  refine ⟨sC, by simp [run, e1, e2, e3], rfl, rfl, rfl, by simp [sC, sB, upd], by simp [sC, upd], fun k hk => ?_⟩
  simp [sC, sB, sA, upd, hk]

/-- **group_cancel_all_return_all_cancelled.** ANY finite set of calls in flight (duplicate-free list `js`, any
length — 17, 24, 1000), their handlers running, each notice routable and unfaulted, request and notice served by the
same connection: let all their contexts end together.  Then there is a run — every caller gives up and returns, only
then the notices travel, so ALL notices are pending at the same time — in which every caller has returned its own
context's error, every notice was delivered, the context of the handler of EVERY one of the requests is cancelled, no
virtual time has passed, and no call outside the set is touched. -/
theorem group_cancel_all_return_all_cancelled {c : Cfg} (dl : Bool) (js : List Nat) (hnd : js.Nodup) (s : St)
    (hin : ∀ j ∈ js, inFlight c s j)
    (hrun : ∀ j ∈ js, s.req j = .running)
    (hroute : ∀ j ∈ js, (c.info j).fault = false ∧ routeMay c s (noticeRoute c j) = true ∧ sameConn c j = true) :
    ∃ s1 s2, run c s (js.flatMap fun j => [Label.cancel j dl, .retire j, .retCtx j]) = some s1 ∧
      (∀ j ∈ js, s1.notice j = .pending) ∧
      run c s1 (js.map Label.notice) = some s2 ∧ s2.now = s.now ∧
      (∀ j ∈ js, s2.res j = some (.ctx dl) ∧ s2.notice j = .delivered ∧ s2.hcan j = true) ∧
      (∀ k, k ∉ js → s2.hcan k = s.hcan k ∧ s2.res k = s.res k ∧ s2.ctxDone k = s.ctxDone k) := by
  -- phase 1: all contexts end, all callers return
  have phase1 : ∀ (js : List Nat), js.Nodup → ∀ s : St, (∀ j ∈ js, inFlight c s j) →
      ∃ s1, run c s (js.flatMap fun j => [Label.cancel j dl, .retire j, .retCtx j]) = some s1 ∧ s1.req = s.req ∧ s1.now = s.now ∧
        s1.hcan = s.hcan ∧ (∀ j ∈ js, s1.notice j = .pending ∧ s1.res j = some (.ctx dl)) ∧
        (∀ k, k ∉ js → s1.res k = s.res k ∧ s1.ctxDone k = s.ctxDone k ∧ s1.notice k = s.notice k ∧ s1.reg k = s.reg k) := by
    intro js
    induction js with
    | nil => intro _ s _; exact ⟨s, rfl, rfl, rfl, rfl, by simp, fun _ _ => ⟨rfl, rfl, rfl, rfl⟩⟩
    | cons j js ih =>
      intro hnd s hin
      obtain ⟨hjnot, hnd'⟩ := List.nodup_cons.mp hnd
      obtain ⟨sa, hra, hreqa, hnowa, hhcana, hna, hresa, hotha⟩ := cancel_retire_return j dl (hin j (by simp))
      have hin' : ∀ k ∈ js, inFlight c sa k := by
        intro k hk
        have hkj : k ≠ j := fun e => hjnot (e ▸ hk)
        obtain ⟨a1, a2, a3, a4, a5, a6⟩ := hin k (by simp [hk])
        obtain ⟨b1, b2, b3, _⟩ := hotha k hkj
        exact ⟨a1, by rw [b3]; exact a2, by rw [hreqa]; exact a3, by rw [b1]; exact a4, by rw [b2]; exact a5, a6⟩
      obtain ⟨sb, hrb, hreqb, hnowb, hhcanb, hallb, houtb⟩ := ih hnd' sa hin'
      refine ⟨sb, ?_, by rw [hreqb, hreqa], by rw [hnowb, hnowa], by rw [hhcanb, hhcana], ?_, ?_⟩
      · have : run c s ([Label.cancel j dl, .retire j, .retCtx j] ++ (js.flatMap fun j => [Label.cancel j dl, .retire j, .retCtx j])) = some sb := by
          have happ : ∀ (l1 l2 : List Label) (s0 : St), run c s0 (l1 ++ l2) = (run c s0 l1).bind fun s' => run c s' l2 := by
            intro l1
            induction l1 with
            | nil => intro l2 s0; simp [run]
            | cons l l1 ih1 =>
              intro l2 s0
              simp only [List.cons_append, run]
              cases step c s0 l with
              | none => simp
              | some s' => simp [ih1]
          rw [happ, hra]; exact hrb
        simpa [List.flatMap_cons] using this
      · intro k hk
        rcases List.mem_cons.mp hk with hk | hk
        · subst hk
          obtain ⟨o1, _, o3, _⟩ := houtb k hjnot
          exact ⟨by rw [o3]; exact hna, by rw [o1]; exact hresa⟩
        · exact hallb k hk
      · intro k hk
        have hkj : k ≠ j := fun e => hk (by simp [e])
        have hk' : k ∉ js := fun e => hk (by simp [e])
        obtain ⟨o1, o2, o3, o4⟩ := houtb k hk'
        obtain ⟨b1, b2, b3, b4⟩ := hotha k hkj
        exact ⟨by rw [o1, b2], by rw [o2, b3], by rw [o3, b4], by rw [o4, b1]⟩
  obtain ⟨s1, hr1, hreq1, hnow1, hhcan1, hall1, hout1⟩ := phase1 js hnd s hin
  -- phase 2: all notices, all pending at once, are delivered
  have hready : ∀ j ∈ js, noticeReady c s1 j := by
    intro j hj
    obtain ⟨f1, f2, _⟩ := hroute j hj
    exact ⟨(hall1 j hj).1, f1, routeMay_of_req f2 hreq1, by rw [hreq1, hrun j hj]; simp⟩
  obtain ⟨s2, hr2, hreq2, hnow2, hres2, hctx2, hall2, hout2⟩ := group_notices_all_delivered js hnd s1 hready
  refine ⟨s1, s2, hr1, fun j hj => (hall1 j hj).1, hr2, by rw [hnow2, hnow1], ?_, ?_⟩
  · intro j hj
    obtain ⟨d1, d2⟩ := hall2 j hj
    exact ⟨by rw [hres2]; exact (hall1 j hj).2, d1, d2 (hroute j hj).2.2 (Or.inr (by rw [hreq1]; exact hrun j hj))⟩
  · intro k hk
    obtain ⟨p1, _⟩ := hout2 k hk
    obtain ⟨q1, q2, _, _⟩ := hout1 k hk
    exact ⟨by rw [p1, hhcan1], by rw [hres2, q1], by rw [hctx2, q2]⟩

/-- Non-vacuity / the m16 shape: 24 calls over a pipe, all running, all cancelled in one instant: every caller
returns its context's error, every notice is delivered, every handler is cancelled; nothing can be dropped. -/
def cfgMany (n : Nat) : Cfg := { tr := .pipe, n := n }

def manyRun (n : Nat) : List Label :=
  (List.range n).flatMap (fun i => [Label.call i, .deliver i, .start i]) ++ [.tick 10] ++
  (List.range n).map (fun i => Label.cancel i false) ++
  (List.range n).flatMap (fun i => [Label.retire i, .retCtx i]) ++
  (List.range n).map Label.notice

theorem many_cancelled_together_all_handlers_cancelled :
    (run (cfgMany 24) init (manyRun 24)).map (fun s =>
      ((List.range 24).all fun i => s.hcan i && s.res i == some (.ctx false) && s.notice i == .delivered
          && (summ s.trace).hc i == some 10 && (summ s.trace).ret i == some (10, .ctx false), s.now)) = some (true, 10) := by
  decide +kernel

/-- … and in the state in which all 24 notices are pending none of them can be dropped. -/
theorem many_pending_none_droppable :
    (run (cfgMany 24) init ((manyRun 24).take (24 * 3 + 1 + 24 + 48))).map (fun s =>
      (List.range 24).all fun i => s.notice i == .pending && (step (cfgMany 24) s (.drop i)).isNone) = some true := by
  decide +kernel

/-- Non-vacuity of `group_cancel_all_return_all_cancelled`: 24 calls over a pipe, every handler running, satisfy its
hypotheses. -/
example : (run (cfgMany 24) init ((manyRun 24).take (24 * 3 + 1))).map (fun s =>
    (List.range 24).all fun j => decide (j < 24) && s.ctxDone j == none && s.req j == .running && s.reg j && s.res j == none
      && !abortIsNotice (cfgMany 24) j && !((cfgMany 24).info j).fault && routeMay (cfgMany 24) s (noticeRoute (cfgMany 24) j)
      && sameConn (cfgMany 24) j) = some true := by
  decide +kernel

/-- What the seeded change C04-m16 produces (a bound on the notices in flight, the surplus silently skipped) is
rejected twice: the model cannot let time pass while the 24th notice is pending and deliverable (it is urgent), nor
drop it (`many_pending_none_droppable`); and the MONITOR, on the log such an implementation would record — the model's
own log of the 24 cancellations without the 24th `hc`, then some event a second later — raises `peerNotCancelled` for
exactly the call whose notice was skipped. -/
theorem skipped_surplus_notice_is_stuck_and_rejected :
    (run (cfgMany 24) init ((manyRun 24).dropLast)).map (fun s =>
      (s.notice 23, (step (cfgMany 24) s (.tick 1000)).isSome, (step (cfgMany 24) s (.drop 23)).isSome,
       mon ⟨cfgMany 24, false⟩ (s.trace ++ [⟨.fin, 0, 1010⟩])))
      = some (.pending, false, false, some (.peerNotCancelled 23)) := by
  decide +kernel

end Cancel
