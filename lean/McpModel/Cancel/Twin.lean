import McpModel.Cancel.Group
import McpModel.Cancel.Bridge
/-!
# C04 — two sessions in one process (engine `cancel`)

One `mcp.Client` connected to two servers, or one `mcp.Server` with two client sessions: every session has a
`jsonrpc2.Connection`, a transport, a table of incoming requests and a set of outgoing calls of its own; `mcp.call`
touches only the connection it is given, and the notifier of a cancelled call is a goroutine per call.  The only thing
two sessions of a process share is the clock.  The model of such a process is therefore the PRODUCT of two pair models
(`Cancel.step`) with a common `tick`: a label of the left session acts on the left component only.

* `left_frames_right`, `right_frames_left`: whatever a session does (any label: contexts end, notices stall, are
  dropped, time-outs …) leaves the other session's state untouched — "cancels only the matching peer handler" and
  "the session stays usable" across sessions;
* `left_right_commute`: labels of different sessions commute (no ordering between the sessions is observable);
* `run2_proj_left`, `run2_proj_right`: every run of the product projects to a run of each pair model with exactly the
  events of that session — so EVERY theorem of the pair model (Props, Group, the bridge) holds per session, and the
  driver may check each session's log against its own pair model (`monitor_accepts_product`);
* `other_session_cannot_block_notice`: the second scenario of the seeded change C04-m16 — any number of notices of the
  left session pending behind a stalled transport, and whatever else the left session does meanwhile — never disables
  the delivery of a deliverable notice of the right session.
-/
namespace Cancel

structure Cfg2 where
  a : Cfg
  b : Cfg

structure St2 where
  a : St := {}
  b : St := {}

inductive Label2 where
  | left (l : Label)     -- a label of session a other than `tick`
  | right (l : Label)    -- a label of session b other than `tick`
  | tick (d : Nat)       -- the common clock: both sessions must be quiet
deriving Repr

def isTick : Label → Bool
  | .tick _ => true
  | _ => false

def step2 (c : Cfg2) (s : St2) : Label2 → Option St2
  | .left l => if isTick l then none else (step c.a s.a l).map fun a' => { s with a := a' }
  | .right l => if isTick l then none else (step c.b s.b l).map fun b' => { s with b := b' }
  | .tick d =>
    match step c.a s.a (.tick d), step c.b s.b (.tick d) with
    | some a', some b' => some ⟨a', b'⟩
    | _, _ => none

def run2 (c : Cfg2) (s : St2) : List Label2 → Option St2
  | [] => some s
  | l :: ls => (step2 c s l).bind fun s' => run2 c s' ls

def init2 : St2 := {}

/-- **left_frames_right.** No label of session a changes anything of session b. -/
theorem left_frames_right {c : Cfg2} {s s' : St2} (l : Label) (h : step2 c s (.left l) = some s') : s'.b = s.b := by
  simp only [step2] at h
  split at h
  · cases h
  · cases ha : step c.a s.a l with
    | none => simp [ha] at h
    | some a' => simp [ha] at h; rw [← h]

theorem right_frames_left {c : Cfg2} {s s' : St2} (l : Label) (h : step2 c s (.right l) = some s') : s'.a = s.a := by
  simp only [step2] at h
  split at h
  · cases h
  · cases hb : step c.b s.b l with
    | none => simp [hb] at h
    | some b' => simp [hb] at h; rw [← h]

/-- **left_right_commute.** Labels of different sessions commute. -/
theorem left_right_commute (c : Cfg2) (s : St2) (l r : Label) :
    (step2 c s (.left l)).bind (fun s1 => step2 c s1 (.right r)) = (step2 c s (.right r)).bind (fun s1 => step2 c s1 (.left l)) := by
  simp only [step2]
  by_cases hl : isTick l = true
  · by_cases hr : isTick r = true
    · simp [hl, hr]
    · simp only [hl, hr, if_true]
      cases step c.b s.b r <;> simp
  · by_cases hr : isTick r = true
    · simp only [hl, hr, if_true]
      cases step c.a s.a l <;> simp
    · simp only [hl, hr]
      cases ha : step c.a s.a l <;> cases hb : step c.b s.b r <;> simp [ha, hb]

def projL : List Label2 → List Label
  | [] => []
  | .left l :: ls => l :: projL ls
  | .right _ :: ls => projL ls
  | .tick d :: ls => .tick d :: projL ls

def projR : List Label2 → List Label
  | [] => []
  | .left _ :: ls => projR ls
  | .right l :: ls => l :: projR ls
  | .tick d :: ls => .tick d :: projR ls

/-- **run2_proj_left.** A run of the product is, seen from session a, a run of the pair model of session a. -/
theorem run2_proj_left (c : Cfg2) (ls : List Label2) (s s' : St2) (h : run2 c s ls = some s') :
    run c.a s.a (projL ls) = some s'.a := by
  induction ls generalizing s with
  | nil => simp [run2] at h; subst h; rfl
  | cons l ls ih =>
    simp only [run2] at h
    cases hs : step2 c s l with
    | none => simp [hs] at h
    | some s1 =>
      simp only [hs, Option.bind_some] at h
      have := ih s1 h
      cases l with
      | left l =>
        simp only [step2] at hs
        split at hs
        · cases hs
        · cases ha : step c.a s.a l with
          | none => simp [ha] at hs
          | some a' => simp [ha] at hs; subst hs; simp [projL, run, ha, this]
      | right r =>
        have hf := right_frames_left r hs
        simp only [projL]; rw [← hf]; exact this
      | tick d =>
        simp only [step2] at hs
        cases ha : step c.a s.a (.tick d) with
        | none => simp [ha] at hs
        | some a' =>
          cases hb : step c.b s.b (.tick d) with
          | none => simp [ha, hb] at hs
          | some b' => simp [ha, hb] at hs; subst hs; simp [projL, run, ha, this]

theorem run2_proj_right (c : Cfg2) (ls : List Label2) (s s' : St2) (h : run2 c s ls = some s') :
    run c.b s.b (projR ls) = some s'.b := by
  induction ls generalizing s with
  | nil => simp [run2] at h; subst h; rfl
  | cons l ls ih =>
    simp only [run2] at h
    cases hs : step2 c s l with
    | none => simp [hs] at h
    | some s1 =>
      simp only [hs, Option.bind_some] at h
      have := ih s1 h
      cases l with
      | right l =>
        simp only [step2] at hs
        split at hs
        · cases hs
        · cases hb : step c.b s.b l with
          | none => simp [hb] at hs
          | some b' => simp [hb] at hs; subst hs; simp [projR, run, hb, this]
      | left r =>
        have hf := left_frames_right r hs
        simp only [projR]; rw [← hf]; exact this
      | tick d =>
        simp only [step2] at hs
        cases ha : step c.a s.a (.tick d) with
        | none => simp [ha] at hs
        | some a' =>
          cases hb : step c.b s.b (.tick d) with
          | none => simp [ha, hb] at hs
          | some b' => simp [ha, hb] at hs; subst hs; simp [projR, run, hb, this]

/-- **monitor_accepts_product.** On the log of either session of any run of the product the C04 monitor raises no
clause: the monitor, evaluated per session (as the driver does), never fires on conforming behaviour of a process with
two sessions. -/
theorem monitor_accepts_product {c : Cfg2} (hka : c.a.keepValues = true) (hkb : c.b.keepValues = true)
    (ls : List Label2) {s : St2} (h : run2 c init2 ls = some s) :
    mon ⟨c.a, false⟩ s.a.trace = none ∧ mon ⟨c.b, false⟩ s.b.trace = none := by
  have ha := run2_proj_left c ls init2 s h
  have hb := run2_proj_right c ls init2 s h
  have ma := monitor_accepts_model hka (projL ls) (s := s.a) ha
  have mb := monitor_accepts_model hkb (projR ls) (s := s.b) hb
  rw [traceOf_eq ha] at ma
  rw [traceOf_eq hb] at mb
  exact ⟨ma, mb⟩

/-- **other_session_cannot_block_notice.** Whatever session a does — ANY list of its labels: any number of its calls
cancelled, their notices pending behind a stalled transport, dropped, timed out — a deliverable pending notice of
session b stays deliverable, is delivered by one step of b alone, and cancels the handler of its own request. -/
theorem other_session_cannot_block_notice (c : Cfg2) (las : List Label) (s s' : St2) (j : Nat)
    (h : run2 c s (las.map Label2.left) = some s') (hr : noticeReady c.b s.b j) :
    s'.b = s.b ∧ ∃ s'', step2 c s' (.right (.notice j)) = some s'' ∧ s''.a = s'.a ∧ s''.b.notice j = .delivered ∧
      (sameConn c.b j = true → (s.b.req j = .queued ∨ s.b.req j = .running) → s''.b.hcan j = true) := by
  have hb : s'.b = s.b := by
    induction las generalizing s with
    | nil => simp [run2] at h; subst h; rfl
    | cons l las ih =>
      simp only [List.map_cons, run2] at h
      cases hs : step2 c s (.left l) with
      | none => simp [hs] at h
      | some s1 =>
        simp only [hs, Option.bind_some] at h
        have hf := left_frames_right l hs
        rw [← hf]
        exact ih s1 h (by rw [hf]; exact hr)
  refine ⟨hb, ?_⟩
  have hr' : noticeReady c.b s'.b j := by rw [hb]; exact hr
  obtain ⟨b', hb'⟩ := Option.isSome_iff_exists.mp (notice_enabled_of_ready hr')
  refine ⟨{ s' with b := b' }, by simp [step2, isTick, hb'], rfl, (notice_frame j hb').2.2.2.2.2.2.2.1, ?_⟩
  intro hsc hq
  exact (notice_cancels_exactly_named j hb').2.1 hsc (by rw [hb]; exact hq)

/-- Witness (the m16 shape across sessions): session a — 17 calls over a pipe whose notices the transport stalls, all
cancelled, all notices pending; session b — one running call, cancelled 20 ms later: its caller returns, its notice is
delivered, its handler is cancelled, while all 17 notices of session a are still pending. -/
def cfgStalled (n : Nat) : Cfg := { tr := .pipe, n := n, info := fun _ => { fault := true } }

def twinRun : List Label2 :=
  ((List.range 17).flatMap fun i => [Label2.left (.call i), .left (.deliver i), .left (.start i)]) ++
  [.right (.call 0), .right (.deliver 0), .right (.start 0), .tick 10] ++
  ((List.range 17).flatMap fun i => [Label2.left (.cancel i false), .left (.retire i), .left (.retCtx i)]) ++
  [.tick 20, .right (.cancel 0 false), .right (.retire 0), .right (.retCtx 0), .right (.notice 0)]

theorem stalled_session_does_not_starve_the_other :
    (run2 ⟨cfgStalled 17, cfgMany 1⟩ init2 twinRun).map (fun s =>
      ((List.range 17).all (fun i => s.a.notice i == .pending && s.a.res i == some (.ctx false)),
       s.b.notice 0, s.b.hcan 0, s.b.res 0, (summ s.b.trace).hc 0)) =
      some (true, .delivered, true, some (.ctx false), some 30) := by
  decide +kernel

end Cancel
