import McpModel.Cancel.Inv
/-!
# C04 end to end — property theorems of the cancel model (engine `cancel`)

For ALL label lists (all interleavings of calls, nested calls, context ends, deliveries, handler starts and
ends, responses, notices, time steps) over an abstract routing function.  `Cfg.keepValues` is the regenerated
fact "the detached notifier of `mcp.call` keeps the values of the call's context" (`gen_keeps_values`).
-/
namespace Cancel

/-! ## the tie: regenerated facts the theorems are conditional on -/

/-- mcp/transport.go `call`: the notifier runs on `context.WithoutCancel(ctx)` (regenerated on every run: if the
code is changed to `context.Background()` this `rfl` fails and with it every theorem that needs `keepValues`). -/
theorem gen_keeps_values : Generated.Cancel.noticeKeepsValues = true := rfl
/-- mcp/transport.go `call`: Retire, then the notifier goroutine, then return. -/
theorem gen_retire_then_notify : Generated.Cancel.retireThenDetachedNotify = true := rfl
/-- mcp/streamable.go: the server's Write routes by `idContextKey`; JSON responses divert non-responses to the
standalone stream; `ServerSession.handle` puts the request id into the handler's context; the client POSTs each message. -/
theorem gen_routing : (Generated.Cancel.serverRoutesByRequestId && Generated.Cancel.jsonNonResponsesToStandalone
    && Generated.Cancel.handlerCtxCarriesRequestId && Generated.Cancel.clientPostsEachMessage) = true := rfl

/-- The configuration the driver builds: `keepValues` is the regenerated flag. -/
def Cfg.fromCode (c : Cfg) : Cfg := { c with keepValues := Generated.Cancel.noticeKeepsValues }

theorem fromCode_keepValues (c : Cfg) : c.fromCode.keepValues = true := gen_keeps_values

/-! ## routing -/

theorem routeMay_of_exists {c : Cfg} {s : St} {r : Route} (h : routeExists c s r = true) : routeMay c s r = true := by
  cases r <;> simp_all [routeMay, routeExists]

/-- **cancel_notice_follows_request_route.** In every reachable state, the pending cancel notice of a call whose
request and notice are served by the same connection of the peer takes exactly the route the call itself took;
hence whenever that route exists (and the transport does not fault the notice) the notice can be delivered —
it is never dropped for want of a route the request had. -/
theorem cancel_notice_follows_request_route {c : Cfg} (hk : c.keepValues = true) (ls : List Label) {s : St}
    (_h : run c init ls = some s) (i : Nat) (hp : s.notice i = .pending) (he : expected c i = true) :
    noticeRoute c i = callRoute c i ∧
    (routeExists c s (callRoute c i) = true → (c.info i).fault = false → s.req i ≠ .transit →
      (step c s (.notice i)).isSome = true ∧ step c s (.drop i) = none) := by
  have hr := noticeRoute_eq_callRoute c i hk he
  refine ⟨hr, ?_⟩
  intro hex hf ht
  constructor
  · simp only [step]
    rw [if_pos ⟨hp, hf, by rw [hr]; exact routeMay_of_exists hex, ht⟩]
    split <;> rfl
  · simp only [step]
    rw [if_neg]
    intro ⟨_, h⟩
    rcases h with h | h
    · rw [hf] at h; cases h
    · rw [hr, hex] at h; cases h

/-- Without the values (a notifier on `context.Background()`, the seeded change C04-m9): a nested call made on
the response stream of its enclosing request, client without standalone stream — the request route exists, the
notice has no route, the peer's handler is never cancelled and time may pass. -/
def cfgNested (keep standalone : Bool) : Cfg :=
  { tr := .stateful, standalone := standalone, keepValues := keep, n := 2,
    info := fun i => if i = 1 then { dir := .s2c, encl := some 0 } else {} }

def nestedCancelRun : List Label :=
  [.call 0, .deliver 0, .start 0, .call 1, .deliver 1, .start 1, .tick 10, .cancel 1 false, .retire 1, .retCtx 1]

theorem background_notice_misses_request_stream :
    (run (cfgNested false false) init nestedCancelRun).map
        (fun s => (routeExists (cfgNested false false) s (callRoute (cfgNested false false) 1),
                   (step (cfgNested false false) s (.notice 1)).isSome,
                   (run (cfgNested false false) s [.drop 1, .tick 1000]).map fun s' => (s'.req 1, s'.hcan 1)))
      = some (true, false, some (.running, false)) := by decide

/-- … and with the values kept the same schedule delivers the notice and cancels the handler. -/
theorem kept_values_notice_reaches_nested_handler :
    (run (cfgNested true false) init nestedCancelRun).map
        (fun s => ((step (cfgNested true false) s (.drop 1)).isSome,
                   (run (cfgNested true false) s [.notice 1]).map fun s' => (s'.req 1, s'.hcan 1, (summ s'.trace).hc 1)))
      = some (false, some (.running, true, some 10)) := by decide

/-! ## exactly the named handler, nobody else -/

/-- **notice_cancels_exactly_named.** The step that delivers the notice of call i changes the cancelled flag of
no other request; it cancels request i iff the notice arrived on the connection that indexes it and the request
is unanswered (queued or running). -/
theorem notice_cancels_exactly_named {c : Cfg} {s s' : St} (i : Nat) (h : step c s (.notice i) = some s') :
    (∀ j, j ≠ i → s'.hcan j = s.hcan j) ∧
    (sameConn c i = true → (s.req i = .queued ∨ s.req i = .running) → s'.hcan i = true) ∧
    (¬ (sameConn c i = true ∧ (s.req i = .queued ∨ s.req i = .running)) → s'.hcan i = s.hcan i) := by
  simp only [step] at h
  split at h
  · split at h
    · rename_i hq
      cases h
      refine ⟨fun j hj => by simp [upd, hj], fun _ _ => by simp [upd], fun hn => absurd hq hn⟩
    · rename_i hq
      cases h
      exact ⟨fun _ _ => rfl, fun h1 h2 => absurd ⟨h1, h2⟩ hq, fun _ => rfl⟩
  · cases h

/-- **only_notice_cancels.** No label other than `notice j` ever cancels the handler context of request j: not
the cancellation of another call, not a late response, not a drop, not the passage of time. -/
theorem only_notice_cancels {c : Cfg} {s s' : St} (l : Label) (j : Nat) (h : step c s l = some s')
    (h0 : s.hcan j = false) (h1 : s'.hcan j = true) : l = .notice j := by
  cases l with
  | notice i =>
    by_cases hij : j = i
    · rw [hij]
    · have := (notice_cancels_exactly_named i h).1 j hij
      rw [this, h0] at h1; cases h1
  | retCtx i =>
    simp only [step] at h
    split at h
    · split at h
      · cases h; rw [h0] at h1; cases h1
      · cases h
    · cases h
  | retire i =>
    simp only [step] at h
    split at h
    · split at h <;> (cases h; rw [h0] at h1; cases h1)
    · cases h
  | cancel i dl =>
    simp only [step] at h
    split at h
    · split at h <;> (cases h; rw [h0] at h1; cases h1)
    · cases h
  | resp i =>
    simp only [step] at h
    split at h
    · split at h <;> (cases h; rw [h0] at h1; cases h1)
    · cases h
  | _ =>
    simp only [step] at h
    split at h
    · cases h; rw [h0] at h1; cases h1
    · cases h

/-- **cancelled_handler_was_named.** In every reachable state a request whose handler context is cancelled is one
whose caller's context ended (and whose notice — or, with propagation, the end of its HTTP exchange — was
delivered): no other in-flight request is cancelled. -/
theorem cancelled_handler_was_named {c : Cfg} (hk : c.keepValues = true) (ls : List Label) {s : St}
    (h : run c init ls = some s) (j : Nat) (hj : s.hcan j = true) :
    s.ctxDone j ≠ none ∧ s.notice j = .delivered ∧ (s.retired j = true ∨ abortIsNotice c j = true) := by
  have I := inv_run hk ls h
  have hd := I.hcan_of j hj
  have hn : s.notice j ≠ .none := by rw [hd]; simp
  exact ⟨I.notice_ctx j hn, hd, I.notice_src j hn⟩

/-! ## the caller -/

/-- **caller_returns_without_peer.** A caller whose context ended and who has not returned can retire its call and
return in the very next two steps, whatever the rest of the state is (peer silent, request not even delivered,
notices of other calls pending or undeliverable): `retire` and `retCtx` are enabled by the caller's own state
alone, the result is the context's error, no virtual time passes, and both are urgent — time cannot advance
before they happened. -/
theorem caller_returns_without_peer {c : Cfg} {s : St} (i : Nat) (dl : Bool) (hc : s.ctxDone i = some dl)
    (hr : s.reg i = true ∨ s.got i = true) (hn : s.res i = none) :
    (∃ s', run c s [.retire i, .retCtx i] = some s' ∧ s'.res i = some (.ctx dl) ∧ s'.now = s.now ∧ s'.reg i = false) ∧
    (i < c.n → ∀ d, step c s (.tick d) = none) ∧
    (i < c.n → ∀ s1, step c s (.retire i) = some s1 → ∀ d, step c s1 (.tick d) = none) := by
  refine ⟨?_, ?_, ?_⟩
  · simp only [run, step]
    rw [if_pos ⟨by rw [hc]; simp, hr, hn⟩]
    by_cases ha : abortIsNotice c i = true
    · simp [ha, upd, hc, hn]
    · simp [ha, upd, hc, hn]
  · intro hi d
    simp only [step]
    rw [if_neg]
    intro ⟨_, hq⟩
    have := quiet_spec hq i hi
    unfold urgent at this
    rcases hr with hr | hr <;> simp [hc, hr, hn] at this
  · intro hi s1 h1 d
    have hret : s1.retired i = true ∧ s1.res i = none ∧ s1.ctxDone i = some dl := by
      simp only [step] at h1
      split at h1
      · split at h1 <;> (cases h1; simp [upd, hn, hc])
      · cases h1
    simp only [step]
    rw [if_neg]
    intro ⟨_, hq⟩
    have := quiet_spec hq i hi
    unfold urgent at this
    simp [hret.1, hret.2.1, hret.2.2] at this

/-- The notifier is a process of its own: after `retCtx` the caller's fields never change again, whatever
happens to the notice (`notice`, `drop`, or nothing at all while the transport stalls it). -/
theorem notice_fate_does_not_touch_caller {c : Cfg} {s s' : St} (i : Nat) (l : Label)
    (hl : l = .notice i ∨ l = .drop i) (h : step c s l = some s') :
    s'.res = s.res ∧ s'.reg = s.reg ∧ s'.got = s.got ∧ s'.now = s.now := by
  rcases hl with hl | hl <;> subst hl <;> simp only [step] at h
  · split at h
    · split at h <;> (cases h; exact ⟨rfl, rfl, rfl, rfl⟩)
    · cases h
  · split at h
    · cases h; exact ⟨rfl, rfl, rfl, rfl⟩
    · cases h

/-- **late_response_no_effect.** A response that reaches a caller whose call is no longer registered (it was
retired when its context ended) is consumed and changes nothing else. -/
theorem late_response_no_effect {c : Cfg} {s s' : St} (i : Nat) (h : step c s (.resp i) = some s') (hr : s.reg i = false) :
    s'.res = s.res ∧ s'.reg = s.reg ∧ s'.got = s.got ∧ s'.hcan = s.hcan ∧ s'.req = s.req ∧ s'.notice = s.notice
      ∧ s'.ctxDone = s.ctxDone ∧ s'.trace = s.trace ∧ s'.now = s.now ∧ s'.respTransit i = false := by
  simp only [step] at h
  split at h
  · split at h
    · rename_i h1; rw [hr] at h1; cases h1
    · cases h; simp [upd]
  · cases h

/-- **result_is_own.** Whatever a caller returns is its own call's result or its own context's error. -/
theorem result_is_own {c : Cfg} (hk : c.keepValues = true) (ls : List Label) {s : St} (h : run c init ls = some s)
    (i : Nat) (r : Res) (hr : s.res i = some r) : r = .ok (payload c i) ∨ ∃ dl, r = .ctx dl ∧ s.ctxDone i = some dl := by
  have I := inv_run hk ls h
  have hg := I.good
  cases r with
  | ctx dl => exact Or.inr ⟨dl, rfl, (I.res_ctx i dl hr).1⟩
  | ok p =>
    left
    -- the only label that sets an `ok` result is retOk, with the call's own payload: by induction over the run
    suffices ∀ (ls : List Label) (s0 s : St), (∀ j p, s0.res j = some (.ok p) → p = payload c j) → run c s0 ls = some s →
        ∀ j p, s.res j = some (.ok p) → p = payload c j by
      rw [this ls init s (by intro j p h; simp [init] at h) h i p hr]
    intro ls
    induction ls with
    | nil => intro s0 s h0 h; simp [run] at h; subst h; exact h0
    | cons l ls ih =>
      intro s0 s h0 h
      simp only [run] at h
      cases hs : step c s0 l with
      | none => simp [hs] at h
      | some s1 =>
        simp only [hs, Option.bind_some] at h
        refine ih s1 s ?_ h
        intro j p hj
        cases l <;> simp only [step] at hs
        case retOk k =>
          split at hs
          · cases hs
            by_cases hjk : j = k
            · subst hjk; simp [upd] at hj; exact hj.symm
            · simp [upd, hjk] at hj; exact h0 j p hj
          · cases hs
        case retCtx k =>
          split at hs
          · split at hs
            · cases hs
              by_cases hjk : j = k
              · subst hjk; simp [upd] at hj
              · simp [upd, hjk] at hj; exact h0 j p hj
            · cases hs
          · cases hs
        case resp k =>
          split at hs
          · split at hs <;> (cases hs; exact h0 j p hj)
          · cases hs
        case notice k =>
          split at hs
          · split at hs <;> (cases hs; exact h0 j p hj)
          · cases hs
        case retire k'' =>
          split at hs
          · split at hs <;> (cases hs; exact h0 j p hj)
          · cases hs
        case cancel k'' dl'' =>
          split at hs
          · split at hs <;> (cases hs; exact h0 j p hj)
          · cases hs
        all_goals
          split at hs
          · cases hs; exact h0 j p hj
          · cases hs
  | other k =>
    exfalso
    suffices ∀ (ls : List Label) (s0 s : St), (∀ j k, s0.res j ≠ some (.other k)) → run c s0 ls = some s →
        ∀ j k, s.res j ≠ some (.other k) from this ls init s (by intro j k; simp [init]) h i k hr
    intro ls
    induction ls with
    | nil => intro s0 s h0 h; simp [run] at h; subst h; exact h0
    | cons l ls ih =>
      intro s0 s h0 h
      simp only [run] at h
      cases hs : step c s0 l with
      | none => simp [hs] at h
      | some s1 =>
        simp only [hs, Option.bind_some] at h
        refine ih s1 s ?_ h
        intro j k hj
        cases l <;> simp only [step] at hs
        case retOk k' =>
          split at hs
          · cases hs
            by_cases hjk : j = k'
            · subst hjk; simp [upd] at hj
            · simp [upd, hjk] at hj; exact h0 j k hj
          · cases hs
        case retCtx k' =>
          split at hs
          · split at hs
            · cases hs
              by_cases hjk : j = k'
              · subst hjk; simp [upd] at hj
              · simp [upd, hjk] at hj; exact h0 j k hj
            · cases hs
          · cases hs
        case resp k' =>
          split at hs
          · split at hs <;> (cases hs; exact h0 j k hj)
          · cases hs
        case notice k' =>
          split at hs
          · split at hs <;> (cases hs; exact h0 j k hj)
          · cases hs
        case retire k'' =>
          split at hs
          · split at hs <;> (cases hs; exact h0 j k hj)
          · cases hs
        case cancel k'' dl'' =>
          split at hs
          · split at hs <;> (cases hs; exact h0 j k hj)
          · cases hs
        all_goals
          split at hs
          · cases hs; exact h0 j k hj
          · cases hs

/-- **usable_after_cancel.** In every reachable state — whatever was cancelled, dropped, stalled or answered late
before — a call that has not been made yet, whose route exists, can be made and completes with its own result. -/
theorem usable_after_cancel {c : Cfg} (hk : c.keepValues = true) (ls : List Label) {s : St} (h : run c init ls = some s)
    (k : Nat) (hk' : k < c.n) (hidle : s.req k = .idle) (hctx : s.ctxDone k = none)
    (hroute : routeExists c s (callRoute c k) = true) (hencl : enclRunning c s k = true) :
    ∃ s', run c s [.call k, .deliver k, .start k, .finish k, .resp k, .retOk k] = some s' ∧
      s'.res k = some (.ok (payload c k)) := by
  have I := inv_run hk ls h
  have hres : s.res k = none := by
    cases hr : s.res k with
    | none => rfl
    | some r => exact absurd hidle (I.issued k (by rw [hr]; simp))
  have hcan : s.hcan k = false := by
    cases hh : s.hcan k with
    | false => rfl
    | true =>
      have := I.hcan_of k hh
      exact absurd hctx (I.notice_ctx k (by rw [this]; simp))
  simp [run, step, upd, hidle, hres, hctx, hroute, hencl, hk', hcan]

/-! ## the boundary: a notice that arrives on another connection -/

/-- **notice_on_other_connection_cancels_nothing.** A notice delivered to a connection that does not index the
request it names cancels nothing and is invisible in the log. -/
theorem notice_on_other_connection_cancels_nothing {c : Cfg} {s s' : St} (i : Nat) (h : step c s (.notice i) = some s')
    (hs : sameConn c i = false) : s'.hcan = s.hcan ∧ s'.trace = s.trace ∧ s'.req = s.req ∧ s'.notice i = .delivered := by
  simp only [step] at h
  split at h
  · split at h
    · rename_i hq; rw [hs] at hq; exact absurd hq.1 (by simp)
    · cases h; exact ⟨rfl, rfl, rfl, by simp [upd]⟩
  · cases h

/-- On a stateless streamable server (every POST a connection of its own, no propagation) request and notice are
never served by the same connection … -/
theorem stateless_notice_is_elsewhere (c : Cfg) (i : Nat) (ht : c.tr = .stateless) (hd : (c.info i).dir = .c2s)
    (hp : c.propagate = false) : sameConn c i = false ∧ expected c i = false := by
  simp [sameConn, noticeRoute, callRoute, route, ht, hd, hp, endpoint, expected]

def cfgStateless (propagate : Bool) : Cfg := { tr := .stateless, propagate := propagate, n := 1 }

/-- … witness: the call is cancelled while its handler runs, the caller returns at once, the notice is delivered
(to a fresh connection), nothing is cancelled, time passes, the handler is still running uncancelled.  This is
the SDK's documented behaviour (handler cancellation on a stateless server is opt-in:
`StreamableHTTPOptions.PropagateRequestCancellation`, 2026-07-28 only) and outside C04's "while the connection
is healthy … the peer's handler for exactly that request": not a finding. -/
theorem stateless_cancel_leaves_handler_running :
    (run (cfgStateless false) init [.call 0, .deliver 0, .start 0, .tick 5, .cancel 0 false, .retire 0, .retCtx 0, .notice 0, .tick 1000]).map
        (fun s => (s.res 0, s.notice 0, s.req 0, s.hcan 0, s.now)) = some (some (.ctx false), .delivered, .running, false, 1005) := by
  decide

/-- With propagation the same schedule cancels the handler. -/
theorem stateless_propagate_cancels_handler :
    (run (cfgStateless true) init [.call 0, .deliver 0, .start 0, .tick 5, .cancel 0 false, .retire 0, .retCtx 0, .notice 0, .tick 1000]).map
        (fun s => (s.res 0, s.req 0, s.hcan 0, (summ s.trace).hc 0)) = some (some (.ctx false), .running, true, some 5) := by
  decide

/-- Also outside the clause (observation, not claimed): when the CLIENT abandons a call whose handler has nested
server→client calls in flight on a stateful streamable server, the nested calls end with the handler's context, but
their notices are routed to the response stream of the abandoned request: whether such a notice still arrives is a
race (`routeMay`); both its delivery and its loss — after which the client's handler of the nested request keeps
running while time passes — are runs of the model.  The monitor's `routeOpen` exempts exactly this. -/
theorem abandoned_request_stream_loses_nested_notice :
    (run (cfgNested true false) init
        [.call 0, .deliver 0, .start 0, .call 1, .deliver 1, .start 1, .tick 10, .cancel 0 false, .retire 0, .retCtx 0, .notice 0,
         .cancel 1 false, .retire 1, .retCtx 1]).map
      (fun s => ((step (cfgNested true false) s (.notice 1)).isSome,
                 (run (cfgNested true false) s [.drop 1, .tick 1000]).map fun s' => (s'.req 1, s'.hcan 1, s'.hcan 0)))
      = some (true, some (.running, false, true)) := by decide

/-- **inv_reachable.** The invariant of the model (see `Inv`) holds in every reachable state. -/
theorem inv_reachable {c : Cfg} (hk : c.keepValues = true) (ls : List Label) {s : St} (h : run c init ls = some s) : Inv c s :=
  inv_run hk ls h

end Cancel
