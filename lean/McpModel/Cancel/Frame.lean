import McpModel.Cancel.Props
/-!
# C04 — within one session: a label of one call touches no other call (engine `cancel`)

"No other in-flight request is cancelled" and "the session stays usable" at the level of the whole state, for ALL labels:
every label other than `tick` belongs to one call (`callOf`) and changes no field of any other call.
-/
namespace Cancel

/-- The call a label belongs to (`tick` belongs to none). -/
def callOf : Label → Option Nat
  | .call i | .deliver i | .start i | .skip i | .finish i | .resp i | .retOk i | .cancel i _ | .retire i | .retCtx i
  | .notice i | .drop i => some i
  | .tick _ => none

/-- **step_touches_only_its_call.** Within ONE session too: whatever happens to call i — issued, delivered, started,
answered, cancelled, retired, its notice delivered or dropped — no field of any other call j changes (request phase,
registration, result, context, notice, handler context, response in transit), and the clock does not move. -/
theorem step_touches_only_its_call {c : Cfg} {s s' : St} (l : Label) (i : Nat) (hl : callOf l = some i)
    (h : step c s l = some s') (j : Nat) (hj : j ≠ i) :
    s'.req j = s.req j ∧ s'.reg j = s.reg j ∧ s'.got j = s.got j ∧ s'.retired j = s.retired j ∧ s'.res j = s.res j ∧
      s'.ctxDone j = s.ctxDone j ∧ s'.notice j = s.notice j ∧ s'.hcan j = s.hcan j ∧ s'.respTransit j = s.respTransit j ∧
      s'.now = s.now := by
  cases l <;> simp only [callOf, Option.some.injEq, reduceCtorEq] at hl <;> subst hl <;> simp only [step] at h <;>
    (repeat' split at h) <;> first
      | (cases h; done)
      | (cases h; simp [upd, hj])

end Cancel

namespace Cancel
/-- … hence along ANY sequence of labels of other calls (any number of calls issued, cancelled, answered late, their
notices stalled or dropped) the state of call j is exactly what it was. -/
theorem run_of_other_calls_preserves_call {c : Cfg} (ls : List Label) (j : Nat)
    (hls : ∀ l ∈ ls, ∃ i, callOf l = some i ∧ i ≠ j) (s s' : St) (h : run c s ls = some s') :
    s'.req j = s.req j ∧ s'.reg j = s.reg j ∧ s'.got j = s.got j ∧ s'.res j = s.res j ∧ s'.ctxDone j = s.ctxDone j ∧
      s'.notice j = s.notice j ∧ s'.hcan j = s.hcan j ∧ s'.now = s.now := by
  induction ls generalizing s with
  | nil => simp [run] at h; subst h; exact ⟨rfl, rfl, rfl, rfl, rfl, rfl, rfl, rfl⟩
  | cons l ls ih =>
    simp only [run] at h
    cases hs : step c s l with
    | none => simp [hs] at h
    | some s1 =>
      simp only [hs, Option.bind_some] at h
      obtain ⟨i, hi, hij⟩ := hls l (by simp)
      obtain ⟨a1, a2, a3, _, a5, a6, a7, a8, _, a10⟩ := step_touches_only_its_call l i hi hs j (fun e => hij e.symm)
      obtain ⟨b1, b2, b3, b5, b6, b7, b8, b10⟩ := ih (fun l hl => hls l (by simp [hl])) s1 h
      exact ⟨by rw [b1, a1], by rw [b2, a2], by rw [b3, a3], by rw [b5, a5], by rw [b6, a6], by rw [b7, a7], by rw [b8, a8], by rw [b10, a10]⟩
end Cancel
