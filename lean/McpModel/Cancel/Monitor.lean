import McpModel.Cancel.Model
/-!
The property monitor of C04 on the IMPLEMENTATION's event log, as a typed function.

Input: the static description of the case (`Cfg`: transport class, per call its direction, the request in
whose handler context it was made, whether the transport faults its cancel notice) and the event log
(`List Ev`: `snd`, `beg`, `fin`, `hc`, `can`, `ret` with call number and virtual time).  The monitor never
consults the model's state; it does not use `Cfg.keepValues` or `noticeRoute` (which describe the code): the
route that matters for "while the connection is healthy" is the route the REQUEST travelled (`callRoute`).

It reads the log once, keeping per call the time of the first event of each kind (`MSt`, `mupd`), and
checks every event against the summary of the events before it (`checkAt`); `monEnd` is evaluated at the
end of the case.  Clauses (`Clause`), from the property text:

* `notPrompt i`         "cancelling the context of an in-flight call makes the call return promptly … even if the
                         peer never answers and even if the cancellation notice itself cannot be delivered": call i
                         was issued, its context ended, and something happened more than `promptBoundMs` of virtual
                         time after both while the call had not returned;
* `wrongResult i`       "… with the context's error": call i returned something that is neither the peer's result nor
                         the error its own context ended with (a call whose context never ended must return the
                         peer's result: "the session stays usable for further calls");
* `foreignResult i p`   "a late response to the abandoned call is discarded without effect": call i returned the
                         result of another call p;
* `peerNotCancelled i`  "while the connection is healthy, causes the context of the peer's handler for exactly that
                         request to be cancelled": call i returned its context's error, the peer's handler for it was
                         running, the request and its notice are served by the same connection of the peer
                         (`expected`), the transport did not fault the notice, the route the request travelled was
                         still open when the caller returned (`routeOpen`), and something happened more than
                         `promptBoundMs` later while the handler had neither seen its context end nor finished;
* `otherCancelled j`    "no other in-flight request is cancelled": the context of the handler of j ended while it was
                         running although the context of call j had not ended;
* `neverReturned i`     (end of case, every handler was released) call i was issued and never returned.

Scope, explicit and decidable: `expected c i` — on a stateless streamable server every POST is a connection of
its own, so the cancel notice arrives on a connection that never saw the request; the clause `peerNotCancelled`
applies there only when the configuration ties a handler to its HTTP exchange (`propagate`).  All other
clauses apply everywhere.  `broken` (the injected fault makes the transport Write fail, which by design
shuts the connection down: every other in-flight call may fail, and a call whose context ends in that very
instant may see the peer's error first) restricts the monitor to the prompt return of cancelled calls, to results
that claim to be a context error or another call's result, and to `otherCancelled` being off.
Core Lean only (linked into the driver).
-/
namespace Cancel

/-- "promptly", in virtual ms.  Under testing/synctest time advances only when every goroutine is blocked, so
anything that does not wait for a timer happens at the same instant; the bound only has to be smaller than
every timeout of the code (`promptBound_lt_notifyTimeout`). -/
def promptBoundMs : Nat := 100

theorem promptBound_lt_notifyTimeout : promptBoundMs < Generated.Cancel.notifyTimeoutMs := by decide

inductive Clause where
  | notPrompt (i : Nat)
  | wrongResult (i : Nat)
  | foreignResult (i p : Nat)
  | peerNotCancelled (i : Nat)
  | otherCancelled (j : Nat)
  | neverReturned (i : Nat)
deriving DecidableEq, Repr, Inhabited

/-- Per call: the virtual time (and argument) of the first event of each kind seen so far. -/
structure MSt where
  snd : Nat → Option Nat := fun _ => none
  beg : Nat → Option Nat := fun _ => none
  fin : Nat → Option Nat := fun _ => none
  hc : Nat → Option Nat := fun _ => none
  can : Nat → Option (Nat × Bool) := fun _ => none
  ret : Nat → Option (Nat × Res) := fun _ => none
  /-- the earliest time at which the handler of the request finished or its caller's context ended -/
  closed : Nat → Option Nat := fun _ => none

/-- Set a slot unless it is already filled. -/
def setFirst {α : Type} (f : Nat → Option α) (i : Nat) (v : α) : Nat → Option α :=
  fun j => if j = i then (f i).or (some v) else f j

/-- Keep the smaller of the slot and the new value. -/
def setMin (f : Nat → Option Nat) (i : Nat) (v : Nat) : Nat → Option Nat :=
  fun j => if j = i then (match f i with | some x => some (min x v) | none => some v) else f j

def mupd (m : MSt) (e : Ev) : MSt :=
  match e.k with
  | .snd => { m with snd := setFirst m.snd e.i e.t }
  | .beg => { m with beg := setFirst m.beg e.i e.t }
  | .fin => { m with fin := setFirst m.fin e.i e.t, closed := setMin m.closed e.i e.t }
  | .hc => { m with hc := setFirst m.hc e.i e.t }
  | .can dl => { m with can := setFirst m.can e.i (e.t, dl), closed := setMin m.closed e.i e.t }
  | .ret r => { m with ret := setFirst m.ret e.i (e.t, r) }

def summ (tr : List Ev) : MSt := tr.foldl mupd {}

/-- Extra, monitor-only description of the case. -/
structure MonCfg where
  c : Cfg
  /-- the injected fault makes the transport Write of the notice FAIL: the connection shuts down by design -/
  broken : Bool := false

/-- The request and its cancel notice are served by the same connection of the peer, or the configuration
propagates the end of the HTTP exchange into the handler. -/
def expected (c : Cfg) (i : Nat) : Bool :=
  match c.tr, (c.info i).dir with
  | .stateless, .c2s => c.propagate
  | _, _ => true

def optAll {α : Type} (o : Option α) (p : α → Bool) : Bool :=
  match o with
  | some x => p x
  | none => true

/-- The route the request of call i travelled is still there at time t, as far as the log shows: the response
stream of the enclosing request p carries messages while p's handler runs and p's caller has not abandoned it
(no `fin p`, no `can p` up to and including the instant t: `closed p` is the earliest such event). -/
def routeOpen (c : Cfg) (m : MSt) (i : Nat) (t : Nat) : Bool :=
  match callRoute c i with
  | .reqStream p => optAll (m.closed p) (fun x => decide (t < x))
  | .standalone => c.standalone
  | _ => true

def lateCaller (m : MSt) (now : Nat) (i : Nat) : Bool :=
  match m.snd i, m.can i, m.ret i with
  | some ts, some (tc, _), none => decide (max ts tc + promptBoundMs < now)
  | _, _, _ => false

def latePeer (c : Cfg) (m : MSt) (now : Nat) (i : Nat) : Bool :=
  match m.ret i, m.beg i, m.hc i, m.fin i with
  | some (tr, .ctx _), some tb, none, none =>
    expected c i && !(c.info i).fault && routeOpen c m i tr && decide (max tr tb + promptBoundMs < now)
  | _, _, _, _ => false

/-- The checks that depend only on the time of the new event. -/
def timeCheck (mc : MonCfg) (m : MSt) (now : Nat) : Option Clause :=
  match (List.range mc.c.n).find? (lateCaller m now) with
  | some i => some (.notPrompt i)
  | none =>
    if mc.broken then none else
    match (List.range mc.c.n).find? (latePeer mc.c m now) with
    | some i => some (.peerNotCancelled i)
    | none => none

/-- The checks on the new event itself. -/
def evCheck (mc : MonCfg) (m : MSt) (e : Ev) : Option Clause :=
  match e.k with
  | .hc => if m.can e.i = none && !mc.broken then some (.otherCancelled e.i) else none
  | .ret r =>
    match r with
    | .ok none => none
    | .ok (some p) => if p = e.i then none else some (.foreignResult e.i p)
    | .ctx dl =>
      match m.can e.i with
      | some (_, dl') => if dl = dl' then none else some (.wrongResult e.i)
      | none => if mc.broken then none else some (.wrongResult e.i)
    | .other _ => if mc.broken then none else some (.wrongResult e.i)
  | _ => none

def checkAt (mc : MonCfg) (m : MSt) (e : Ev) : Option Clause :=
  match evCheck mc m e with
  | some cl => some cl
  | none => timeCheck mc m e.t

/-- Read the log from monitor state `m`: the first clause that fires, if any. -/
def scan (mc : MonCfg) (m : MSt) : List Ev → Option Clause
  | [] => none
  | e :: rest =>
    match checkAt mc m e with
    | some cl => some cl
    | none => scan mc (mupd m e) rest

def mon (mc : MonCfg) (tr : List Ev) : Option Clause := scan mc {} tr

/-- End of the case (every handler was released, the harness waited): every call that was issued has returned.
Not evaluated when the injected fault broke the transport's writer (calls in flight on a connection whose writer
is broken are the subject of C01/C05, not of C04). -/
def monEnd (mc : MonCfg) (tr : List Ev) : Option Clause :=
  if mc.broken then none else
  let m := summ tr
  match (List.range mc.c.n).find? (fun i => (m.snd i).isSome && (m.ret i).isNone) with
  | some i => some (.neverReturned i)
  | none => none

end Cancel
