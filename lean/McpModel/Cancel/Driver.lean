import McpModel.Base.Proto
import McpModel.Cancel.Monitor
/-!
Driver for the engine `cancel` (C04 end to end).  One case = one cancellation scenario between a real
`mcp.Client` and a real `mcp.Server` over one transport, under virtual time.

records (op ⇒ implementation's observation):
  `reset`                                                     ⇒ `ok`
  `cfg tr=<transport> pv=<version> [bc=1] [tw=c|s]`           ⇒ `ok` | `connect-fail` | `panic`
        (tw: TWO sessions — c: one Client, two servers; s: one Server, two client sessions; a `c` record with `s=1` is a call
        on session 1, `x … v2=<j>`: call j of session 1 is cancelled 20 ms after the victim; faults hit session 0 only)
  `c <i> dir=<c2s|s2cn|s2cd> meth=<m> mode=<park|deaf|quick|drive> d=<ms> at=<ms>` ⇒ `ok`
  `x victim=<i> when=<pre|run|race|post> tc=<ms> dl=<0|1> fault=<none|stall|reject|fail|late|timeout|s503|reset> [cz=1] [rc=1]` ⇒ `ok`
        (a `c` record may carry `g=1`: the call's context is also a child of the case's shared group context, which ends when
        the victim's does; cz=1: the contexts end by a CancelCauseFunc with a custom cause — Err is context.Canceled)
        (late, timeout, s503, reset: what the foreign server of transport fj does with the POST of the notice; `late` =
        processed at once, acknowledged late: not a fault.  rc=1: the receiver of the victim's request starts a graceful
        Close 5 ms before the victim's context ends; no follow-up calls)
  `e <seq> <snd|beg|fin|hc|can|ret> <call>`                   ⇒ `t=<ms> [a=<arg>]`   (the event log, in order)
  `end`                                                       ⇒ `extra=<n> stuck=<0|1> t=<ms> stall=<n> reject=<n> fail=<n> [closehung=<0|1>]`

Calls 100, 101, 102 are the follow-up calls (client→server before the release, nested server→client before the
release, client→server at the end).  Model side (`D` when it disagrees), at `end`: nothing unknown was handled
(`extra=0`), nothing is stuck, and the event log must be the visible part of a run of `Cancel.step` for the
configuration of the case with `keepValues` taken from the regenerated flag (the invisible labels `deliver`,
`skip`, `resp` are taken eagerly — they only enable — `retire`/`notice`/`drop` by backtracking over when, `tick` when
the next event is later; should that fail, the events of one virtual instant — logged by different goroutines racing
for one mutex — may be consumed in any order that keeps the order of each call's own events); otherwise `rejected@<seq>`.  Not checked against the model: cases whose injected
fault makes the transport Write fail (`fault=fail`): the connection then shuts down by design, which the model
does not describe.  Monitor side (`V`): `Cancel.mon` and `Cancel.monEnd` (Monitor.lean; bridge and clause
soundness in Bridge.lean / Sound.lean) on the implementation's log.
-/
namespace Cancel
open Proto

def kv (toks : List String) (k : String) : Option String :=
  toks.findSome? fun t => if t.startsWith (k ++ "=") then some ((t.drop (k.length + 1)).toString) else none

structure CallRec where
  dir : String
  meth : String
  /-- the session the call is made on (twin cases: 0 or 1) -/
  sess : Nat := 0
deriving Inhabited

structure DSt where
  tr : String := ""
  pv : String := ""
  status : String := ""
  calls : List CallRec := []
  victim : Nat := 0
  fault : String := "none"
  evs : List Ev := []
  causes : List (Nat × String) := []
  bad : Bool := false

def followBase : Nat := 100
def nCalls : Nat := 105

/-- Twin cases (`cfg … tw=c|s`: one Client with two servers / one Server with two client sessions): calls 103 and 104
are the follow-up calls on session 1.  The session of a call number. -/
def sessOf (calls : List CallRec) (i : Nat) : Nat :=
  if i == followBase + 3 || i == followBase + 4 then 1
  else match calls[i]? with
    | some k => k.sess
    | none => 0

def isStreamable (tr : String) : Bool := tr.startsWith "sh" || tr.startsWith "sl"
def suffix (tr : String) : String := (tr.drop 2).toString

/-- The typed description of the case, from the `cfg`, `c` and `x` records. -/
def mkCfg (st : DSt) : Cfg :=
  let carrier := (st.calls.zipIdx.find? fun (k, _) => k.meth == "drive" || k.meth == "mrtr").map (·.2)
  let vdirC2S := match st.calls[st.victim]? with
    | some k => k.dir == "c2s"
    | none => true
  let info (i : Nat) : Info :=
    if i == followBase || i == followBase + 2 || i == followBase + 3 || i == followBase + 4 then { dir := .c2s, plain := st.pv != "2026-07-28" }  -- the follow-up is a ping; under 2026-07-28 (no ping) a tool call
    else if i == followBase + 1 then { dir := .s2c, encl := carrier, plain := true }
    else match st.calls[i]? with
      | some k =>
        let c2s := k.dir == "c2s"
        { dir := if c2s then .c2s else .s2c,
          encl := if k.dir == "s2cn" then carrier else none,
          fault := st.fault != "none" && st.fault != "late" && (c2s == vdirC2S) && k.sess == 0,
          plain := k.meth == "ping" }
      | none => {}
  { tr := if st.tr.startsWith "sl" then .stateless else if st.tr.startsWith "sh" then .stateful else .pipe,
    json := isStreamable st.tr && (suffix st.tr).contains 'j',
    standalone := !(st.tr.startsWith "sh" && (suffix st.tr).contains 'n'),
    propagate := st.tr.startsWith "sl" && (suffix st.tr).contains 'p',
    keepValues := Generated.Cancel.noticeKeepsValues,
    n := nCalls, info := info }

def parseRes (a : String) : Res :=
  if a == "ok" then .ok none
  else if a.startsWith "ok:" then
    match ((a.drop 3).toString).toNat? with
    | some p => .ok (some p)
    | none => .other 9
  else if a == "ctx:c" then .ctx false
  else if a == "ctx:d" then .ctx true
  else if a == "ctx:cd" then .other 1
  else if a == "closed" then .other 2
  else if a == "rpcerr" then .other 3
  else if a == "rejected" then .other 4
  else .other 5

def resText : Res → String
  | .ok none => "the peer's result"
  | .ok (some p) => s!"the peer's result for call {p}"
  | .ctx false => "context.Canceled"
  | .ctx true => "context.DeadlineExceeded"
  | .other 1 => "an error that is both context.Canceled and context.DeadlineExceeded"
  | .other 2 => "ErrConnectionClosed"
  | .other 3 => "a JSON-RPC error of the peer"
  | .other 4 => "a rejected write"
  | .other _ => "an error"

def parseEv (toks : List String) (impl : String) : Option (Ev × String) := do
  let what ← toks[2]?
  let id ← (← toks[3]?).toNat?
  let o := words impl
  let t ← (← kv o "t").toNat?
  let a := (kv o "a").getD ""
  let k ← match what with
    | "snd" => some EvK.snd
    | "beg" => some EvK.beg
    | "fin" => some EvK.fin
    | "hc" => some EvK.hc
    | "can" => some (EvK.can (a == "d"))
    | "ret" => some (EvK.ret (parseRes a))
    | _ => none
  pure (⟨k, id, t⟩, a)

/-! ## is the log the visible part of a model run? -/

def ids (evs : List Ev) : List Nat := (evs.map (·.i)).eraseDups

/-- Eager invisible steps that only enable: deliver, skip, resp. -/
def settle (c : Cfg) (is : List Nat) (s : St) : Nat → St
  | 0 => s
  | fuel + 1 =>
    let s' := is.foldl (fun s i =>
      let s := (step c s (.deliver i)).getD s
      let s := (step c s (.skip i)).getD s
      (step c s (.resp i)).getD s) s
    if s'.req 0 == s.req 0 && is.all (fun i => s'.req i == s.req i && s'.respTransit i == s.respTransit i && s'.got i == s.got i) then s'
    else settle c is s' fuel

def visibleLabel (e : Ev) : Option Label :=
  match e.k with
  | .snd => some (.call e.i)
  | .beg => some (.start e.i)
  | .fin => some (.finish e.i)
  | .hc => some (.notice e.i)
  | .can dl => some (.cancel e.i dl)
  | .ret (.ok _) => some (.retOk e.i)
  | .ret (.ctx _) => some (.retCtx e.i)
  | .ret (.other _) => none

structure SR where
  ok : Bool
  pos : Nat
  fuel : Nat
deriving Inhabited

partial def search (c : Cfg) (is : List Nat) (s : St) (evs : List Ev) (pos fuel : Nat) : SR :=
  if fuel == 0 then ⟨false, pos, 0⟩ else
  let s := settle c is s 8
  match evs with
  | [] => ⟨true, pos, fuel⟩
  | e :: rest =>
    if e.t < s.now then ⟨false, pos, fuel - 1⟩ else
    -- the event itself
    let direct : SR :=
      if e.t == s.now then
        match visibleLabel e with
        | some l =>
          match step c s l with
          | some s' => if s'.trace == s.trace ++ [e] then search c is s' rest (pos + 1) (fuel - 1) else ⟨false, pos, fuel - 1⟩
          | none => ⟨false, pos, fuel - 1⟩
        | none => ⟨false, pos, fuel - 1⟩
      else ⟨false, pos, fuel - 1⟩
    if direct.ok then direct else
    -- a pending notice is delivered (invisibly) or dropped now
    let viaNotice := (is.filter fun i => s.notice i == .pending).foldl (fun (best : SR) i =>
      if best.ok || best.fuel == 0 then best else
        let try1 := match step c s (.notice i) with
          | some s' => if s'.trace == s.trace then search c is s' evs pos (best.fuel - 1) else ⟨false, pos, best.fuel - 1⟩
          | none => ⟨false, pos, best.fuel - 1⟩
        if try1.ok then try1 else
        let best := if try1.pos > best.pos then { try1 with ok := false } else { best with fuel := try1.fuel }
        match step c s (.drop i) with
        | some s' =>
          let r := search c is s' evs pos (best.fuel - 1)
          if r.ok || r.pos > best.pos then r else { best with fuel := r.fuel }
        | none => best) direct
    if viaNotice.ok then viaNotice else
    -- a caller whose context ended retires its call
    let viaNotice := (is.filter fun i => s.ctxDone i != none && (s.reg i || s.got i) && s.res i == none).foldl (fun (best : SR) i =>
      if best.ok || best.fuel == 0 then best else
        match step c s (.retire i) with
        | some s' =>
          let r := search c is s' evs pos (best.fuel - 1)
          if r.ok || r.pos > best.pos then r else { best with fuel := r.fuel }
        | none => best) viaNotice
    if viaNotice.ok then viaNotice else
    -- time passes
    if e.t > s.now then
      match step c s (.tick (e.t - s.now)) with
      | some s' =>
        let r := search c is s' evs pos (viaNotice.fuel - 1)
        if r.ok || r.pos > viaNotice.pos then r else { viaNotice with fuel := r.fuel }
      | none => viaNotice
    else viaNotice

/-- Events of one virtual instant are logged by different goroutines racing for one mutex: the order of the log
among events of DIFFERENT calls within one instant is not causal.  Relaxed search: the events of the current
instant (`grp`, in log order) may be consumed in any order that keeps the order of the events of each call. -/
partial def searchR (c : Cfg) (is : List Nat) (s : St) (grp : List Ev) (rest : List Ev) (pos fuel : Nat) : SR :=
  if fuel == 0 then ⟨false, pos, 0⟩ else
  let s := settle c is s 8
  match grp, rest with
  | [], [] => ⟨true, pos, fuel⟩
  | [], e :: _ =>
    if e.t < s.now then ⟨false, pos, fuel - 1⟩ else
    if e.t == s.now then searchR c is s (rest.takeWhile fun x => x.t == e.t) (rest.dropWhile fun x => x.t == e.t) pos (fuel - 1) else
    -- before time passes: pending notices, retiring callers
    let inv := invisible c is s
    let viaInv := inv.foldl (fun (best : SR) s' =>
      if best.ok || best.fuel == 0 then best else
        let r := searchR c is s' [] rest pos (best.fuel - 1)
        if r.ok || r.pos > best.pos then r else { best with fuel := r.fuel }) ⟨false, pos, fuel - 1⟩
    if viaInv.ok then viaInv else
    match step c s (.tick (e.t - s.now)) with
    | some s' =>
      let r := searchR c is s' [] rest pos (viaInv.fuel - 1)
      if r.ok || r.pos > viaInv.pos then r else { viaInv with fuel := r.fuel }
    | none => viaInv
  | _ :: _, _ =>
    -- any event of the instant whose call has no earlier pending event
    let cands := grp.zipIdx.filter fun (e, k) => !(grp.take k).any fun x => x.i == e.i
    let direct := cands.foldl (fun (best : SR) (e, k) =>
      if best.ok || best.fuel == 0 then best else
        match visibleLabel e with
        | some l =>
          match step c s l with
          | some s' =>
            if s'.trace == s.trace ++ [e] then
              let r := searchR c is s' (grp.eraseIdx k) rest (pos + 1) (best.fuel - 1)
              if r.ok || r.pos > best.pos then r else { best with fuel := r.fuel }
            else best
          | none => best
        | none => best) ⟨false, pos, fuel - 1⟩
    if direct.ok then direct else
    (invisible c is s).foldl (fun (best : SR) s' =>
      if best.ok || best.fuel == 0 then best else
        let r := searchR c is s' grp rest pos (best.fuel - 1)
        if r.ok || r.pos > best.pos then r else { best with fuel := r.fuel }) direct
where
  /-- the states reachable by one invisible, non-eager label: a pending notice delivered without a visible effect
  or dropped, a caller retiring its call -/
  invisible (c : Cfg) (is : List Nat) (s : St) : List St :=
    is.flatMap fun i =>
      (if s.notice i == .pending then
        (match step c s (.notice i) with
          | some s' => if s'.trace == s.trace then [s'] else []
          | none => []) ++ (match step c s (.drop i) with | some s' => [s'] | none => [])
       else []) ++
      (match step c s (.retire i) with | some s' => [s'] | none => [])

/-- `none` = the log is the visible part of a run (first in log order, then up to the order of same-instant events
of different calls); `some k` = every attempt got stuck at or before event k. -/
def accept (c : Cfg) (evs : List Ev) : Option Nat :=
  -- a long log (a group of calls cancelled together) is accepted along an almost greedy path; the budget of a
  -- failing search is kept small there (every node costs time proportional to the length of the log)
  let big := evs.length > 60
  let r := search c (ids evs) init evs 0 (if big then 20000 else 200000)
  if r.ok then none else
  let r2 := searchR c (ids evs) init [] evs 0 (if big then 30000 else 300000)
  if r2.ok then none else some (max r.pos r2.pos)

/-- Each context ends at most once. -/
def canOnce (evs : List Ev) : Bool :=
  let cans := evs.filterMap fun e => match e.k with | .can _ => some e.i | _ => none
  cans.length == cans.eraseDups.length

/-! ## clause texts -/

def callName (st : DSt) (i : Nat) : String :=
  if i == followBase then "the follow-up call (client→server, before the release)"
  else if i == followBase + 1 then "the nested follow-up call (server→client, inside the carrier's handler)"
  else if i == followBase + 2 then "the last follow-up call (client→server, 6 s after everything returned)"
  else if i == followBase + 3 then "the follow-up call on the OTHER session (client→server, before the release)"
  else if i == followBase + 4 then "the last follow-up call on the OTHER session (client→server, 6 s after everything returned)"
  else match st.calls[i]? with
    | some k => if k.sess == 0 then s!"call {i} ({k.dir} {k.meth})" else s!"call {i} ({k.dir} {k.meth}, on the OTHER session: session {k.sess})"
    | none => s!"call {i}"

def timeOfK (evs : List Ev) (p : EvK → Bool) (i : Nat) : String :=
  match evs.find? fun e => e.i == i && p e.k with
  | some e => s!"{e.t} ms"
  | none => "-"

def clauseText (st : DSt) (c : Cfg) : Clause → String
  | .notPrompt i =>
    s!"C04: the context of {callName st i} ended at {timeOfK st.evs (fun k => match k with | .can _ => true | _ => false) i} but the call had not returned {promptBoundMs} ms of virtual time later (fault={st.fault}): a cancelled call must return promptly, even if the peer never answers and even if the cancellation notice cannot be delivered"
  | .wrongResult i =>
    let r := match st.evs.find? fun e => e.i == i && (match e.k with | .ret _ => true | _ => false) with
      | some ⟨.ret r, _, _⟩ => resText r
      | _ => "?"
    let cancelled := st.evs.any fun e => e.i == i && (match e.k with | .can _ => true | _ => false)
    if cancelled then
      s!"C04: {callName st i} returned {r}, which is neither the peer's result nor the error its own context ended with: a cancelled call returns the context's error"
    else if c.tr == .stateless && st.tr.contains 'p' then
      s!"C04: cancel-F1 2026-07-28 on a stateless streamable server: {callName st i}, whose context never ended, returned {r} after another call was cancelled (the cancel notice lacks the per-request _meta, is refused with 400, and the client treats that as a broken connection): the session must stay usable for further calls"
    else if st.tr == "fj" && (st.fault == "none" || st.fault == "late") then
      s!"C04: cancel-F2 streamable client, application/json response whose headers arrived before its body: {callName st i}, whose context never ended, returned {r} after call {st.victim} was cancelled while its response body was being read (the interrupted read is taken for a broken session): the session must stay usable for further calls and no other in-flight call may be affected by a cancellation"
    else
      s!"C04: {callName st i}, whose context never ended, returned {r} (transport {st.tr}, victim {st.victim}, what the transport did to the cancellation notice: {st.fault}): even if the cancellation notice cannot be delivered the session must stay usable for further calls and no other in-flight call may be affected by a cancellation"
  | .foreignResult i p =>
    s!"C04: {callName st i} returned the result of call {p}: a late response to an abandoned call must be discarded without effect"
  | .peerNotCancelled i =>
    s!"C04: {callName st i} returned its context's error at {timeOfK st.evs (fun k => match k with | .ret _ => true | _ => false) i}, the connection is healthy (transport {st.tr}, the route the request travelled still open, no fault injected), but the context of the peer's handler for exactly that request (started at {timeOfK st.evs (fun k => k == .beg) i}) was not cancelled within {promptBoundMs} ms of virtual time"
  | .otherCancelled j =>
    let cause := match st.causes.find? fun x => x.1 == j with
      | some (_, "s") => " (cause: the connection is shutting down)"
      | some (_, "c") => " (cause: context.Canceled)"
      | _ => ""
    s!"C04: the context of the handler of {callName st j} ended while it was running{cause} although the context of that call never ended (victim {st.victim}, fault={st.fault}): no other in-flight request may be cancelled"
  | .neverReturned i =>
    s!"C04: {callName st i} never returned although every handler was released and 20 s of virtual time passed"

def engine : Engine DSt where
  init := {}
  step st toks impl :=
    match toks with
    | ["reset"] => ({}, { model := "ok" })
    | "cfg" :: rest =>
      match kv rest "tr" with
      | some tr => ({ tr := tr, pv := (kv rest "pv").getD "", status := impl }, { model := "ok" })
      | none => (st, { model := "bad-op" })
    | "c" :: rest =>
      match kv rest "dir", kv rest "meth" with
      | some d, some m => ({ st with calls := st.calls ++ [{ dir := d, meth := m, sess := if kv rest "s" == some "1" then 1 else 0 }] }, { model := "ok" })
      | _, _ => ({ st with bad := true }, { model := "bad-op" })
    | "x" :: rest =>
      match (kv rest "victim").bind (·.toNat?), kv rest "fault" with
      | some v, some f => ({ st with victim := v, fault := f }, { model := "ok" })
      | _, _ => ({ st with bad := true }, { model := "bad-op" })
    | "e" :: rest =>
      match parseEv ("e" :: rest) impl with
      | some (e, a) =>
        ({ st with evs := st.evs ++ [e], causes := if e.k == .hc then st.causes ++ [(e.i, a)] else st.causes }, { model := impl })
      | none => ({ st with bad := true }, { model := "bad-record" })
    | ["end"] =>
      let o := words impl
      let echo (k : String) := s!"{k}={(kv o k).getD "?"}"
      if st.status != "ok" then (st, { model := "extra=0 stuck=0 " ++ echo "t" ++ " " ++ echo "stall" ++ " " ++ echo "reject" ++ " " ++ echo "fail" }) else
      let c := mkCfg st
      let broken := st.fault == "fail"
      let mc : MonCfg := ⟨c, broken⟩
      -- two sessions: the product of two pair models with a common clock (Cancel/Twin.lean).  By `run2_proj_left/right`
      -- the log of each session must be the visible part of a run of ITS pair model, and the monitor is evaluated on
      -- each session's log (`monitor_accepts_product`): nothing that happens on one session may show on the other.
      let evs0 := st.evs.filter fun e => sessOf st.calls e.i == 0
      let evs1 := st.evs.filter fun e => sessOf st.calls e.i != 0
      let rej :=
        if st.bad || !canOnce st.evs then " bad-log"
        else if broken then ""
        else match accept c evs0 with
          | some k => s!" rejected@{k}"
          | none =>
            if evs1.isEmpty then "" else
            match accept c evs1 with
            | none => ""
            | some k => s!" rejected@other-session:{k}"
      let v := match (mon mc evs0).or (mon { mc with broken := false } evs1) with
        | some cl => some (clauseText st c cl)
        | none =>
          match (monEnd mc evs0).or (monEnd { mc with broken := false } evs1) with
          | some cl => some (clauseText st c cl)
          | none =>
            if kv o "stuck" == some "1" && !broken then some "C04: some call never returned although every handler was released and 20 s of virtual time passed" else none
      let stuck := if broken then echo "stuck" else "stuck=0"
      let ch := if (kv o "closehung").isSome then " closehung=0" else ""
      let v := match v with
        | some x => some x
        | none => if kv o "closehung" == some "1" then some "C04+C05: the receiver's graceful Close, started before the caller cancelled, had not returned 6 s after every handler was released" else none
      (st, { model := s!"extra=0 {stuck} {echo "t"} {echo "stall"} {echo "reject"} {echo "fail"}{ch}{rej}", violated := v })
    | _ => (st, { model := "bad-op" })

end Cancel

def main : IO Unit := Proto.run Cancel.engine
