import McpModel.Cancel.Monitor
import McpModel.Cancel.Inv
/-!
# Clause soundness of the C04 monitor (engine `cancel`)

For every clause `x` of the monitor a predicate `P_x` on the observed event log, stated on the raw list of events
(membership, positions) — independently of the monitor's summary `MSt` and of the model — and a theorem
`sound_x`: whenever the monitor raises `x` on a log, `P_x` is false on that log.  So a `V` is always a violation
of the corresponding sentence of the property on what the implementation was seen doing.
-/
namespace Cancel

/-! ## what the summary of a log says about the log -/

theorem fold_some {α : Type} (π : MSt → Nat → Option α) (mk : Nat → α → Ev)
    (hstep : ∀ m a i v, π (mupd m a) i = some v → π m i = some v ∨ a = mk i v) :
    ∀ (tr : List Ev) (m0 : MSt) (i : Nat) (v : α), π (tr.foldl mupd m0) i = some v → π m0 i = some v ∨ mk i v ∈ tr := by
  intro tr
  induction tr with
  | nil => intro m0 i v h; exact Or.inl h
  | cons a tr ih =>
    intro m0 i v h
    rcases ih (mupd m0 a) i v h with h' | h'
    · rcases hstep m0 a i v h' with h'' | h''
      · exact Or.inl h''
      · exact Or.inr (by rw [h'']; exact List.mem_cons_self)
    · exact Or.inr (List.mem_cons_of_mem _ h')

theorem fold_none {α : Type} (π : MSt → Nat → Option α) (mk : Nat → α → Ev)
    (hstep : ∀ m a i, π (mupd m a) i = none → π m i = none ∧ ∀ v, a ≠ mk i v) :
    ∀ (tr : List Ev) (m0 : MSt) (i : Nat), π (tr.foldl mupd m0) i = none → π m0 i = none ∧ ∀ v, mk i v ∉ tr := by
  intro tr
  induction tr with
  | nil => intro m0 i h; exact ⟨h, fun v hv => by cases hv⟩
  | cons a tr ih =>
    intro m0 i h
    obtain ⟨h1, h2⟩ := ih (mupd m0 a) i h
    obtain ⟨h3, h4⟩ := hstep m0 a i h1
    refine ⟨h3, fun v hv => ?_⟩
    rcases List.mem_cons.mp hv with hv | hv
    · exact h4 v hv.symm
    · exact h2 v hv

theorem ev_ext {a : Ev} {k : EvK} {i t : Nat} (hk : a.k = k) (hi : a.i = i) (ht : a.t = t) : a = ⟨k, i, t⟩ := by
  cases a; simp_all

/-- one lemma pair per slot: `some` gives an event of the log, `none` excludes every such event -/
theorem snd_some (tr : List Ev) (i t : Nat) (h : (summ tr).snd i = some t) : ⟨.snd, i, t⟩ ∈ tr := by
  have := fold_some (fun m => m.snd) (fun i t => ⟨.snd, i, t⟩) (by
    intro m a i v h
    unfold mupd at h
    cases hk : a.k <;> simp only [hk] at h <;> try exact Or.inl h
    rcases setFirst_some _ _ _ _ _ h with h | ⟨h1, _, h3⟩
    · exact Or.inl h
    · exact Or.inr (ev_ext hk h1.symm h3.symm)) tr {} i t h
  rcases this with h | h
  · cases h
  · exact h

theorem beg_some (tr : List Ev) (i t : Nat) (h : (summ tr).beg i = some t) : ⟨.beg, i, t⟩ ∈ tr := by
  have := fold_some (fun m => m.beg) (fun i t => ⟨.beg, i, t⟩) (by
    intro m a i v h
    unfold mupd at h
    cases hk : a.k <;> simp only [hk] at h <;> try exact Or.inl h
    rcases setFirst_some _ _ _ _ _ h with h | ⟨h1, _, h3⟩
    · exact Or.inl h
    · exact Or.inr (ev_ext hk h1.symm h3.symm)) tr {} i t h
  rcases this with h | h
  · cases h
  · exact h

theorem can_some (tr : List Ev) (i t : Nat) (dl : Bool) (h : (summ tr).can i = some (t, dl)) : ⟨.can dl, i, t⟩ ∈ tr := by
  have := fold_some (fun m => m.can) (fun i (x : Nat × Bool) => ⟨.can x.2, i, x.1⟩) (by
    intro m a i v h
    unfold mupd at h
    cases hk : a.k <;> simp only [hk] at h <;> try exact Or.inl h
    rcases setFirst_some _ _ _ _ _ h with h | ⟨h1, _, h3⟩
    · exact Or.inl h
    · right; subst h3; exact ev_ext hk h1.symm rfl) tr {} i (t, dl) h
  rcases this with h | h
  · cases h
  · exact h

theorem ret_some (tr : List Ev) (i t : Nat) (r : Res) (h : (summ tr).ret i = some (t, r)) : ⟨.ret r, i, t⟩ ∈ tr := by
  have := fold_some (fun m => m.ret) (fun i (x : Nat × Res) => ⟨.ret x.2, i, x.1⟩) (by
    intro m a i v h
    unfold mupd at h
    cases hk : a.k <;> simp only [hk] at h <;> try exact Or.inl h
    rcases setFirst_some _ _ _ _ _ h with h | ⟨h1, _, h3⟩
    · exact Or.inl h
    · right; subst h3; exact ev_ext hk h1.symm rfl) tr {} i (t, r) h
  rcases this with h | h
  · cases h
  · exact h

theorem ret_none (tr : List Ev) (i : Nat) (h : (summ tr).ret i = none) : ∀ r t, (⟨.ret r, i, t⟩ : Ev) ∉ tr := by
  have := (fold_none (fun m => m.ret) (fun i (x : Nat × Res) => ⟨.ret x.2, i, x.1⟩) (by
    intro m a i h
    unfold mupd at h
    cases hk : a.k <;> simp only [hk] at h <;> try exact ⟨h, fun v hv => by rw [hv] at hk; cases hk⟩
    obtain ⟨h1, h2⟩ := setFirst_eq_none _ _ _ _ h
    exact ⟨h1, fun v hv => h2 (by rw [hv])⟩) tr {} i h).2
  intro r t
  exact this (t, r)

theorem hc_none (tr : List Ev) (i : Nat) (h : (summ tr).hc i = none) : ∀ t, (⟨.hc, i, t⟩ : Ev) ∉ tr := by
  exact (fold_none (fun m => m.hc) (fun i t => ⟨.hc, i, t⟩) (by
    intro m a i h
    unfold mupd at h
    cases hk : a.k <;> simp only [hk] at h <;> try exact ⟨h, fun v hv => by rw [hv] at hk; cases hk⟩
    obtain ⟨h1, h2⟩ := setFirst_eq_none _ _ _ _ h
    exact ⟨h1, fun v hv => h2 (by rw [hv])⟩) tr {} i h).2

theorem fin_none (tr : List Ev) (i : Nat) (h : (summ tr).fin i = none) : ∀ t, (⟨.fin, i, t⟩ : Ev) ∉ tr := by
  exact (fold_none (fun m => m.fin) (fun i t => ⟨.fin, i, t⟩) (by
    intro m a i h
    unfold mupd at h
    cases hk : a.k <;> simp only [hk] at h <;> try exact ⟨h, fun v hv => by rw [hv] at hk; cases hk⟩
    obtain ⟨h1, h2⟩ := setFirst_eq_none _ _ _ _ h
    exact ⟨h1, fun v hv => h2 (by rw [hv])⟩) tr {} i h).2

theorem can_none (tr : List Ev) (i : Nat) (h : (summ tr).can i = none) : ∀ dl t, (⟨.can dl, i, t⟩ : Ev) ∉ tr := by
  have := (fold_none (fun m => m.can) (fun i (x : Nat × Bool) => ⟨.can x.2, i, x.1⟩) (by
    intro m a i h
    unfold mupd at h
    cases hk : a.k <;> simp only [hk] at h <;> try exact ⟨h, fun v hv => by rw [hv] at hk; cases hk⟩
    obtain ⟨h1, h2⟩ := setFirst_eq_none _ _ _ _ h
    exact ⟨h1, fun v hv => h2 (by rw [hv])⟩) tr {} i h).2
  intro dl t
  exact this (t, dl)

/-- An event that closes the response stream of request p: its handler finished, or its caller's context ended. -/
def Closes (a : Ev) (p : Nat) : Prop := a.i = p ∧ (a.k = .fin ∨ ∃ dl, a.k = .can dl)

theorem setMin_same_le (f : Nat → Option Nat) (i v y : Nat) (h : setMin f i v i = some y) : y ≤ v := by
  unfold setMin at h
  cases hf : f i with
  | none => simp [hf] at h; omega
  | some x => simp only [if_true, hf] at h; injection h with h; omega

/-- what one event does to the slot `closed p` -/
theorem closed_step (m0 : MSt) (b : Ev) (p : Nat) :
    (∀ y, (mupd m0 b).closed p = some y → (∀ x0, m0.closed p = some x0 → y ≤ x0) ∧ (Closes b p → y ≤ b.t)) ∧
    ((mupd m0 b).closed p = none → m0.closed p = none ∧ ¬ Closes b p) := by
  have key : ∀ (f : Nat → Option Nat), (∀ y, setMin f b.i b.t p = some y → (∀ x0, f p = some x0 → y ≤ x0) ∧ (b.i = p → y ≤ b.t)) ∧
      (setMin f b.i b.t p = none → f p = none ∧ b.i ≠ p) := by
    intro f
    refine ⟨fun y hy => ⟨fun x0 h0 => ?_, fun hi => ?_⟩, fun hn => ?_⟩
    · obtain ⟨z, hz, hle⟩ := setMin_le f b.i p b.t x0 h0
      rw [hy] at hz; injection hz with hz; omega
    · subst hi; exact setMin_same_le f _ _ _ hy
    · obtain ⟨h1, h2⟩ := setMin_eq_none _ _ _ _ hn
      exact ⟨h1, fun h => h2 h.symm⟩
  unfold mupd Closes
  cases hk : b.k
  case fin =>
    obtain ⟨k1, k2⟩ := key m0.closed
    exact ⟨fun y hy => ⟨(k1 y hy).1, fun ⟨hi, _⟩ => (k1 y hy).2 hi⟩, fun hn => ⟨(k2 hn).1, fun ⟨hi, _⟩ => (k2 hn).2 hi⟩⟩
  case can dl =>
    obtain ⟨k1, k2⟩ := key m0.closed
    exact ⟨fun y hy => ⟨(k1 y hy).1, fun ⟨hi, _⟩ => (k1 y hy).2 hi⟩, fun hn => ⟨(k2 hn).1, fun ⟨hi, _⟩ => (k2 hn).2 hi⟩⟩
  all_goals
    exact ⟨fun y hy => ⟨fun x0 h0 => by rw [hy] at h0; injection h0 with h0; omega,
                        fun ⟨_, hc⟩ => by rcases hc with hc | ⟨dl, hc⟩ <;> cases hc⟩,
           fun hn => ⟨hn, fun ⟨_, hc⟩ => by rcases hc with hc | ⟨dl, hc⟩ <;> cases hc⟩⟩

/-- `closed p` is a lower bound of the times of all closing events of p (and absent only if there is none). -/
theorem closed_bound (tr : List Ev) (m0 : MSt) (p : Nat) :
    (∀ x, (tr.foldl mupd m0).closed p = some x → (∀ x0, m0.closed p = some x0 → x ≤ x0) ∧ ∀ a, a ∈ tr → Closes a p → x ≤ a.t) ∧
    ((tr.foldl mupd m0).closed p = none → m0.closed p = none ∧ ∀ a, a ∈ tr → ¬ Closes a p) := by
  induction tr generalizing m0 with
  | nil =>
    refine ⟨fun x h => ⟨fun x0 h0 => ?_, fun a ha => by cases ha⟩, fun h => ⟨h, fun a ha => by cases ha⟩⟩
    simp only [List.foldl_nil] at h
    rw [h] at h0; injection h0 with h0; omega
  | cons b tr ih =>
    obtain ⟨ih1, ih2⟩ := ih (mupd m0 b)
    have hstep := closed_step m0 b p
    constructor
    · intro x hx
      obtain ⟨h1, h2⟩ := ih1 x hx
      cases hm : (mupd m0 b).closed p with
      | none =>
        obtain ⟨s1, s2⟩ := hstep.2 hm
        refine ⟨fun x0 h0 => ?_, fun a ha hc => ?_⟩
        · rw [s1] at h0; cases h0
        rcases List.mem_cons.mp ha with ha | ha
        · subst ha; exact absurd hc s2
        · exact h2 a ha hc
      | some y =>
        obtain ⟨s1, s2⟩ := hstep.1 y hm
        refine ⟨fun x0 h0 => ?_, fun a ha hc => ?_⟩
        · have := h1 y hm; have := s1 x0 h0; omega
        · rcases List.mem_cons.mp ha with ha | ha
          · subst ha; have := h1 y hm; have := s2 hc; omega
          · exact h2 a ha hc
    · intro hn
      obtain ⟨h1, h2⟩ := ih2 hn
      obtain ⟨s1, s2⟩ := hstep.2 h1
      refine ⟨s1, fun a ha hc => ?_⟩
      rcases List.mem_cons.mp ha with ha | ha
      · subst ha; exact s2 hc
      · exact h2 a ha hc

/-! ## where a clause fires -/

theorem scan_fires (mc : MonCfg) (tr : List Ev) (m0 : MSt) (cl : Clause) (h : scan mc m0 tr = some cl) :
    ∃ pre e post, tr = pre ++ e :: post ∧ checkAt mc (pre.foldl mupd m0) e = some cl := by
  induction tr generalizing m0 with
  | nil => cases h
  | cons a tr ih =>
    simp only [scan] at h
    cases hc : checkAt mc m0 a with
    | some c' =>
      rw [hc] at h
      injection h with h
      exact ⟨[], a, tr, rfl, by rw [← h]; exact hc⟩
    | none =>
      rw [hc] at h
      obtain ⟨pre, e, post, h1, h2⟩ := ih (mupd m0 a) h
      exact ⟨a :: pre, e, post, by rw [h1]; rfl, h2⟩

theorem mon_fires (mc : MonCfg) (tr : List Ev) (cl : Clause) (h : mon mc tr = some cl) :
    ∃ pre e post, tr = pre ++ e :: post ∧ checkAt mc (summ pre) e = some cl :=
  scan_fires mc tr {} cl h

theorem find_range {n : Nat} {p : Nat → Bool} {i : Nat} (h : (List.range n).find? p = some i) : i < n ∧ p i = true := by
  have := List.find?_some h
  exact ⟨List.mem_range.mp (List.mem_of_find?_eq_some h), this⟩

/-! ## what each check can raise -/

theorem checkAt_cases {mc : MonCfg} {m : MSt} {e : Ev} {cl : Clause} (h : checkAt mc m e = some cl) :
    evCheck mc m e = some cl ∨ timeCheck mc m e.t = some cl := by
  unfold checkAt at h
  cases he : evCheck mc m e with
  | some c' => rw [he] at h; exact Or.inl h
  | none => rw [he] at h; exact Or.inr h

theorem timeCheck_cases {mc : MonCfg} {m : MSt} {now : Nat} {cl : Clause} (h : timeCheck mc m now = some cl) :
    (∃ i, cl = .notPrompt i ∧ i < mc.c.n ∧ lateCaller m now i = true) ∨
    (∃ i, cl = .peerNotCancelled i ∧ i < mc.c.n ∧ latePeer mc.c m now i = true) := by
  unfold timeCheck at h
  cases hf : (List.range mc.c.n).find? (lateCaller m now) with
  | some j =>
    rw [hf] at h
    injection h with h
    exact Or.inl ⟨j, h.symm, find_range hf⟩
  | none =>
    rw [hf] at h
    simp only at h
    cases hb : mc.broken with
    | true => rw [hb] at h; simp at h
    | false =>
      rw [hb] at h
      simp only [Bool.false_eq_true, if_false] at h
      cases hg : (List.range mc.c.n).find? (latePeer mc.c m now) with
      | none => rw [hg] at h; cases h
      | some j =>
        rw [hg] at h
        injection h with h
        exact Or.inr ⟨j, h.symm, find_range hg⟩

theorem evCheck_cases {mc : MonCfg} {m : MSt} {e : Ev} {cl : Clause} (h : evCheck mc m e = some cl) :
    (cl = .otherCancelled e.i ∧ e.k = .hc ∧ m.can e.i = none) ∨
    (∃ p, cl = .foreignResult e.i p ∧ e.k = .ret (.ok (some p)) ∧ p ≠ e.i) ∨
    (cl = .wrongResult e.i ∧
      ((∃ dl, e.k = .ret (.ctx dl) ∧ (m.can e.i = none ∨ ∃ t dl', m.can e.i = some (t, dl') ∧ dl ≠ dl')) ∨
       ∃ k, e.k = .ret (.other k))) := by
  unfold evCheck at h
  cases hk : e.k with
  | snd => simp [hk] at h
  | beg => simp [hk] at h
  | fin => simp [hk] at h
  | can dl => simp [hk] at h
  | hc =>
    simp only [hk] at h
    by_cases hc : (m.can e.i = none && !mc.broken) = true
    · rw [if_pos hc] at h
      injection h with h
      simp only [Bool.and_eq_true, decide_eq_true_eq] at hc
      exact Or.inl ⟨h.symm, rfl, hc.1⟩
    · rw [if_neg hc] at h; cases h
  | ret r =>
    simp only [hk] at h
    cases r with
    | ok q =>
      cases q with
      | none => simp at h
      | some q =>
        simp only at h
        by_cases hq : q = e.i
        · rw [if_pos hq] at h; cases h
        · rw [if_neg hq] at h
          injection h with h
          exact Or.inr (Or.inl ⟨q, h.symm, rfl, hq⟩)
    | ctx dl =>
      simp only at h
      cases hc : m.can e.i with
      | none =>
        rw [hc] at h
        simp only at h
        split at h
        · cases h
        · injection h with h
          exact Or.inr (Or.inr ⟨h.symm, Or.inl ⟨dl, rfl, Or.inl rfl⟩⟩)
      | some x =>
        obtain ⟨t, dl'⟩ := x
        rw [hc] at h
        simp only at h
        by_cases hd : dl = dl'
        · rw [if_pos hd] at h; cases h
        · rw [if_neg hd] at h
          injection h with h
          exact Or.inr (Or.inr ⟨h.symm, Or.inl ⟨dl, rfl, Or.inr ⟨t, dl', rfl, hd⟩⟩⟩)
    | other k =>
      simp only at h
      split at h
      · cases h
      · injection h with h
        exact Or.inr (Or.inr ⟨h.symm, Or.inr ⟨k, rfl⟩⟩)

/-! ## the property, clause by clause, on the observed log -/

/-- "Cancelling the context of an in-flight call makes the call return promptly … even if the peer never answers and
even if the cancellation notice itself cannot be delivered": whenever something is observed more than
`promptBoundMs` after call i was issued and its context had ended, call i has returned before. -/
def P_prompt (n : Nat) (tr : List Ev) : Prop :=
  ∀ pre e post, tr = pre ++ e :: post → ∀ i ts tc dl, i < n → (⟨.snd, i, ts⟩ : Ev) ∈ pre → (⟨.can dl, i, tc⟩ : Ev) ∈ pre →
    max ts tc + promptBoundMs < e.t → ∃ r t, (⟨.ret r, i, t⟩ : Ev) ∈ pre

theorem sound_notPrompt (mc : MonCfg) (tr : List Ev) (i : Nat) (h : mon mc tr = some (.notPrompt i)) :
    ¬ P_prompt mc.c.n tr := by
  obtain ⟨pre, e, post, htr, hc⟩ := mon_fires mc tr _ h
  intro hP
  rcases checkAt_cases hc with he | ht
  · rcases evCheck_cases he with ⟨h1, _⟩ | ⟨p, h1, _⟩ | ⟨h1, _⟩ <;> cases h1
  · rcases timeCheck_cases ht with ⟨j, h1, hj, hl⟩ | ⟨j, h1, _⟩
    · injection h1 with h1; subst h1
      unfold lateCaller at hl
      cases hs : (summ pre).snd i with
      | none => simp [hs] at hl
      | some ts =>
        cases hcn : (summ pre).can i with
        | none => simp [hs, hcn] at hl
        | some x =>
          obtain ⟨tc, dl⟩ := x
          cases hr : (summ pre).ret i with
          | some r => simp [hs, hcn, hr] at hl
          | none =>
            simp only [hs, hcn, hr, decide_eq_true_eq] at hl
            obtain ⟨r, t, hmem⟩ := hP pre e post htr i ts tc dl hj (snd_some pre i ts hs) (can_some pre i tc dl hcn) hl
            exact ret_none pre i hr r t hmem
    · cases h1

/-- The route the request of call i travelled is still there at time t, on the raw log: every event that closes
the response stream of the enclosing request p (its handler finished, its caller's context ended) is later than t. -/
def RouteOpenP (c : Cfg) (pre : List Ev) (i t : Nat) : Prop :=
  match callRoute c i with
  | .reqStream p => ∀ a, a ∈ pre → Closes a p → t < a.t
  | .standalone => c.standalone = true
  | _ => True

theorem routeOpenP_of (c : Cfg) (pre : List Ev) (i t : Nat) (h : routeOpen c (summ pre) i t = true) : RouteOpenP c pre i t := by
  unfold routeOpen at h
  unfold RouteOpenP
  cases hr : callRoute c i with
  | conn => trivial
  | oneShot k => trivial
  | standalone => simpa [hr] using h
  | reqStream p =>
    simp only [hr] at h ⊢
    intro a ha hc
    obtain ⟨b1, b2⟩ := closed_bound pre {} p
    cases hx : (summ pre).closed p with
    | none => exact absurd hc ((b2 hx).2 a ha)
    | some x =>
      have := (b1 x hx).2 a ha hc
      rw [hx] at h
      simp only [optAll, decide_eq_true_eq] at h
      omega

/-- "While the connection is healthy, [cancelling] causes the context of the peer's handler for exactly that request
to be cancelled": whenever something is observed more than `promptBoundMs` after call i returned its context's
error and the peer's handler for it had started — request and notice served by the same connection of the peer,
the notice not faulted by the transport, the route of the request still open when the caller returned — the
handler has seen its context end, or has finished, before. -/
def P_peer (c : Cfg) (tr : List Ev) : Prop :=
  ∀ pre e post, tr = pre ++ e :: post → ∀ i tr_ dl tb, i < c.n → (⟨.ret (.ctx dl), i, tr_⟩ : Ev) ∈ pre → (⟨.beg, i, tb⟩ : Ev) ∈ pre →
    expected c i = true → (c.info i).fault = false → RouteOpenP c pre i tr_ → max tr_ tb + promptBoundMs < e.t →
    (∃ t, (⟨.hc, i, t⟩ : Ev) ∈ pre) ∨ (∃ t, (⟨.fin, i, t⟩ : Ev) ∈ pre)

theorem sound_peerNotCancelled (mc : MonCfg) (tr : List Ev) (i : Nat) (h : mon mc tr = some (.peerNotCancelled i)) :
    ¬ P_peer mc.c tr := by
  obtain ⟨pre, e, post, htr, hc⟩ := mon_fires mc tr _ h
  intro hP
  rcases checkAt_cases hc with he | ht
  · rcases evCheck_cases he with ⟨h1, _⟩ | ⟨p, h1, _⟩ | ⟨h1, _⟩ <;> cases h1
  · rcases timeCheck_cases ht with ⟨j, h1, _⟩ | ⟨j, h1, hj, hl⟩
    · cases h1
    · injection h1 with h1; subst h1
      unfold latePeer at hl
      cases hr : (summ pre).ret i with
      | none => simp [hr] at hl
      | some x =>
        obtain ⟨t_, r⟩ := x
        cases r with
        | ok p => simp [hr] at hl
        | other k => simp [hr] at hl
        | ctx dl =>
          cases hb : (summ pre).beg i with
          | none => simp [hr, hb] at hl
          | some tb =>
            cases hh : (summ pre).hc i with
            | some x => simp [hr, hb, hh] at hl
            | none =>
              cases hfn : (summ pre).fin i with
              | some x => simp [hr, hb, hh, hfn] at hl
              | none =>
                simp only [hr, hb, hh, hfn, Bool.and_eq_true, Bool.not_eq_true', decide_eq_true_eq] at hl
                obtain ⟨⟨⟨hex, hfa⟩, hro⟩, hlt⟩ := hl
                rcases hP pre e post htr i t_ dl tb hj (ret_some pre i t_ _ hr) (beg_some pre i tb hb) hex hfa
                    (routeOpenP_of mc.c pre i t_ hro) hlt with ⟨t, hm⟩ | ⟨t, hm⟩
                · exact hc_none pre i hh t hm
                · exact fin_none pre i hfn t hm

/-- "No other in-flight request is cancelled": the context of a handler ends, while the handler runs, only after
the context of that very call ended. -/
def P_other (tr : List Ev) : Prop :=
  ∀ pre e post, tr = pre ++ e :: post → e.k = .hc → ∃ dl t, (⟨.can dl, e.i, t⟩ : Ev) ∈ pre

theorem sound_otherCancelled (mc : MonCfg) (tr : List Ev) (j : Nat) (h : mon mc tr = some (.otherCancelled j)) :
    ¬ P_other tr := by
  obtain ⟨pre, e, post, htr, hc⟩ := mon_fires mc tr _ h
  intro hP
  rcases checkAt_cases hc with he | ht
  · rcases evCheck_cases he with ⟨_, hk, hn⟩ | ⟨p, h1, _⟩ | ⟨h1, _⟩
    · obtain ⟨dl, t, hm⟩ := hP pre e post htr hk
      exact can_none pre e.i hn dl t hm
    · cases h1
    · cases h1
  · rcases timeCheck_cases ht with ⟨j, h1, _⟩ | ⟨j, h1, _⟩ <;> cases h1

/-- Each context ends at most once, with one error (what `can` records). -/
def CanOnce (tr : List Ev) : Prop :=
  ∀ i dl dl' t t', (⟨.can dl, i, t⟩ : Ev) ∈ tr → (⟨.can dl', i, t'⟩ : Ev) ∈ tr → dl = dl'

/-- "… makes the call return … with the context's error", "the session stays usable for further calls", "a late
response … is discarded without effect": whatever a call returns is the peer's result for that very call (a result
without payload tag, or the tag of this call) or the error with which its own context had ended before. -/
def P_result (tr : List Ev) : Prop :=
  ∀ pre e post r, tr = pre ++ e :: post → e.k = .ret r →
    r = .ok none ∨ r = .ok (some e.i) ∨ ∃ dl t, r = .ctx dl ∧ (⟨.can dl, e.i, t⟩ : Ev) ∈ pre

theorem sound_foreignResult (mc : MonCfg) (tr : List Ev) (i p : Nat) (h : mon mc tr = some (.foreignResult i p)) :
    ¬ P_result tr := by
  obtain ⟨pre, e, post, htr, hc⟩ := mon_fires mc tr _ h
  intro hP
  rcases checkAt_cases hc with he | ht
  · rcases evCheck_cases he with ⟨h1, _⟩ | ⟨q, _, hk, hne⟩ | ⟨h1, _⟩
    · cases h1
    · rcases hP pre e post _ htr hk with h' | h' | ⟨dl, t, h', _⟩
      · cases h'
      · injection h' with h'; injection h' with h'; exact hne h'
      · cases h'
    · cases h1
  · rcases timeCheck_cases ht with ⟨j, h1, _⟩ | ⟨j, h1, _⟩ <;> cases h1

theorem sound_wrongResult (mc : MonCfg) (tr : List Ev) (i : Nat) (hco : CanOnce tr) (h : mon mc tr = some (.wrongResult i)) :
    ¬ P_result tr := by
  obtain ⟨pre, e, post, htr, hc⟩ := mon_fires mc tr _ h
  intro hP
  have hsub : ∀ a, a ∈ pre → a ∈ tr := fun a ha => by rw [htr]; exact List.mem_append_left _ ha
  rcases checkAt_cases hc with he | ht
  · rcases evCheck_cases he with ⟨h1, _⟩ | ⟨q, h1, _⟩ | ⟨_, hw⟩
    · cases h1
    · cases h1
    · rcases hw with ⟨dl, hk, hcan⟩ | ⟨k, hk⟩
      · rcases hP pre e post _ htr hk with h' | h' | ⟨dl', t, h', hm⟩
        · cases h'
        · cases h'
        · injection h' with h'; subst h'
          rcases hcan with hn | ⟨t0, dl0, hs, hne⟩
          · exact can_none pre e.i hn dl t hm
          · exact hne (hco e.i dl dl0 t t0 (hsub _ hm) (hsub _ (can_some pre e.i t0 dl0 hs)))
      · rcases hP pre e post _ htr hk with h' | h' | ⟨dl', t, h', _⟩ <;> cases h'
  · rcases timeCheck_cases ht with ⟨j, h1, _⟩ | ⟨j, h1, _⟩ <;> cases h1

/-- The hypothesis `CanOnce` of `sound_wrongResult` is needed (the monitor compares with the FIRST `can` of the
call): on a log in which one context "ends twice" with different errors the clause fires although `P_result` holds. -/
theorem canOnce_needed :
    mon ⟨{ n := 1 }, false⟩ [⟨.can false, 0, 1⟩, ⟨.can true, 0, 1⟩, ⟨.ret (.ctx true), 0, 1⟩] = some (.wrongResult 0) ∧
    P_result [⟨.can false, 0, 1⟩, ⟨.can true, 0, 1⟩, ⟨.ret (.ctx true), 0, 1⟩] := by
  refine ⟨by decide, ?_⟩
  intro pre e post r htr hk
  match pre, htr with
  | [], htr => injection htr with h1 _; subst h1; cases hk
  | [_], htr => injection htr with _ h2; injection h2 with h2 _; subst h2; cases hk
  | [a, b], htr =>
    injection htr with h1 h2; injection h2 with h2 h3; injection h3 with h3 _
    subst h1 h2 h3
    injection hk with hk; subst hk
    exact Or.inr (Or.inr ⟨true, 1, rfl, by simp⟩)
  | _ :: _ :: _ :: pre', htr =>
    exfalso
    have := congrArg List.length htr
    simp at this

/-- … and it is satisfiable: a log with one `can` per call. -/
example : CanOnce [⟨.snd, 0, 0⟩, ⟨.can false, 0, 1⟩, ⟨.ret (.ctx false), 0, 1⟩] := by
  intro i dl dl' t t' h1 h2
  simp at h1 h2
  rw [h1.1, h2.1]

/-- End of the case, every handler released: every call that was issued has returned. -/
def P_returned (n : Nat) (tr : List Ev) : Prop :=
  ∀ i t, i < n → (⟨.snd, i, t⟩ : Ev) ∈ tr → ∃ r t', (⟨.ret r, i, t'⟩ : Ev) ∈ tr

theorem sound_neverReturned (mc : MonCfg) (tr : List Ev) (i : Nat) (h : monEnd mc tr = some (.neverReturned i)) :
    ¬ P_returned mc.c.n tr := by
  intro hP
  unfold monEnd at h
  split at h
  · cases h
  simp only at h
  cases hf : (List.range mc.c.n).find? (fun i => ((summ tr).snd i).isSome && ((summ tr).ret i).isNone) with
  | none => rw [hf] at h; cases h
  | some j =>
    rw [hf] at h
    injection h with h; injection h with h; subst h
    obtain ⟨hj, hp⟩ := find_range hf
    simp only [Bool.and_eq_true, Option.isNone_iff_eq_none] at hp
    obtain ⟨hs, hr⟩ := hp
    cases hsn : (summ tr).snd j with
    | none => rw [hsn] at hs; cases hs
    | some ts =>
      obtain ⟨r, t', hm⟩ := hP j ts hj (snd_some tr j ts hsn)
      exact ret_none tr j hr r t' hm

end Cancel
