import McpModel.SseClient.Props
import McpModel.SseClient.Monitor
/-!
# Bridge, part 1: the scanner on ANY byte prefix of a well-formed stream = the monitor's ground truth

The model runs Wire's scanner over the bytes received so far (`scanFed (full.take fed)`); the monitor counts
which framed events lie completely within those bytes (`completeN`).  For every stream of well-formed
lines and EVERY offset `fed` — in the middle of a line, between CR and LF, anywhere — the events the
scanner has dispatched are exactly the meanings of the completely received framed events (those that
denote anything), and it has met no malformed line.
-/
namespace SseClient
open Wire Wire.L

/-! ### lines within a byte prefix -/

/-- how many leading lines (with their line ends) lie within the first `n` bytes -/
def linesWithin : List (Bytes × Eol) → Nat → Nat
  | [], _ => 0
  | p :: t, n =>
    let len := p.1.length + p.2.bytes.length
    if len ≤ n then linesWithin t (n - len) + 1 else 0

theorem renderLines_length (L : List (Bytes × Eol)) :
    (renderLines L).length = (L.map (fun p => p.1.length + p.2.bytes.length)).sum := by
  induction L with
  | nil => rfl
  | cons p t ih => obtain ⟨l, e⟩ := p; simp [renderLines, ih, Nat.add_assoc]

theorem renderLines_append (x y : List (Bytes × Eol)) : renderLines (x ++ y) = renderLines x ++ renderLines y := by
  induction x with
  | nil => rfl
  | cons p x ih => obtain ⟨l, e⟩ := p; simp [renderLines, ih]

theorem splitLines_noLF (bs : Bytes) (h : LF ∉ bs) : splitLines bs = ([], bs) := by
  induction bs with
  | nil => rfl
  | cons b t ih =>
    have hb : b ≠ LF := fun e => h (by simp [e])
    have ht : LF ∉ t := fun e => h (by simp [e])
    simp [splitLines, ih ht, hb]

theorem eol_bytes_eq (e : Eol) : e.bytes = e.cr ++ [LF] := by cases e <;> rfl

theorem eol_len (e : Eol) : e.bytes.length = e.cr.length + 1 := by cases e <;> rfl

/-- **the complete lines of a byte prefix**: splitting the first `n` bytes of rendered lines at LF gives
exactly the lines that lie within those bytes (those written with CRLF still carrying their CR) -/
theorem splitLines_take (L : List (Bytes × Eol)) (n : Nat) (h : ∀ p ∈ L, LF ∉ p.1) :
    (splitLines ((renderLines L).take n)).1 = (L.take (linesWithin L n)).map (fun p => p.1 ++ p.2.cr) := by
  induction L generalizing n with
  | nil => simp [renderLines, linesWithin, splitLines]
  | cons p t ih =>
    obtain ⟨l, e⟩ := p
    have hl : LF ∉ l := h (l, e) (by simp)
    have ht : ∀ q ∈ t, LF ∉ q.1 := fun q hq => h q (by simp [hq])
    have hlc : LF ∉ l ++ e.cr := noLF_cr l e hl
    have hr : renderLines ((l, e) :: t) = (l ++ e.cr) ++ LF :: renderLines t := by
      simp only [renderLines]; exact line_eol l e _
    simp only [linesWithin]
    by_cases hn : l.length + e.bytes.length ≤ n
    · simp only [hn, ite_true, List.take_succ_cons, List.map_cons]
      have hlen : (l ++ e.cr).length + 1 ≤ n := by
        simp only [List.length_append]; have := eol_len e; omega
      have htk : (renderLines ((l, e) :: t)).take n =
          (l ++ e.cr) ++ LF :: (renderLines t).take (n - (l.length + e.bytes.length)) := by
        rw [hr, List.take_append]
        have h1 : List.take n (l ++ e.cr) = l ++ e.cr := List.take_of_length_le (by omega)
        rw [h1]
        have h2 : n - (l ++ e.cr).length = (n - (l.length + e.bytes.length)) + 1 := by
          simp only [List.length_append]; have := eol_len e; omega
        rw [h2, List.take_succ_cons]
      rw [htk, splitLines_line _ _ hlc, ih _ ht]
    · simp only [hn, ite_false, List.take_zero, List.map_nil]
      have hpre : (renderLines ((l, e) :: t)).take n = (l ++ e.cr).take n := by
        rw [hr, List.take_append]
        have : n - (l ++ e.cr).length = 0 := by
          simp only [List.length_append]; have := eol_len e; omega
        rw [this]; simp
      rw [hpre, splitLines_noLF]
      intro hm
      exact hlc (List.mem_of_mem_take hm)

/-! ### framed events within a byte prefix -/

def feLen (e : FEvent) : Nat := (renderLines e.render).length

/-- how many leading framed events lie completely within the first `n` bytes -/
def completeE : List FEvent → Nat → Nat
  | [], _ => 0
  | e :: t, n => if feLen e ≤ n then completeE t (n - feLen e) + 1 else 0

theorem linesWithin_append_ge (A B : List (Bytes × Eol)) (n : Nat) (h : (renderLines A).length ≤ n) :
    linesWithin (A ++ B) n = A.length + linesWithin B (n - (renderLines A).length) := by
  induction A generalizing n with
  | nil => simp [renderLines]
  | cons p t ih =>
    obtain ⟨l, e⟩ := p
    have hlen : (renderLines ((l, e) :: t)).length = l.length + e.bytes.length + (renderLines t).length := by
      simp [renderLines, Nat.add_assoc]
    rw [hlen] at h
    have h1 : l.length + e.bytes.length ≤ n := by omega
    simp only [List.cons_append, linesWithin, h1, ite_true, List.length_cons]
    rw [ih _ (by omega), hlen]
    have : n - (l.length + e.bytes.length) - (renderLines t).length = n - (l.length + e.bytes.length + (renderLines t).length) := by omega
    rw [this]; omega

theorem linesWithin_append_lt (A B : List (Bytes × Eol)) (n : Nat) (h : n < (renderLines A).length) :
    linesWithin (A ++ B) n = linesWithin A n ∧ linesWithin A n < A.length := by
  induction A generalizing n with
  | nil => simp [renderLines] at h
  | cons p t ih =>
    obtain ⟨l, e⟩ := p
    have hlen : (renderLines ((l, e) :: t)).length = l.length + e.bytes.length + (renderLines t).length := by
      simp [renderLines, Nat.add_assoc]
    rw [hlen] at h
    simp only [List.cons_append, linesWithin, List.length_cons]
    by_cases h1 : l.length + e.bytes.length ≤ n
    · simp only [h1, ite_true]
      obtain ⟨i1, i2⟩ := ih (n - (l.length + e.bytes.length)) (by omega)
      exact ⟨by rw [i1], by omega⟩
    · simp only [h1, ite_false]
      exact ⟨trivial, by omega⟩

theorem render_take (e : FEvent) (j : Nat) (h : j < e.render.length) :
    e.render.take j = (e.lines.take j).map (fun l => (l.text, l.eol)) := by
  have hl : e.render.length = e.lines.length + 1 := by simp [FEvent.render]
  have : j ≤ e.lines.length := by omega
  simp only [FEvent.render]
  rw [List.take_append_of_le_length (by simpa using this), List.map_take]

/-- the complete lines within the first `n` bytes of a stream: all lines of the completely received
events, then some of the field lines of the event being received -/
theorem lines_of_prefix (es : List FEvent) (n : Nat) :
    ∃ j, (es.flatMap FEvent.render).take (linesWithin (es.flatMap FEvent.render) n) =
      (es.take (completeE es n)).flatMap FEvent.render ++
        (((es.drop (completeE es n)).head?.map (·.lines)).getD [] |>.take j).map (fun l => (l.text, l.eol)) := by
  induction es generalizing n with
  | nil => exact ⟨0, by simp [linesWithin, completeE]⟩
  | cons e t ih =>
    simp only [List.flatMap_cons, completeE, feLen]
    by_cases hn : (renderLines e.render).length ≤ n
    · obtain ⟨j, hj⟩ := ih (n - (renderLines e.render).length)
      refine ⟨j, ?_⟩
      simp only [hn, ite_true, List.take_succ_cons, List.flatMap_cons, List.drop_succ_cons]
      rw [linesWithin_append_ge _ _ _ hn, List.take_append]
      have h1 : List.take (e.render.length + linesWithin (t.flatMap FEvent.render) (n - (renderLines e.render).length)) e.render = e.render :=
        List.take_of_length_le (by omega)
      have h2 : e.render.length + linesWithin (t.flatMap FEvent.render) (n - (renderLines e.render).length) - e.render.length =
          linesWithin (t.flatMap FEvent.render) (n - (renderLines e.render).length) := by omega
      rw [h1, h2, hj, List.append_assoc]
    · have hlt : n < (renderLines e.render).length := by omega
      obtain ⟨h1, h2⟩ := linesWithin_append_lt e.render (t.flatMap FEvent.render) n hlt
      refine ⟨linesWithin e.render n, ?_⟩
      simp only [hn, ite_false, List.take_zero, List.flatMap_nil, List.nil_append, List.drop_zero, List.head?_cons,
        Option.map_some, Option.getD_some]
      rw [h1, List.take_append_of_le_length (by omega), render_take e _ h2]

/-! ### the scanner on a byte prefix -/

theorem completeE_le (es : List FEvent) (n : Nat) : completeE es n ≤ es.length := by
  induction es generalizing n with
  | nil => simp [completeE]
  | cons e t ih =>
    simp only [completeE]
    split
    · have := ih (n - feLen e); simp; omega
    · simp

/-- **scan_matches_ground_truth.** For every stream of well-formed framed events and EVERY byte offset `n`:
the scanner, run over the first `n` bytes, has dispatched exactly the meanings of the framed events that
lie completely within those bytes (the ones that denote an event at all), in order — and has not met a
malformed line.  An event cut anywhere (in a field name, inside the JSON, between CR and LF of its blank
line) contributes nothing until its last byte has arrived. -/
theorem scan_matches_ground_truth (es : List FEvent) (n : Nat) (h : ∀ e ∈ es, ∀ l ∈ e.lines, WfFLine l) :
    scanFed ((renderStream es).take n) =
      (((es.take (completeE es n)).map FEvent.denote).filter (fun e => !e.isEmpty), false) := by
  obtain ⟨j, hj⟩ := lines_of_prefix es n
  have hL := render_noLF es h
  unfold scanFed renderStream
  rw [splitLines_take _ n hL, hj]
  have hes : ∀ e ∈ es.take (completeE es n), ∀ l ∈ e.lines, WfFLine l := fun e he => h e (List.mem_of_mem_take he)
  simp only [foldl_stepLine_eolcr, List.map_append, List.foldl_append]
  rw [scan_fevents _ [] hes]
  -- the lines received so far of the event being written
  cases hd : (es.drop (completeE es n)).head? with
  | none => simp
  | some e =>
    have hmem : e ∈ es := by
      have : e ∈ es.drop (completeE es n) := List.mem_of_mem_head? hd
      exact List.mem_of_mem_drop this
    have hw : ∀ l ∈ e.lines.take j, WfFLine l := fun l hl => h e hmem l (List.mem_of_mem_take hl)
    have hf := fold_lines (e.lines.take j) {} none ([] ++ ((es.take (completeE es n)).map FEvent.denote).filter (fun e => !e.isEmpty)) hw
    simp only [Option.map_some, Option.getD_some, List.map_map, Function.comp_def]
    have e1 : (List.map (fun l => l.text) (e.lines.take j)) = List.map FLine.text (e.lines.take j) := rfl
    rw [e1, hf]
    simp

/-! ### the same in terms of the scenario's items -/

theorem completeN_eq (items : List Item) (n : Nat) : completeN items n = completeE (items.map (·.fe)) n := by
  induction items generalizing n with
  | nil => rfl
  | cons it t ih => simp only [completeN, List.map_cons, completeE, feLen, Item.bytes, ih]; rfl

/-- the scenario is written in well-formed lines -/
def Scn.wf (scn : Scn) : Prop := ∀ it ∈ scn.items, ∀ l ∈ it.fe.lines, WfFLine l

/-- the model's scanner on the bytes fed so far, in the monitor's terms -/
theorem scanFed_items (scn : Scn) (fed : Nat) (h : scn.wf) :
    scanFed (scn.full.take fed) =
      (((scn.items.take (completeN scn.items fed)).map (·.fe.denote)).filter (fun e => !e.isEmpty), false) := by
  have hes : ∀ e ∈ scn.items.map (·.fe), ∀ l ∈ e.lines, WfFLine l := by
    intro e he
    obtain ⟨it, hit, rfl⟩ := List.mem_map.mp he
    exact h it hit
  unfold Scn.full
  rw [scan_matches_ground_truth _ fed hes, completeN_eq, ← List.map_take, List.map_map]
  rfl

end SseClient
