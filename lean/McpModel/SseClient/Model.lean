import McpModel.Wire.Sse
import McpModel.Generated.SseClientGen
/-!
# Engine `sseclient` — the 2024-11-05 HTTP+SSE CLIENT transport (`mcp/sse.go`, `SSEClientTransport`)
# against a FOREIGN server (C01, C02)

Three layers, all executable core Lean (linked into `drv_sseclient`):

1. **the event pump** (`pump`): the goroutine of `(*SSEClientTransport).Connect` that ranges over
   `scanEvents` (Wire's scanner model, reused) and sends `evt.Data` to `incoming` — a function from the
   scanned event list to the list of payloads handed to the jsonrpc2 reader, parameterised by the
   regenerated filter (`Generated.SseClient.pumpSkipEmptyData`, `pumpNameRule`);
2. **the endpoint event** (`resolveRef`): `parsedURL.Parse(raw)` — RFC 3986 reference resolution as
   `net/url` does it, on a simple class of references (`RefOK`);
3. **the session at quiescence** (`step`): what a `ClientSession` bound to that transport has done once
   every goroutine is blocked again after an operation of the harness (connect / feed bytes / call / end of
   stream / Close), as the list of observation tokens of that step.  This layer is a coarse model of
   `internal/jsonrpc2` (the conn engine has the fine one): registered calls, the three shutdown flags,
   `idle ∧ shuttingDown ⇒ close`.
-/
namespace SseClient
open Wire

/-! ## 1. the pump -/

inductive NameRule where
  | any               -- every event is forwarded (as built before F41's repair)
  | messageOrDefault  -- the default type (no `event` field) or `event: message`
  | messageNamed      -- only `event: message` (the seeded change C01-m11 / C02-m11)
deriving DecidableEq, Repr

structure PumpFilter where
  skipEmptyData : Bool
  nameRule : NameRule
deriving DecidableEq, Repr

/-- the SSE default event type, as the standard spells it -/
def msgName : Bytes := [109, 101, 115, 115, 97, 103, 101]   -- "message"

def epName : Bytes := [101, 110, 100, 112, 111, 105, 110, 116]   -- "endpoint"

/-- SSE: an event without an `event` field has the type "message" -/
def isMessageType (e : Event) : Bool := e.name = [] || e.name = msgName

/-- SSE + MCP: the events that carry a JSON-RPC message: type "message" (named or default) and a
non-empty data buffer (an event whose data buffer is empty is not dispatched at all) -/
def isMessage (e : Event) : Bool := isMessageType e && e.data ≠ []

def PumpFilter.keeps (f : PumpFilter) (e : Event) : Bool :=
  !(f.skipEmptyData && e.data = []) &&
  (match f.nameRule with
   | .any => true
   | .messageOrDefault => e.name = [] || e.name = msgName
   | .messageNamed => e.name = msgName)

/-- the pump: the payloads sent to `incoming`, in order -/
def pump (f : PumpFilter) (evs : List Event) : List Bytes := (evs.filter f.keeps).map (·.data)

/-- the repaired filter: `len(evt.Data) == 0 || (evt.Name != "" && evt.Name != "message")` ⇒ skip -/
def repaired : PumpFilter := ⟨true, .messageOrDefault⟩
/-- before the repair of F41 (engine-local sseclient-F40): everything is forwarded -/
def asBuilt : PumpFilter := ⟨false, .any⟩
/-- the seeded change C01-m11 / C02-m11: `evt.Name != "message"` ⇒ skip -/
def seededM11 : PumpFilter := ⟨false, .messageNamed⟩

/-- the filter regenerated from `mcp/sse.go` (a name literal other than "message", or a condition the
extractor does not understand, is reported by the extractor; the model then forwards everything) -/
def generatedFilter : PumpFilter :=
  ⟨Generated.SseClient.pumpSkipEmptyData,
   if Generated.SseClient.pumpNameLiteral ≠ msgName then .any
   else if Generated.SseClient.pumpNameRule = 1 then .messageOrDefault
   else if Generated.SseClient.pumpNameRule = 2 then .messageNamed
   else .any⟩

/-- the scanner on the bytes received so far: the events dispatched by the complete lines, and whether
a malformed line was met (`scanEvents` yields its terminal error) -/
def scanFed (bs : Bytes) : List Event × Bool :=
  let a := (splitLines bs).1.foldl stepLine {}
  (a.out, a.malformed)

/-! ## 2. the endpoint reference -/

structure Ref where
  scheme : Option Bytes := none
  auth : Option Bytes := none
  path : Bytes := []
  query : Option Bytes := none
deriving DecidableEq, Repr, Inhabited

def SLASH : UInt8 := 47
def QMARK : UInt8 := 63
def HASH : UInt8 := 35
def DOT : UInt8 := 46

def isAlpha (b : UInt8) : Bool := (65 ≤ b && b ≤ 90) || (97 ≤ b && b ≤ 122)
def isSchemeChar (b : UInt8) : Bool := isAlpha b || (48 ≤ b && b ≤ 57) || b = 43 || b = 45 || b = 46

/-- `net/url.getScheme`: the scheme and the rest, if the text starts with `ALPHA *(ALPHA / DIGIT / + - .) ":"` -/
def getScheme (bs : Bytes) : Option Bytes × Bytes :=
  match bs with
  | [] => (none, [])
  | b :: _ =>
    if !isAlpha b then (none, bs) else
    let pre := bs.takeWhile isSchemeChar
    match bs.drop pre.length with
    | c :: rest => if c = COLON then (some pre, rest) else (none, bs)
    | [] => (none, bs)

/-- split at the first occurrence of `c` -/
def cutAt (c : UInt8) (bs : Bytes) : Bytes × Option Bytes :=
  let pre := bs.takeWhile (· ≠ c)
  match bs.drop pre.length with
  | _ :: rest => (pre, some rest)
  | [] => (pre, none)

/-- `url.Parse` on the simple class of texts `RefOK` describes -/
def parseRef (bs : Bytes) : Ref :=
  let (scheme, rest) := getScheme bs
  let (hier, query) := cutAt QMARK rest
  match hier with
  | 47 :: 47 :: r =>
    let a := r.takeWhile (· ≠ SLASH)
    { scheme := scheme, auth := some a, path := r.drop a.length, query := query }
  | _ => { scheme := scheme, auth := none, path := hier, query := query }

/-- split at every `/` -/
def splitSlash : Bytes → List Bytes
  | [] => [[]]
  | b :: t =>
    match splitSlash t with
    | [] => [[b]]   -- unreachable
    | s :: ss => if b = SLASH then [] :: s :: ss else (b :: s) :: ss

def lastSlashPrefix (bs : Bytes) : Bytes :=
  -- bs[: lastIndex('/') + 1]
  (bs.reverse.dropWhile (· ≠ SLASH)).reverse

structure DotSt where
  dst : Bytes := [SLASH]
  first : Bool := true

/-- one element of `net/url.resolvePath`'s loop -/
def dotStep (s : DotSt) (elem : Bytes) : DotSt :=
  if elem = [DOT] then { s with first := false }
  else if elem = [DOT, DOT] then
    let str := s.dst.drop 1
    if str.contains SLASH then
      -- str[:lastIndex('/')]
      { dst := SLASH :: ((str.reverse.dropWhile (· ≠ SLASH)).drop 1).reverse, first := s.first }
    else { dst := [SLASH], first := true }
  else
    { dst := s.dst ++ (if s.first then [] else [SLASH]) ++ elem, first := false }

/-- `net/url.resolvePath(base, ref)` -/
def resolvePath (base ref : Bytes) : Bytes :=
  let full :=
    match ref with
    | [] => base
    | b :: _ => if b ≠ SLASH then lastSlashPrefix base ++ ref else ref
  if full = [] then [] else
  let elems := splitSlash full
  let s := elems.foldl dotStep {}
  let last := elems.getLast?.getD []
  let r := if last = [DOT] ∨ last = [DOT, DOT] then s.dst ++ [SLASH] else s.dst
  match r with
  | 47 :: 47 :: t => SLASH :: t
  | _ => r

/-- `(*URL).ResolveReference` -/
def resolveRef (base r : Ref) : Ref :=
  let scheme := match r.scheme with | some s => some s | none => base.scheme
  if r.scheme.isSome ∨ r.auth.isSome then
    { scheme := scheme, auth := r.auth, path := resolvePath r.path [], query := r.query }
  else
    { scheme := scheme, auth := base.auth,
      path := resolvePath base.path r.path,
      query := if r.path = [] ∧ r.query = none then base.query else r.query }

/-- `(*URL).String` -/
def Ref.render (u : Ref) : Bytes :=
  (match u.scheme with | some s => s ++ [COLON] | none => []) ++
  (match u.auth with
   | some a => [SLASH, SLASH] ++ a ++ (match u.path with | [] => [] | b :: _ => if b = SLASH then [] else [SLASH])
   | none => []) ++
  u.path ++
  (match u.query with | some q => if q = [] then [] else QMARK :: q | none => [])

/-- the URL the client POSTs to: the endpoint event's data resolved against the SSE URL -/
def endpointURL (base data : Bytes) : Bytes := (resolveRef (parseRef base) (parseRef data)).render

def isUnreserved (b : UInt8) : Bool :=
  isAlpha b || (48 ≤ b && b ≤ 57) || b = 45 || b = 46 || b = 95 || b = 126   -- - . _ ~

/-- the references the model speaks about: unreserved characters, `/ : = & % ?`; with a scheme only in the
hierarchical form `scheme://authority…`; no fragment -/
def refOK (bs : Bytes) : Bool :=
  bs.all (fun b => isUnreserved b || b = SLASH || b = COLON || b = 61 || b = 38 || b = 37 || b = QMARK) &&
  (match getScheme bs with
   | (some _, rest) => [SLASH, SLASH].isPrefixOf rest
   | (none, _) => true)

/-! ## 3. the session at quiescence -/

inductive ReqM where
  | ping | roots | sample | unk
deriving DecidableEq, Repr

/-- what an event's data is, as the scripted server labels it -/
inductive Payload where
  | none                               -- no payload (comments, events without data, the endpoint reference)
  | resp (k : Nat) (ok : Bool)         -- the response to the client's call k (0 = initialize): result / error
  | fresp                              -- a response bearing an id the client never used
  | req (id : String) (m : ReqM)       -- a server→client request
  | notif (n : Nat)                    -- a notification
  | junk                               -- text that is not a JSON-RPC message
deriving DecidableEq, Repr

def Payload.isMsg : Payload → Bool
  | .resp .. | .fresp | .req .. | .notif .. => true
  | _ => false

structure Item where
  fe : FEvent
  payload : Payload
  isEp : Bool := false
deriving Repr

def Item.bytes (it : Item) : Bytes := renderLines it.fe.render

/-- a POST the client makes -/
inductive PostId where
  | call (k : Nat)
  | initialized
  | cancelled (k : Nat)
  | resp (id : String) (code : Option Int)     -- a response to a server request: result / error code
deriving DecidableEq, Repr

inductive GetKind where
  | ok | terr | st (code : Nat)
deriving DecidableEq, Repr

structure Scn where
  base : Bytes := []
  get : GetKind := .ok
  termEof : Bool := true
  ok2xx : Nat := 202
  pst : List (PostId × Nat) := []
  items : List Item := []

def Scn.full (s : Scn) : Bytes := renderStream (s.items.map (·.fe))

def Scn.postOk (s : Scn) (p : PostId) : Bool :=
  let st := ((s.pst.find? (fun e => e.1 = p)).map (·.2)).getD s.ok2xx
  Generated.SseClient.writeStatusLo ≤ st && st < Generated.SseClient.writeStatusHi

/-- `jsonrpc.DecodeMessage` on a payload: the label of the scripted message with that text -/
def Scn.decode (s : Scn) (data : Bytes) : Payload :=
  if data = [] then .junk else
  match s.items.find? (fun it => it.payload.isMsg && it.fe.denote.data = data) with
  | some it => it.payload
  | none => .junk

inductive Outcome where
  | res (marker : Option Nat)   -- a result; tools/list: the k of the tool name `t<k>`; ping: none
  | rpc (code : Int)            -- the peer's error response
  | err                         -- an error that does not identify the connection as closed
  | closed                      -- an error that is ErrConnectionClosed
  | other (s : String)
deriving DecidableEq, Repr

inductive Tok where
  | get
  | connOk | connErr
  | url (u : Bytes)
  | post (p : PostId)
  | done (k : Nat) (o : Outcome)
  | nt (ns : List Nat)
  | term | closed
  | pend (k : Nat)
  | nobody | nosession
  | other (s : String)
deriving DecidableEq, Repr

inductive Op where
  | connect
  | feed (n : Nat) (chunks : List Nat)
  | call (k : Nat) (isList : Bool)
  | endStream
  | close
  | fin
deriving DecidableEq, Repr

inductive Phase where
  | idle | awaitEp | up | down
deriving DecidableEq, Repr

structure St where
  phase : Phase := .idle
  hasBody : Bool := false
  target : Bytes := []
  fed : Nat := 0
  seen : Nat := 0                   -- scanned events already consumed
  pending : List Nat := []          -- registered calls awaiting a response (0 = initialize)
  lists : List Nat := []            -- the calls that are tools/list
  connRet : Bool := false           -- Client.Connect has returned
  handed : Bool := false            -- … with a session
  rdead : Bool := false             -- the reader has stopped (readErr)
  wdead : Bool := false             -- a write failed (writeErr)
  closing : Bool := false           -- Close was called (connClosing)
  done : Bool := false              -- the connection is done (Wait returns)
  closeWait : Bool := false         -- a Close call of the harness is waiting for `done`
deriving Repr

def St.shutting (s : St) : Bool := s.closing || s.rdead || s.wdead

/-- `updateInFlight`: idle ∧ shutting down ⇒ close the transport; the reader ends; done -/
def settle (s : St) : St × List Tok :=
  if s.phase = .up ∧ !s.done ∧ s.shutting ∧ s.pending = [] then
    ({ s with done := true, rdead := true, closeWait := false },
     (if s.handed then [.term] else []) ++ (if s.closeWait then [.closed] else []))
  else (s, [])

/-- `Client.Connect` gives up: `cs.Close()` and the error -/
def failConnect (s : St) : St × List Tok :=
  ({ s with connRet := true, closing := true }, [.connErr])

/-- the reader stops (undecodable payload, or the transport was closed under it): every registered call is
retired with the read error -/
def readerDies (s : St) : St × List Tok :=
  let toks := (s.pending.filter (· ≠ 0)).map (fun k => Tok.done k .err)
  let s1 := { s with rdead := true, pending := [] }
  if s.pending.contains 0 then
    let (s2, t2) := failConnect s1
    (s2, toks ++ t2)
  else (s1, toks)

def errCodeOf : ReqM → Option Int
  | .unk => some (-32601)
  | _ => none

/-- one payload taken off `incoming` by a running reader -/
def deliver (scn : Scn) (s : St) (p : Payload) : St × List Tok :=
  match p with
  | .resp k ok =>
    if s.pending.contains k then
      let s := { s with pending := s.pending.erase k }
      if k = 0 then
        if !ok then failConnect s
        else if s.shutting then failConnect s
        else if scn.postOk .initialized then
          ({ s with connRet := true, handed := true }, [.post .initialized, .connOk])
        else
          let (s', t) := failConnect { s with wdead := true }
          (s', .post .initialized :: t)
      else
        (s, [.done k (if ok then .res (if s.lists.contains k then some k else none) else .rpc (-31000 - (k : Int)))])
    else (s, [])
  | .fresp => (s, [])
  | .req id m =>
    if s.wdead then (s, [])
    else if s.closing then
      -- refused: an error response is still written (responses pass the shutdown gate)
      let p := PostId.resp id (some Generated.SseClient.serverClosingCode)
      ({ s with wdead := !scn.postOk p }, [.post p])
    else
      let p := PostId.resp id (errCodeOf m)
      ({ s with wdead := !scn.postOk p }, [.post p])
  | .notif n => if s.shutting then (s, []) else (s, [.nt [n]])
  | .junk | .none => readerDies s

/-- the reader works through the payloads the pump queued, as long as it runs -/
def deliverAll (scn : Scn) : St → List Payload → St × List Tok
  | s, [] => (s, [])
  | s, p :: ps =>
    if s.rdead ∨ s.done then (s, []) else
    let (s1, t1) := deliver scn s p
    let (s2, t2) := settle s1
    let (s3, t3) := deliverAll scn s2 ps
    (s3, t1 ++ t2 ++ t3)

/-- the transport is bound: `connect()` creates the jsonrpc2 connection and `Client.Connect` makes the
initialize call -/
def bind (scn : Scn) (s : St) (target : Bytes) : St × List Tok :=
  let s := { s with phase := .up, target := target }
  if scn.postOk (.call 0) then ({ s with pending := [0] }, [.post (.call 0)])
  else
    -- the write of the initialize request fails: the call is retired, Connect gives up
    let (s', t) := failConnect { s with wdead := true }
    (s', .post (.call 0) :: t)

/-- the pump stops (end of the body, read error, malformed line): the transport is closed -/
def pumpStops (s : St) : St × List Tok :=
  if s.rdead ∨ s.done then (s, []) else
  let (s1, t1) := readerDies s
  let (s2, t2) := settle s1
  (s2, t1 ++ t2)

/-- new bytes: the scanner runs over everything received, the events not yet consumed are processed -/
def feedBytes (scn : Scn) (f : PumpFilter) (s : St) (fed : Nat) : St × List Tok :=
  let (evs, bad) := scanFed (scn.full.take fed)
  let s := { s with fed := fed }
  match s.phase with
  | .awaitEp =>
    (match evs with
     | [] => if bad then ({ s with phase := .down, connRet := true }, [.connErr]) else (s, [])
     | e :: rest =>
       if e.name ≠ Generated.SseClient.endpointEventName then ({ s with phase := .down, connRet := true }, [.connErr])
       else
         let (s1, t1) := bind scn { s with seen := evs.length } (endpointURL scn.base e.data)
         let (s2, t2) := settle s1
         let (s3, t3) := deliverAll scn s2 ((pump f rest).map scn.decode)
         let (s4, t4) := if bad then pumpStops s3 else (s3, [])
         (s4, t1 ++ t2 ++ t3 ++ t4))
  | .up =>
    if s.done then (s, []) else
    let new := evs.drop s.seen
    let (s3, t3) := deliverAll scn { s with seen := evs.length } ((pump f new).map scn.decode)
    let (s4, t4) := if bad then pumpStops s3 else (s3, [])
    (s4, t3 ++ t4)
  | _ => (s, [])

/-- every step that POSTs names the URL it POSTs to -/
def withUrl (s : St) (toks : List Tok) : List Tok :=
  if toks.any (fun t => match t with | .post _ => true | _ => false) then toks ++ [.url s.target] else toks

/-- one operation of the harness, run to quiescence -/
def step (scn : Scn) (f : PumpFilter) (s : St) : Op → St × List Tok
  | .connect =>
    if s.phase ≠ .idle then (s, [.other "second-connect"]) else
    (match scn.get with
     | .ok => ({ s with phase := .awaitEp, hasBody := true }, [.get])
     | .terr => ({ s with phase := .down, connRet := true }, [.get, .connErr])
     | .st c =>
       if Generated.SseClient.connectStatusLo ≤ c ∧ c < Generated.SseClient.connectStatusHi then
         ({ s with phase := .awaitEp, hasBody := true }, [.get])
       else ({ s with phase := .down, connRet := true }, [.get, .connErr]))
  | .feed n _ =>
    if !s.hasBody then (s, [.nobody]) else
    let (s', t) := feedBytes scn f s (min (s.fed + n) scn.full.length)
    (s', withUrl s' t)
  | .call k isList =>
    let s := { s with lists := if isList then k :: s.lists else s.lists }
    if !s.handed then (s, [.nosession]) else
    if s.done ∨ s.shutting then (s, [.done k .closed]) else
    if scn.postOk (.call k) then
      let s' := { s with pending := s.pending ++ [k] }
      (s', withUrl s' [.post (.call k)])
    else
      let (s', t) := settle { s with wdead := true }
      (s', withUrl s' ([.post (.call k), .done k .err] ++ t))
  | .endStream =>
    if !s.hasBody then (s, [.nobody]) else
    (match s.phase with
     | .awaitEp => ({ s with phase := .down, connRet := true }, [.connErr])
     | .up => pumpStops s
     | _ => (s, []))
  | .close =>
    if !s.handed then (s, [.nosession]) else
    if s.done then (s, [.closed]) else
    settle { s with closing := true, closeWait := true }
  | .fin =>
    (s, (if s.phase ≠ .idle ∧ !s.connRet then [.pend 0] else []) ++ (s.pending.filter (· ≠ 0)).map .pend)

/-- a whole case: the observations step by step -/
def run (scn : Scn) (f : PumpFilter) : St → List Op → List (List Tok)
  | _, [] => []
  | s, o :: os => (step scn f s o).2 :: run scn f (step scn f s o).1 os

end SseClient
