import McpModel.SseClient.BridgeTruth
/-!
# Bridge, part 4: when the monitor's checks raise nothing
-/
namespace SseClient
open Wire

theorem firstSome_none {l : List (Option Clause)} (h : ∀ o ∈ l, o = none) : firstSome l = none := by
  induction l with
  | nil => rfl
  | cons o rest ih =>
    have ho := h o (by simp)
    subst ho
    simp only [firstSome]
    exact ih (fun x hx => h x (by simp [hx]))

theorem findSome_none {α β} (f : α → Option β) (l : List α) (h : ∀ a ∈ l, f a = none) : l.findSome? f = none := by
  simpa [List.findSome?_eq_none_iff] using h

/-- the whole step raises nothing when each of its checks raises nothing -/
theorem monCheck_none (c : Ctx)
    (h1 : ∀ t ∈ c.toks, otherClause t = none)
    (h2 : checkDones c [] (donesOf c.toks) = none)
    (h3 : Tok.connErr ∉ c.toks)
    (h4 : Tok.connOk ∈ c.toks → c.hasResp 0 true = true)
    (h5 : Tok.term ∉ c.toks)
    (h6 : checkResps c c.m.answered (respIdsOf c.toks) = none)
    (h7 : checkLive c c.live = none)
    (h8 : c.m.termSeen = false)
    (h9 : isSubseq (c.m.nts ++ ntsOf c.toks) c.notifs = true) : monCheck c = none := by
  unfold monCheck
  apply firstSome_none
  intro o ho
  simp only [List.mem_cons, List.not_mem_nil, or_false] at ho
  rcases ho with rfl | rfl | rfl | rfl | rfl | rfl | rfl | rfl | rfl
  · exact findSome_none _ _ h1
  · exact h2
  · simp [h3]
  · by_cases hc : Tok.connOk ∈ c.toks
    · simp [hc, h4 hc]
    · simp [hc]
  · simp [h5]
  · exact h6
  · split
    · rfl
    · exact h7
  · cases c.op <;> simp [h8]
  · simp [h9]

/-! ### completions -/

theorem checkDone_none (c : Ctx) (seen : List Nat) (k : Nat) (o : Outcome)
    (h1 : k ∈ c.m.started ∨ c.callsNow k = true)
    (h2 : c.m.finished.contains k = false) (h3 : k ∉ seen)
    (h4 : match o with
      | .res mk => c.hasResp k true = true ∧ mk = c.expectedMarker k
      | .rpc code => c.hasResp k false = true ∧ code = -31000 - (k : Int)
      | .err => c.excused' = true ∧ c.m.termSeen = false
      | .closed => c.excused' = true
      | .other _ => False) : checkDone c seen k o = none := by
  have h3' : seen.contains k = false := by simpa using h3
  unfold checkDone
  have e1 : (!c.m.started.contains k && !c.callsNow k) = false := by
    rcases h1 with h1 | h1 <;> simp [h1]
  simp only [e1, Bool.false_eq_true, ite_false, h2, h3', Bool.or_self]
  cases o with
  | res mk => simp [h4.1, h4.2]
  | rpc code => simp [h4.1, h4.2]
  | err => simp [h4.1, h4.2]
  | closed => simp [h4]
  | other s => exact absurd h4 id

theorem checkDones_none (c : Ctx) (l : List (Nat × Outcome)) (seen : List Nat)
    (hn : (l.map (·.1)).Nodup) (hs : ∀ d ∈ l, d.1 ∉ seen)
    (hd : ∀ d ∈ l, ∀ seen', d.1 ∉ seen' → checkDone c seen' d.1 d.2 = none) : checkDones c seen l = none := by
  induction l generalizing seen with
  | nil => rfl
  | cons d rest ih =>
    obtain ⟨k, o⟩ := d
    simp only [List.map_cons, List.nodup_cons] at hn
    simp only [checkDones, hd (k, o) (by simp) seen (hs (k, o) (by simp))]
    apply ih _ hn.2
    · intro d hd' hm
      rcases List.mem_cons.mp hm with e | e
      · exact hn.1 (List.mem_map.mpr ⟨d, hd', e⟩)
      · exact hs d (by simp [hd']) e
    · exact fun d hd' => hd d (by simp [hd'])

/-! ### response POSTs -/

theorem checkResps_none (c : Ctx) (l : List (String × Option Int)) (seen : List String)
    (hk : ∀ r ∈ l, (c.reqKinds r.1).contains r.2 = true)
    (hc : ∀ id, (seen.filter (· = id)).length + (l.filter (·.1 = id)).length ≤ c.reqCount id) :
    checkResps c seen l = none := by
  induction l generalizing seen with
  | nil => rfl
  | cons r rest ih =>
    obtain ⟨id, code⟩ := r
    have hcid := hc id
    simp only [List.filter_cons, decide_true, ite_true, List.length_cons] at hcid
    have h0 : c.reqCount id ≠ 0 := by omega
    have h1 : ¬ ((seen.filter (· = id)).length + 1 > c.reqCount id) := by omega
    have h2 := hk (id, code) (by simp)
    simp only [checkResps, h0, ite_false, h1, h2, Bool.true_or, Bool.not_true, Bool.false_eq_true]
    apply ih
    · exact fun r hr => hk r (by simp [hr])
    · intro id'
      have := hc id'
      simp only [List.filter_cons] at this ⊢
      by_cases e : id = id'
      · subst e; simp at this ⊢; omega
      · have e' : ¬ id' = id := fun x => e x.symm
        simp [e, e'] at this ⊢; omega

/-! ### live items -/

theorem checkLive_none (c : Ctx) (l : List (Nat × Payload)) (h : ∀ ip ∈ l, liveClause c ip.1 ip.2 = none) :
    checkLive c l = none := by
  induction l with
  | nil => rfl
  | cons ip rest ih =>
    obtain ⟨i, p⟩ := ip
    simp only [checkLive, h (i, p) (by simp)]
    exact ih (fun x hx => h x (by simp [hx]))

theorem isSubseq_refl (l : List Nat) : isSubseq l l = true := by
  induction l with
  | nil => rfl
  | cons a t ih => simp [isSubseq, ih]

theorem livePrefix_good (l : List (Nat × Payload)) (h : ∀ ip ∈ l, goodPayload ip.2 = true) : livePrefix l = l := by
  unfold livePrefix
  induction l with
  | nil => rfl
  | cons ip rest ih =>
    have := h ip (by simp)
    simp only [goodPayload, Bool.and_eq_true, Bool.not_eq_true'] at this
    simp only [List.takeWhile_cons, this.2, Bool.not_false, ite_true]
    rw [ih (fun x hx => h x (by simp [hx]))]

end SseClient
