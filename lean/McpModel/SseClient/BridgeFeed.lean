import McpModel.SseClient.BridgeChecks
/-!
# Bridge, part 5: a read on a healthy connection raises no clause
-/
namespace SseClient
open Wire

/-! ### projections of a step's tokens -/

def isUrlTok : Tok → Bool
  | .url _ => true
  | _ => false

theorem donesOf_url (l : List Tok) (h : ∀ t ∈ l, isUrlTok t = true) : donesOf l = [] := by
  induction l with
  | nil => rfl
  | cons t ts ih =>
    have := h t (by simp)
    cases t <;> simp_all [donesOf, isUrlTok]
theorem postsOf_url (l : List Tok) (h : ∀ t ∈ l, isUrlTok t = true) : postsOf l = [] := by
  induction l with
  | nil => rfl
  | cons t ts ih =>
    have := h t (by simp)
    cases t <;> simp_all [postsOf, isUrlTok]
theorem ntsOf_url (l : List Tok) (h : ∀ t ∈ l, isUrlTok t = true) : ntsOf l = [] := by
  induction l with
  | nil => rfl
  | cons t ts ih =>
    have := h t (by simp)
    cases t <;> simp_all [ntsOf, isUrlTok]
theorem respIdsOf_url (l : List Tok) (h : ∀ t ∈ l, isUrlTok t = true) : respIdsOf l = [] := by
  simp [respIdsOf, postsOf_url l h]

theorem withUrl_eq (s : St) (t : List Tok) : ∃ u, withUrl s t = t ++ u ∧ ∀ x ∈ u, isUrlTok x = true := by
  unfold withUrl
  split
  · exact ⟨[.url s.target], rfl, by simp [isUrlTok]⟩
  · exact ⟨[], by simp, by simp⟩

/-! ### requests and notifications among payloads -/

theorem reqsOf_append (a b : List Payload) : reqsOf (a ++ b) = reqsOf a ++ reqsOf b := by simp [reqsOf]
theorem notifsOf_append (a b : List Payload) : notifsOf (a ++ b) = notifsOf a ++ notifsOf b := by simp [notifsOf]

theorem reqCount_eq (l : List Payload) (id : String) :
    (l.filter (fun p => match p with | .req id' _ => id' = id | _ => false)).length = ((reqsOf l).filter (·.1 = id)).length := by
  induction l with
  | nil => rfl
  | cons p t ih =>
    cases p with
    | req id' m =>
      simp only [List.filter_cons, reqsOf, List.filterMap_cons]
      by_cases e : id' = id <;> simp [e] <;> simpa [reqsOf] using ih
    | _ => simpa [reqsOf, List.filter_cons] using ih

theorem reqKinds_mem (l : List Payload) (id : String) (m : ReqM) (h : Payload.req id m ∈ l) :
    (l.filterMap (fun p => match p with | .req id' m => if id' = id then some (errCodeOf m) else none | _ => none)).contains (errCodeOf m) = true := by
  simp only [List.contains_iff_mem, List.mem_filterMap]
  exact ⟨.req id m, h, by simp⟩

theorem reqsOf_mem (l : List Payload) (r : String × Option Int) (h : r ∈ reqsOf l) : ∃ m, Payload.req r.1 m ∈ l ∧ r.2 = errCodeOf m := by
  simp only [reqsOf, List.mem_filterMap] at h
  obtain ⟨p, hp, he⟩ := h
  cases p with
  | req id m => simp only [Option.some.injEq] at he; subst he; exact ⟨m, hp, rfl⟩
  | _ => simp at he

theorem notifs_eq (c : Ctx) : c.notifs = notifsOf (c.scn.msgsUpTo c.n') := rfl

/-! ### the checks of a read -/

/-- **a read on a healthy connection raises nothing**: the tokens are what `hRun` makes of the new message
payloads `ps` (after the POST of the initialize request when the endpoint event arrives in this read),
and the monitor's books agree with the registered calls `P` -/
theorem feed_checks (c : Ctx) (P : List Nat) (ps : List Payload) (pre url : List Tok)
    (htoks : c.toks = pre ++ (hRun c.m.lists P ps).2 ++ url)
    (hpre : pre = [] ∨ pre = [.post (.call 0)]) (hurl : ∀ t ∈ url, isUrlTok t = true)
    (hlive : c.live.map (·.2) = ps)
    (hmsgs : c.scn.msgsUpTo c.n' = c.scn.msgsUpTo c.m.nComplete ++ ps)
    (hgood : ∀ p ∈ ps, goodPayload p = true)
    (hP : P.Nodup) (hPa : ∀ k ∈ P, k ≠ 0 → k ∈ c.m.started ∧ k ∉ c.m.finished)
    (hPb : ∀ k, k ≠ 0 → k ∈ c.m.posted → k ∉ c.m.finished → k ∈ P)
    (hP0 : Payload.resp 0 true ∈ ps → c.m.connRet = false → 0 ∈ P)
    (hop : ∃ n ch, c.op = .feed n ch)
    (hterm : c.m.termSeen = false)
    (hnts : c.m.nts = notifsOf (c.scn.msgsUpTo c.m.nComplete))
    (hans : ∀ id, (c.m.answered.filter (· = id)).length = ((reqsOf (c.scn.msgsUpTo c.m.nComplete)).filter (·.1 = id)).length) :
    monCheck c = none := by
  obtain ⟨n, ch, hop⟩ := hop
  have hdones : donesOf c.toks = donesOf (hRun c.m.lists P ps).2 := by
    rw [htoks, donesOf_append, donesOf_append, donesOf_url url hurl]
    rcases hpre with rfl | rfl <;> simp [donesOf]
  have hresps : respIdsOf c.toks = reqsOf ps := by
    rw [htoks, respIdsOf_append, respIdsOf_append, respIdsOf_url url hurl, hRun_resps]
    rcases hpre with rfl | rfl <;> simp [respIdsOf, postsOf]
  have hntsT : ntsOf c.toks = notifsOf ps := by
    rw [htoks, ntsOf_append, ntsOf_append, ntsOf_url url hurl, hRun_nts]
    rcases hpre with rfl | rfl <;> simp [ntsOf]
  have hmemT : ∀ t ∈ c.toks, t = .post (.call 0) ∨ HTok t ∨ isUrlTok t = true := by
    intro t ht
    rw [htoks] at ht
    simp only [List.mem_append] at ht
    rcases ht with (ht | ht) | ht
    · rcases hpre with rfl | rfl
      · simp at ht
      · left; simpa using ht
    · right; left; exact hRun_toks _ _ _ t ht
    · right; right; exact hurl t ht
  have hconnOk : Tok.connOk ∈ c.toks → Tok.connOk ∈ (hRun c.m.lists P ps).2 := by
    intro ht
    rw [htoks] at ht
    simp only [List.mem_append] at ht
    rcases ht with (ht | ht) | ht
    · rcases hpre with rfl | rfl <;> simp at ht
    · exact ht
    · have := hurl _ ht; simp [isUrlTok] at this
  have hinps : ∀ p ∈ ps, p ∈ c.scn.msgsUpTo c.n' := fun p hp => by rw [hmsgs]; simp [hp]
  apply monCheck_none
  · intro t ht
    rcases hmemT t ht with rfl | h | h
    · rfl
    · cases h <;> rfl
    · cases t <;> simp_all [isUrlTok, otherClause]
  · -- completions
    rw [hdones]
    obtain ⟨d1, d2⟩ := hRun_dones c.m.lists ps P hP
    apply checkDones_none _ _ _ d2 (by simp)
    intro d hd seen' hs
    obtain ⟨dk0, dkP, ok, hokps, ho⟩ := d1 d hd
    obtain ⟨hst, hfin⟩ := hPa d.1 dkP dk0
    apply checkDone_none c seen' d.1 d.2 (Or.inl hst) (by simpa using hfin) hs
    rw [ho]
    have hres : c.hasResp d.1 ok = true := by
      simp only [Ctx.hasResp, List.contains_iff_mem]; exact hinps _ hokps
    cases ok with
    | true =>
      simp only [outcomeOf, ite_true]
      refine ⟨hres, ?_⟩
      simp [Ctx.expectedMarker, hop]
    | false =>
      simp only [outcomeOf, Bool.false_eq_true, ite_false]
      exact ⟨hres, trivial⟩
  · intro ht
    rcases hmemT _ ht with h | h | h
    · cases h
    · cases h
    · simp [isUrlTok] at h
  · intro ht
    obtain ⟨ok, hok⟩ := hRun_connOk_inv _ _ _ (hconnOk ht)
    have hg := hgood _ hok
    cases ok with
    | true => simp only [Ctx.hasResp, List.contains_iff_mem]; exact hinps _ hok
    | false => simp [goodPayload, excusing] at hg
  · intro ht
    rcases hmemT _ ht with h | h | h
    · cases h
    · cases h
    · simp [isUrlTok] at h
  · -- response POSTs
    rw [hresps]
    apply checkResps_none
    · intro r hr
      obtain ⟨m, hm, hc⟩ := reqsOf_mem ps r hr
      rw [hc]
      exact reqKinds_mem _ _ _ (hinps _ hm)
    · intro id
      have : c.reqCount id = ((reqsOf (c.scn.msgsUpTo c.n')).filter (·.1 = id)).length := reqCount_eq _ id
      rw [this, hmsgs, reqsOf_append, List.filter_append, List.length_append, hans id]
      exact Nat.le_refl _
  · -- live items
    apply checkLive_none
    intro ip hip
    have hp : ip.2 ∈ ps := by rw [← hlive]; exact List.mem_map.mpr ⟨ip, hip, rfl⟩
    have hg := hgood _ hp
    obtain ⟨i, p⟩ := ip
    cases p with
    | resp k ok =>
      simp only [liveClause]
      by_cases hk : k = 0 ∧ ok = true
      · obtain ⟨rfl, rfl⟩ := hk
        simp only [and_self, ite_true]
        by_cases hcr : c.m.connRet = true
        · simp [hcr]
        · have hcr' : c.m.connRet = false := by simpa using hcr
          have : Tok.connOk ∈ c.toks := by
            rw [htoks]; simp only [List.mem_append]
            exact Or.inl (Or.inr (hRun_connOk _ _ _ (hP0 hp hcr') hp hgood))
          simp [this]
      · simp only [hk, ite_false]
        have hk0 : k ≠ 0 := by
          rintro rfl
          cases ok with
          | true => exact hk ⟨rfl, rfl⟩
          | false => simp [goodPayload, excusing] at hg
        by_cases hpo : k ∈ c.m.posted ∧ k ∉ c.m.finished
        · obtain ⟨d, hd, hdk⟩ := hRun_completes c.m.lists ps P k ok (hPb k hk0 hpo.1 hpo.2) hk0 hp
          have : (donesOf c.toks).any (fun d => d.1 = k) = true := by
            rw [hdones]; exact List.any_eq_true.mpr ⟨d, hd, by simp [hdk]⟩
          simp [this]
        · by_cases h1 : k ∈ c.m.posted
          · have h2 : k ∈ c.m.finished := by
              by_cases h2 : k ∈ c.m.finished
              · exact h2
              · exact absurd ⟨h1, h2⟩ hpo
            simp [h1, h2]
          · simp [h1]
    | req id m =>
      simp only [liveClause]
      have : (respIdsOf c.toks).any (fun r => r.1 = id) = true := by
        rw [hresps]
        exact List.any_eq_true.mpr ⟨(id, errCodeOf m), by simp only [reqsOf, List.mem_filterMap]; exact ⟨.req id m, hp, rfl⟩, by simp⟩
      simp [this]
    | fresp => rfl
    | notif n => rfl
    | none => rfl
    | junk => rfl
  · exact hterm
  · rw [notifs_eq, hnts, hntsT, hmsgs, notifsOf_append]
    exact isSubseq_refl _

end SseClient
