import McpModel.SseClient.Monitor
/-!
# Soundness of the `sseclient` monitor: every clause it raises contradicts C01 / C02 on the observed step

The property's reading of one observed step, as predicates on `Ctx` (= the scripted server's ground truth up
to and including the step + the implementation's observation tokens of the step):

* `OnceOK`        C01 "completes exactly once"
* `OwnOK`         C01 "with the peer's response to that very request (same id, payload intact)"
* `ErrorsOK`      C01 "or with an error once … the connection breaks or is closed"
* `LateOK`        C01 "calls started after that fail immediately with an error that identifies the connection as closed"
* `ConnectOK`, `TermOK`   the same for the initialize call inside `Client.Connect`; the client does not tear a usable connection down
* `BlockedOK`     C01 "never stays blocked once the session has terminated"
* `DeliveredOK`   C01 / C02: what a usable connection must have done with the message events received in this step
* `AnswersOK`     C02 "exactly one response bearing that same id (same JSON type and value)"

`sound_<clause>`: whenever `monCheck` raises the clause, the predicate it stands for is false.
`monitor_sound`: … for every clause at once (`Clause.pred`).  None of this mentions the model.
-/
namespace SseClient

/-! ### the predicates -/

/-- how often call `k` returned in this step -/
def Ctx.doneCount (c : Ctx) (k : Nat) : Nat := ((donesOf c.toks).filter (fun d => d.1 = k)).length

/-- C01 "completes exactly once": a call that returns was made, had not returned before, and returns once -/
def OnceOK (c : Ctx) : Prop :=
  ∀ d ∈ donesOf c.toks, (c.m.started.contains d.1 = true ∨ c.callsNow d.1 = true) ∧ c.m.finished.contains d.1 = false ∧ c.doneCount d.1 ≤ 1

/-- C01 "the peer's response to that very request": a result / a peer error is the received message event
bearing the call's id, payload intact -/
def OwnOK (c : Ctx) : Prop :=
  ∀ d ∈ donesOf c.toks,
    (∀ mk, d.2 = .res mk → c.hasResp d.1 true = true ∧ mk = c.expectedMarker d.1) ∧
    (∀ code, d.2 = .rpc code → c.hasResp d.1 false = true ∧ code = -31000 - (d.1 : Int)) ∧
    (∀ s, d.2 ≠ .other s)

/-- C01 "or with an error once the caller's context ends or the connection breaks or is closed" (the harness
never ends a caller's context before `fin`) -/
def ErrorsOK (c : Ctx) : Prop :=
  ∀ d ∈ donesOf c.toks, (d.2 = .err ∨ d.2 = .closed) → c.excused' = true

/-- C01 "calls started after that fail immediately with an error that identifies the connection as closed" -/
def LateOK (c : Ctx) : Prop :=
  c.m.termSeen = true →
    (∀ d ∈ donesOf c.toks, d.2 ≠ .err) ∧
    (∀ k l, c.op = .call k l → c.toks.contains .nosession = false → ∃ d ∈ donesOf c.toks, d.1 = k)

def ConnectOK (c : Ctx) : Prop :=
  (c.toks.contains .connErr = true → c.excused' = true) ∧ (c.toks.contains .connOk = true → c.hasResp 0 true = true)

def TermOK (c : Ctx) : Prop := c.toks.contains .term = true → c.excused' = true

/-- C01 "never stays blocked once the session has terminated" -/
def BlockedOK (c : Ctx) : Prop := c.op = .fin → c.m.termSeen = true → ∀ k, Tok.pend k ∉ c.toks

/-- what one live message item demands by the end of the step -/
def itemOK (c : Ctx) (p : Payload) : Prop :=
  match p with
  | .resp k ok =>
    if k = 0 ∧ ok = true then c.m.connRet = true ∨ c.toks.contains .connOk = true
    else c.m.posted.contains k = true → c.m.finished.contains k = false → ∃ d ∈ donesOf c.toks, d.1 = k
  | .req id _ => ∃ r ∈ respIdsOf c.toks, r.1 = id
  | _ => True

/-- C01 / C02 on a usable connection (every POST of the step accepted): every message event received in this
step was acted on — the call it answers completed, the request it carries was answered -/
def DeliveredOK (c : Ctx) : Prop :=
  (postsOf c.toks).any (fun p => !c.scn.postOk p) = false → ∀ ip ∈ c.live, itemOK c ip.2

/-- C02 "exactly one response bearing that same id": a response answers a received request of that id, there
are not more responses than requests, and it is of the kind the method demands -/
def AnswersOK (c : Ctx) : Prop :=
  ∀ pre r post, respIdsOf c.toks = pre ++ r :: post →
    c.reqCount r.1 ≠ 0 ∧
    ((c.m.answered ++ pre.map (·.1)).filter (· = r.1)).length + 1 ≤ c.reqCount r.1 ∧
    ((c.reqKinds r.1).contains r.2 = true ∨ (c.m.closeCalled = true ∧ r.2 = some Generated.SseClient.serverClosingCode))

def OrderOK (c : Ctx) : Prop := isSubseq (c.m.nts ++ ntsOf c.toks) c.notifs = true

def ExpectedOK (c : Ctx) : Prop := ∀ s, Tok.other s ∉ c.toks

/-- the predicate a clause stands for -/
def Clause.pred (c : Ctx) : Clause → Prop
  | .c01Twice _ => OnceOK c
  | .c01WrongResponse _ | .c01Unclassified _ => OwnOK c
  | .c01Spurious _ _ => ErrorsOK c
  | .c01LateNotClosed _ | .c01LateBlocked _ => LateOK c
  | .c01ConnectFailed _ | .c01ConnectNoResponse => ConnectOK c
  | .c01TermUnexpected _ => TermOK c
  | .c01BlockedAfterTerm _ => BlockedOK c
  | .c01Lost _ _ _ | .c02Unanswered _ _ _ => DeliveredOK c
  | .c02Foreign _ | .c02Twice _ | .c02WrongKind _ => AnswersOK c
  | .c03Order => OrderOK c
  | .unexpected _ => ExpectedOK c

/-! ### completions -/

theorem contains_true_of_mem {α} [BEq α] [LawfulBEq α] {l : List α} {a : α} (h : a ∈ l) : l.contains a = true := by
  simpa using h

/-- every clause `checkDone` raises, on a completion `(k, o)` seen after the completions `seen` of the step -/
theorem checkDone_cases (c : Ctx) (seen : List Nat) (k : Nat) (o : Outcome) (cl : Clause)
    (h : checkDone c seen k o = some cl) :
    (cl = .c01Twice k ∧ ((c.m.started.contains k = false ∧ c.callsNow k = false) ∨ c.m.finished.contains k = true ∨ seen.contains k = true)) ∨
    (cl = .c01WrongResponse k ∧ ((∃ mk, o = .res mk ∧ (c.hasResp k true = false ∨ mk ≠ c.expectedMarker k)) ∨
        (∃ code, o = .rpc code ∧ (c.hasResp k false = false ∨ code ≠ -31000 - (k : Int))))) ∨
    (cl = .c01Spurious k c.why ∧ (o = .err ∨ o = .closed) ∧ c.excused' = false) ∨
    (cl = .c01LateNotClosed k ∧ o = .err ∧ c.m.termSeen = true) ∨
    (cl = .c01Unclassified k ∧ ∃ s, o = .other s) := by
  unfold checkDone at h
  split at h
  · rename_i h1
    simp only [Bool.and_eq_true, Bool.not_eq_true'] at h1
    left; exact ⟨(Option.some.inj h).symm, Or.inl h1⟩
  · split at h
    · rename_i h2
      simp only [Bool.or_eq_true] at h2
      left; exact ⟨(Option.some.inj h).symm, Or.inr h2⟩
    · cases o with
      | res mk =>
        simp only at h
        split at h
        · rename_i h3
          right; left
          refine ⟨(Option.some.inj h).symm, Or.inl ⟨mk, rfl, Or.inl ?_⟩⟩
          simpa using h3
        · split at h
          · rename_i h4
            right; left
            exact ⟨(Option.some.inj h).symm, Or.inl ⟨mk, rfl, Or.inr h4⟩⟩
          · cases h
      | rpc code =>
        simp only at h
        split at h
        · rename_i h3
          right; left
          refine ⟨(Option.some.inj h).symm, Or.inr ⟨code, rfl, ?_⟩⟩
          simp only [Bool.or_eq_true, Bool.not_eq_true', decide_eq_true_eq] at h3
          exact h3
        · cases h
      | err =>
        simp only at h
        split at h
        · rename_i h3
          right; right; left
          refine ⟨(Option.some.inj h).symm, Or.inl rfl, ?_⟩
          simpa using h3
        · split at h
          · rename_i h4
            right; right; right; left
            exact ⟨(Option.some.inj h).symm, rfl, h4⟩
          · cases h
      | closed =>
        simp only at h
        split at h
        · rename_i h3
          right; right; left
          refine ⟨(Option.some.inj h).symm, Or.inr rfl, ?_⟩
          simpa using h3
        · cases h
      | other s =>
        simp only at h
        right; right; right; right
        exact ⟨(Option.some.inj h).symm, s, rfl⟩

/-- the clause comes from one completion of the list, judged against the ones before it -/
theorem checkDones_some (c : Ctx) (seen : List Nat) (l : List (Nat × Outcome)) (cl : Clause)
    (h : checkDones c seen l = some cl) :
    ∃ pre d post, l = pre ++ d :: post ∧ checkDone c ((pre.map (·.1)).reverse ++ seen) d.1 d.2 = some cl := by
  induction l generalizing seen with
  | nil => simp [checkDones] at h
  | cons d rest ih =>
    obtain ⟨k, o⟩ := d
    simp only [checkDones] at h
    split at h
    · rename_i cl' hc
      cases h
      exact ⟨[], (k, o), rest, rfl, by simpa using hc⟩
    · obtain ⟨pre, d', post, hl, hd⟩ := ih (k :: seen) h
      refine ⟨(k, o) :: pre, d', post, by simp [hl], ?_⟩
      simpa [List.reverse_cons, List.append_assoc] using hd

theorem count_two {l pre post : List (Nat × Outcome)} {d : Nat × Outcome} (hl : l = pre ++ d :: post)
    (hs : (pre.map (·.1)).contains d.1 = true) : 2 ≤ (l.filter (fun x => x.1 = d.1)).length := by
  subst hl
  have hm : d.1 ∈ pre.map (·.1) := by simpa using hs
  obtain ⟨e, he, hk⟩ := List.mem_map.mp hm
  have h1 : 1 ≤ (pre.filter (fun x => x.1 = d.1)).length := by
    apply List.length_pos_of_mem (a := e)
    exact List.mem_filter.mpr ⟨he, by simp [hk]⟩
  simp only [List.filter_append, List.length_append, List.filter_cons, decide_true, ite_true, List.length_cons]
  omega

/-- **the completions of a step**: a clause raised by `checkDones` refutes the predicate it stands for -/
theorem checkDones_sound (c : Ctx) (cl : Clause) (h : checkDones c [] (donesOf c.toks) = some cl) : ¬ cl.pred c := by
  obtain ⟨pre, d, post, hl, hd⟩ := checkDones_some c [] _ cl h
  have hmem : d ∈ donesOf c.toks := by rw [hl]; simp
  simp only [List.append_nil] at hd
  rcases checkDone_cases c _ d.1 d.2 cl hd with ⟨rfl, hc⟩ | ⟨rfl, hc⟩ | ⟨rfl, ho, he⟩ | ⟨rfl, ho, ht⟩ | ⟨rfl, s, ho⟩
  · intro hp
    obtain ⟨h1, h2, h3⟩ := hp d hmem
    rcases hc with ⟨ha, hb⟩ | hc | hc
    · rcases h1 with h1 | h1 <;> simp_all
    · simp_all
    · have hs : (pre.map (·.1)).contains d.1 = true := by
        have : d.1 ∈ (pre.map (·.1)).reverse := by simpa using hc
        simpa using this
      have := count_two hl hs
      unfold Ctx.doneCount at h3
      omega
  · intro hp
    obtain ⟨h1, h2, _⟩ := hp d hmem
    rcases hc with ⟨mk, ho, hc⟩ | ⟨code, ho, hc⟩
    · obtain ⟨ha, hb⟩ := h1 mk ho
      rcases hc with hc | hc
      · simp_all
      · exact hc hb
    · obtain ⟨ha, hb⟩ := h2 code ho
      rcases hc with hc | hc
      · simp_all
      · exact hc hb
  · intro hp
    have := hp d hmem ho
    simp_all
  · intro hp
    exact (hp ht).1 d hmem ho
  · intro hp
    exact (hp d hmem).2.2 s ho

/-! ### response POSTs -/

theorem checkResps_some (c : Ctx) (seen : List String) (l : List (String × Option Int)) (cl : Clause)
    (h : checkResps c seen l = some cl) :
    ∃ pre r post, l = pre ++ r :: post ∧
      ((cl = .c02Foreign r.1 ∧ c.reqCount r.1 = 0) ∨
       (cl = .c02Twice r.1 ∧ (((pre.map (·.1)).reverse ++ seen).filter (· = r.1)).length + 1 > c.reqCount r.1) ∨
       (cl = .c02WrongKind r.1 ∧ (c.reqKinds r.1).contains r.2 = false ∧
          ¬ (c.m.closeCalled = true ∧ r.2 = some Generated.SseClient.serverClosingCode))) := by
  induction l generalizing seen with
  | nil => simp [checkResps] at h
  | cons r rest ih =>
    obtain ⟨id, code⟩ := r
    simp only [checkResps] at h
    split at h
    · rename_i h0
      cases h
      exact ⟨[], (id, code), rest, rfl, Or.inl ⟨rfl, h0⟩⟩
    · split at h
      · rename_i h1
        cases h
        exact ⟨[], (id, code), rest, rfl, Or.inr (Or.inl ⟨rfl, by simpa using h1⟩)⟩
      · split at h
        · rename_i h2
          cases h
          refine ⟨[], (id, code), rest, rfl, Or.inr (Or.inr ⟨rfl, ?_⟩)⟩
          simp only [Bool.or_eq_true, Bool.and_eq_true, decide_eq_true_eq, Bool.not_eq_true', Bool.or_eq_false_iff] at h2
          refine ⟨h2.1, ?_⟩
          intro hx
          have := h2.2
          have hx2 : code = some Generated.SseClient.serverClosingCode := hx.2
          simp [hx.1, hx2] at this
        · obtain ⟨pre, r', post, hl, hd⟩ := ih (id :: seen) h
          refine ⟨(id, code) :: pre, r', post, by simp [hl], ?_⟩
          simpa [List.reverse_cons, List.append_assoc] using hd

theorem filter_length_perm_rev (a b : List String) (x : String) :
    ((a.reverse ++ b).filter (· = x)).length = ((b ++ a).filter (· = x)).length := by
  simp [List.filter_append, List.filter_reverse, Nat.add_comm]

theorem checkResps_sound (c : Ctx) (cl : Clause) (h : checkResps c c.m.answered (respIdsOf c.toks) = some cl) : ¬ cl.pred c := by
  obtain ⟨pre, r, post, hl, hc⟩ := checkResps_some c _ _ cl h
  rcases hc with ⟨rfl, h0⟩ | ⟨rfl, h1⟩ | ⟨rfl, h2, h3⟩
  · intro hp; exact (hp pre r post hl).1 h0
  · intro hp
    have := (hp pre r post hl).2.1
    rw [filter_length_perm_rev] at h1
    omega
  · intro hp
    rcases (hp pre r post hl).2.2 with hk | hk
    · rw [hk] at h2; cases h2
    · exact h3 hk

/-! ### live message items -/

theorem liveClause_some (c : Ctx) (i : Nat) (p : Payload) (cl : Clause) (h : liveClause c i p = some cl) :
    ¬ itemOK c p ∧ ((∃ k w u, cl = .c01Lost k w u) ∨ (∃ id w u, cl = .c02Unanswered id w u)) := by
  cases p with
  | resp k ok =>
    simp only [liveClause] at h
    split at h
    · rename_i hk
      split at h
      · rename_i hx
        simp only [Bool.and_eq_true, Bool.not_eq_true'] at hx
        refine ⟨?_, Or.inl ⟨0, _, _, (Option.some.inj h).symm⟩⟩
        have h2 : Tok.connOk ∉ c.toks := by
          intro hm
          have : c.toks.contains Tok.connOk = true := by simpa using hm
          rw [hx.2] at this; cases this
        simp [itemOK, hk, hx.1, h2]
      · cases h
    · rename_i hk
      split at h
      · rename_i hx
        simp only [Bool.and_eq_true, Bool.not_eq_true'] at hx
        refine ⟨?_, Or.inl ⟨k, _, _, (Option.some.inj h).symm⟩⟩
        simp only [itemOK, hk, ite_false]
        intro hok
        obtain ⟨d, hd, hdk⟩ := hok hx.1.1 hx.1.2
        have : (donesOf c.toks).any (fun d => d.1 = k) = true := List.any_eq_true.mpr ⟨d, hd, by simp [hdk]⟩
        simp [this] at hx
      · cases h
  | req id m =>
    simp only [liveClause] at h
    split at h
    · rename_i hx
      refine ⟨?_, Or.inr ⟨id, _, _, (Option.some.inj h).symm⟩⟩
      simp only [itemOK]
      intro hok
      obtain ⟨r, hr1, hr2⟩ := hok
      have : (respIdsOf c.toks).any (fun r => r.1 = id) = true := List.any_eq_true.mpr ⟨r, hr1, by simp [hr2]⟩
      simp [this] at hx
    · cases h
  | none => simp [liveClause] at h
  | fresp => simp [liveClause] at h
  | notif n => simp [liveClause] at h
  | junk => simp [liveClause] at h

theorem checkLive_some (c : Ctx) (l : List (Nat × Payload)) (cl : Clause) (h : checkLive c l = some cl) :
    ∃ ip ∈ l, ¬ itemOK c ip.2 ∧ ((∃ k w u, cl = .c01Lost k w u) ∨ (∃ id w u, cl = .c02Unanswered id w u)) := by
  induction l with
  | nil => simp [checkLive] at h
  | cons ip rest ih =>
    obtain ⟨i, p⟩ := ip
    simp only [checkLive] at h
    split at h
    · rename_i cl' hr
      cases h
      exact ⟨(i, p), by simp, liveClause_some c i p _ hr⟩
    · obtain ⟨ip, hm, hx⟩ := ih h
      exact ⟨ip, by simp [hm], hx⟩

theorem checkLive_sound (c : Ctx) (cl : Clause)
    (h : (if (postsOf c.toks).any (fun p => !c.scn.postOk p) then none else checkLive c c.live) = some cl) : ¬ cl.pred c := by
  split at h
  · cases h
  · rename_i hp
    have hp' : (postsOf c.toks).any (fun p => !c.scn.postOk p) = false := by simpa using hp
    obtain ⟨ip, hm, hx, hc⟩ := checkLive_some c c.live cl h
    rcases hc with ⟨k, w, u, rfl⟩ | ⟨id, w, u, rfl⟩
    · intro hd; exact hx (hd hp' ip hm)
    · intro hd; exact hx (hd hp' ip hm)

/-! ### the whole step -/

theorem firstSome_mem {l : List (Option Clause)} {cl : Clause} (h : firstSome l = some cl) : some cl ∈ l := by
  induction l with
  | nil => simp [firstSome] at h
  | cons o rest ih =>
    cases o with
    | some x => simp only [firstSome] at h; cases h; simp
    | none => simp only [firstSome] at h; simp [ih h]

/-- **monitor_sound.** Whenever the monitor raises a clause on a step, the predicate the clause stands for —
the property's reading of that step, on the scripted server's ground truth and the implementation's
observation — is false. -/
theorem monitor_sound (c : Ctx) (cl : Clause) (h : monCheck c = some cl) : ¬ cl.pred c := by
  have hm := firstSome_mem h
  simp only [List.mem_cons, List.not_mem_nil, or_false] at hm
  rcases hm with hm | hm | hm | hm | hm | hm | hm | hm | hm
  · -- an unexpected token
    obtain ⟨t, htm, hte⟩ := List.exists_of_findSome?_eq_some hm.symm
    cases t with
    | other s =>
      simp only [otherClause, Option.some.injEq] at hte
      subst hte
      intro hp; exact hp s htm
    | _ => simp [otherClause] at hte
  · exact checkDones_sound c cl hm.symm
  · split at hm
    · rename_i hx
      cases hm
      simp only [Bool.and_eq_true, Bool.not_eq_true'] at hx
      intro hp
      have := hp.1 hx.1
      simp [hx.2] at this
    · cases hm
  · split at hm
    · rename_i hx
      cases hm
      simp only [Bool.and_eq_true, Bool.not_eq_true'] at hx
      intro hp
      have := hp.2 hx.1
      simp [hx.2] at this
    · cases hm
  · split at hm
    · rename_i hx
      cases hm
      simp only [Bool.and_eq_true, Bool.not_eq_true'] at hx
      intro hp
      have := hp hx.1
      simp [hx.2] at this
    · cases hm
  · exact checkResps_sound c cl hm.symm
  · exact checkLive_sound c cl hm.symm
  · -- late calls / blocked at the end
    split at hm
    · rename_i k l hop
      split at hm
      · rename_i hx
        cases hm
        simp only [Bool.and_eq_true, Bool.not_eq_true'] at hx
        intro hp
        obtain ⟨d, hd, hk⟩ := (hp hx.1.1).2 k l hop hx.1.2
        have : (donesOf c.toks).any (fun d => d.1 = k) = true := List.any_eq_true.mpr ⟨d, hd, by simp [hk]⟩
        simp [this] at hx
      · cases hm
    · rename_i hop
      split at hm
      · rename_i ht
        obtain ⟨t, htm, hte⟩ := List.exists_of_findSome?_eq_some hm.symm
        cases t with
        | pend k =>
          simp only [pendClause, Option.some.injEq] at hte
          subst hte
          intro hp; exact hp hop ht k htm
        | _ => simp [pendClause] at hte
      · cases hm
    · cases hm
  · split at hm
    · cases hm
    · rename_i hx
      cases hm
      intro hp; exact hx hp

/-! ### the named corollaries -/

theorem sound_c01Twice (c : Ctx) (k : Nat) (h : monCheck c = some (.c01Twice k)) : ¬ OnceOK c := monitor_sound c _ h
theorem sound_c01WrongResponse (c : Ctx) (k : Nat) (h : monCheck c = some (.c01WrongResponse k)) : ¬ OwnOK c := monitor_sound c _ h
theorem sound_c01Unclassified (c : Ctx) (k : Nat) (h : monCheck c = some (.c01Unclassified k)) : ¬ OwnOK c := monitor_sound c _ h
theorem sound_c01Spurious (c : Ctx) (k : Nat) (w : Why) (h : monCheck c = some (.c01Spurious k w)) : ¬ ErrorsOK c := monitor_sound c _ h
theorem sound_c01LateNotClosed (c : Ctx) (k : Nat) (h : monCheck c = some (.c01LateNotClosed k)) : ¬ LateOK c := monitor_sound c _ h
theorem sound_c01LateBlocked (c : Ctx) (k : Nat) (h : monCheck c = some (.c01LateBlocked k)) : ¬ LateOK c := monitor_sound c _ h
theorem sound_c01ConnectFailed (c : Ctx) (w : Why) (h : monCheck c = some (.c01ConnectFailed w)) : ¬ ConnectOK c := monitor_sound c _ h
theorem sound_c01ConnectNoResponse (c : Ctx) (h : monCheck c = some .c01ConnectNoResponse) : ¬ ConnectOK c := monitor_sound c _ h
theorem sound_c01TermUnexpected (c : Ctx) (w : Why) (h : monCheck c = some (.c01TermUnexpected w)) : ¬ TermOK c := monitor_sound c _ h
theorem sound_c01BlockedAfterTerm (c : Ctx) (k : Nat) (h : monCheck c = some (.c01BlockedAfterTerm k)) : ¬ BlockedOK c := monitor_sound c _ h
theorem sound_c01Lost (c : Ctx) (k : Nat) (w : Why) (u : Bool) (h : monCheck c = some (.c01Lost k w u)) : ¬ DeliveredOK c := monitor_sound c _ h
theorem sound_c02Unanswered (c : Ctx) (id : String) (w : Why) (u : Bool) (h : monCheck c = some (.c02Unanswered id w u)) : ¬ DeliveredOK c := monitor_sound c _ h
theorem sound_c02Foreign (c : Ctx) (id : String) (h : monCheck c = some (.c02Foreign id)) : ¬ AnswersOK c := monitor_sound c _ h
theorem sound_c02Twice (c : Ctx) (id : String) (h : monCheck c = some (.c02Twice id)) : ¬ AnswersOK c := monitor_sound c _ h
theorem sound_c02WrongKind (c : Ctx) (id : String) (h : monCheck c = some (.c02WrongKind id)) : ¬ AnswersOK c := monitor_sound c _ h
theorem sound_c03Order (c : Ctx) (h : monCheck c = some .c03Order) : ¬ OrderOK c := monitor_sound c _ h
theorem sound_unexpected (c : Ctx) (s : String) (h : monCheck c = some (.unexpected s)) : ¬ ExpectedOK c := monitor_sound c _ h

end SseClient
