import McpModel.SseClient.BridgeBytes
/-!
# Bridge, part 2: what the model does with the payloads of one read while the connection is healthy

`hRun`: the effect of a list of (non-excusing) message payloads on the set of registered calls and the
tokens they produce, as a plain recursion; `deliverAll_healthy`: the model's `deliverAll` IS `hRun` as long
as no shutdown flag is set and every POST is accepted; then the facts about `hRun` the monitor's checks
need (R1–R8).
-/
namespace SseClient
open Wire

def outcomeOf (lists : List Nat) (k : Nat) (ok : Bool) : Outcome :=
  if ok then .res (if lists.contains k then some k else none) else .rpc (-31000 - (k : Int))

/-- one payload on a healthy connection: the registered calls afterwards, and the tokens -/
def hStep (lists pend : List Nat) : Payload → List Nat × List Tok
  | .resp k ok =>
    if pend.contains k then
      (pend.erase k, if k = 0 then [.post .initialized, .connOk] else [.done k (outcomeOf lists k ok)])
    else (pend, [])
  | .req id m => (pend, [.post (.resp id (errCodeOf m))])
  | .notif n => (pend, [.nt [n]])
  | _ => (pend, [])

def hRun (lists : List Nat) : List Nat → List Payload → List Nat × List Tok
  | pend, [] => (pend, [])
  | pend, p :: ps => ((hRun lists (hStep lists pend p).1 ps).1, (hStep lists pend p).2 ++ (hRun lists (hStep lists pend p).1 ps).2)

/-- a payload a healthy scenario contains: a message, and not one that excuses a shutdown -/
def goodPayload (p : Payload) : Bool := p.isMsg && !excusing p

/-- the model's state while nothing is wrong -/
structure HS (s : St) : Prop where
  up : s.phase = .up
  rdead : s.rdead = false
  wdead : s.wdead = false
  closing : s.closing = false
  done : s.done = false
  closeWait : s.closeWait = false
  handed : s.handed = s.connRet
  pend0 : 0 ∈ s.pending → s.connRet = false
  nodup : s.pending.Nodup

theorem settle_healthy (s : St) (h : HS s) : settle s = (s, []) := by
  simp [settle, St.shutting, h.rdead, h.wdead, h.closing]

/-- one delivery on a healthy connection -/
theorem deliver_healthy (scn : Scn) (hp : ∀ p, scn.postOk p = true) (s : St) (h : HS s) (p : Payload) (hg : goodPayload p = true) :
    ∃ s', deliver scn s p = (s', (hStep s.lists s.pending p).2) ∧ HS s' ∧
      s'.pending = (hStep s.lists s.pending p).1 ∧ s'.lists = s.lists ∧ s'.fed = s.fed ∧ s'.seen = s.seen ∧
      s'.hasBody = s.hasBody ∧ s'.target = s.target ∧
      s'.connRet = (s.connRet || (s.pending.contains 0 && decide (p = .resp 0 true))) := by
  cases p with
  | resp k ok =>
    by_cases hk : k ∈ s.pending
    · by_cases h0 : k = 0
      · subst h0
        have hok : ok = true := by
          cases ok with
          | true => rfl
          | false => simp [goodPayload, excusing] at hg
        subst hok
        have hcr : s.connRet = false := h.pend0 hk
        refine ⟨{ s with pending := s.pending.erase 0, connRet := true, handed := true }, ?_, ?_, ?_⟩
        · simp [deliver, hk, St.shutting, h.rdead, h.wdead, h.closing, hp, hStep]
        · refine ⟨h.up, h.rdead, h.wdead, h.closing, h.done, h.closeWait, rfl, ?_, h.nodup.erase 0⟩
          intro hm
          exact absurd rfl ((List.Nodup.mem_erase_iff h.nodup).mp hm).1
        · simp [hStep, hk, hcr]
      · refine ⟨{ s with pending := s.pending.erase k }, ?_, ?_, ?_⟩
        · cases ok <;> simp [deliver, hk, h0, hStep, outcomeOf]
        · exact ⟨h.up, h.rdead, h.wdead, h.closing, h.done, h.closeWait, h.handed, fun hm => h.pend0 (List.mem_of_mem_erase hm), h.nodup.erase k⟩
        · simp [hStep, hk, h0]
    · refine ⟨s, ?_, h, ?_⟩
      · simp [deliver, hk, hStep]
      · have : ¬ (0 ∈ s.pending ∧ k = 0) := by
          rintro ⟨h1, rfl⟩; exact hk h1
        simp only [hStep, List.contains_iff_mem, hk, decide_false, Bool.false_eq_true, ite_false, true_and]
        by_cases h0 : (0 : Nat) ∈ s.pending
        · have : k ≠ 0 := by rintro rfl; exact hk h0
          simp [this]
        · simp [h0]
  | fresp => exact ⟨s, by simp [deliver, hStep], h, by simp [hStep]⟩
  | req id m =>
    refine ⟨{ s with wdead := false }, ?_, ?_, ?_⟩
    · simp [deliver, h.wdead, h.closing, hp, hStep]
    · exact ⟨h.up, h.rdead, rfl, h.closing, h.done, h.closeWait, h.handed, h.pend0, h.nodup⟩
    · simp [hStep]
  | notif n =>
    refine ⟨s, ?_, h, ?_⟩
    · simp [deliver, St.shutting, h.rdead, h.wdead, h.closing, hStep]
    · simp [hStep]
  | none => simp [goodPayload, Payload.isMsg] at hg
  | junk => simp [goodPayload, Payload.isMsg] at hg

theorem hStep_connRet (lists pend : List Nat) (p : Payload) :
    (pend.contains 0 && decide (p = .resp 0 true)) = (hStep lists pend p).2.contains .connOk ∨ p = .resp 0 false := by
  cases p with
  | resp k ok =>
    by_cases hk : k ∈ pend
    · by_cases h0 : k = 0
      · subst h0
        cases ok with
        | true => left; simp [hStep, hk]
        | false => right; rfl
      · left; simp [hStep, hk, h0]
    · left
      have : ¬ (0 ∈ pend ∧ k = 0 ∧ ok = true) := by rintro ⟨h1, rfl, _⟩; exact hk h1
      by_cases h0 : (0 : Nat) ∈ pend
      · have hk0 : k ≠ 0 := by rintro rfl; exact hk h0
        simp [hStep, hk, hk0]
      · simp [hStep, hk, h0]
  | fresp => left; simp [hStep]
  | req id m => left; simp [hStep]
  | notif n => left; simp [hStep]
  | none => left; simp [hStep]
  | junk => left; simp [hStep]

/-- **deliverAll_healthy.** While nothing is wrong, the model's reader loop is `hRun`. -/
theorem deliverAll_healthy (scn : Scn) (hp : ∀ p, scn.postOk p = true) (ps : List Payload) (s : St) (h : HS s)
    (hg : ∀ p ∈ ps, goodPayload p = true) :
    ∃ s', deliverAll scn s ps = (s', (hRun s.lists s.pending ps).2) ∧ HS s' ∧
      s'.pending = (hRun s.lists s.pending ps).1 ∧ s'.lists = s.lists ∧ s'.fed = s.fed ∧ s'.seen = s.seen ∧
      s'.hasBody = s.hasBody ∧ s'.target = s.target ∧
      s'.connRet = (s.connRet || (hRun s.lists s.pending ps).2.contains .connOk) := by
  induction ps generalizing s with
  | nil => exact ⟨s, by simp [deliverAll, hRun], h, by simp [hRun]⟩
  | cons p ps ih =>
    obtain ⟨s1, hd, h1, hpend, hlists, hfed, hseen, hbody, htarget, hcr⟩ := deliver_healthy scn hp s h p (hg p (by simp))
    obtain ⟨s2, hd2, h2, hpend2, hlists2, hfed2, hseen2, hbody2, htarget2, hcr2⟩ := ih s1 h1 (fun q hq => hg q (by simp [hq]))
    refine ⟨s2, ?_, h2, ?_⟩
    · simp only [deliverAll, h.rdead, h.done, Bool.false_eq_true, or_self, ite_false, hd, settle_healthy s1 h1, hd2,
        List.append_nil, hRun, hlists, hpend]
    · refine ⟨by rw [hpend2, hlists, hpend]; rfl, by rw [hlists2, hlists], by rw [hfed2, hfed], by rw [hseen2, hseen],
        by rw [hbody2, hbody], by rw [htarget2, htarget], ?_⟩
      rw [hcr2, hcr, hlists, hpend]
      have hne : p ≠ .resp 0 false := by
        intro e; have := hg p (by simp); simp [e, goodPayload, excusing] at this
      rcases hStep_connRet s.lists s.pending p with he | he
      · rw [he]; simp only [hRun, List.contains_append, Bool.or_assoc]
      · exact absurd he hne

/-! ### facts about `hRun` -/

/-- the tokens of a healthy run are POSTs of responses / of `initialized`, `conn:ok`, completions and notifications -/
inductive HTok : Tok → Prop where
  | ni : HTok (.post .initialized)
  | connOk : HTok .connOk
  | resp (id c) : HTok (.post (.resp id c))
  | done (k o) : HTok (.done k o)
  | nt (ns) : HTok (.nt ns)

theorem hStep_toks (lists pend : List Nat) (p : Payload) : ∀ t ∈ (hStep lists pend p).2, HTok t := by
  intro t ht
  cases p with
  | resp k ok =>
    simp only [hStep] at ht
    split at ht
    · split at ht
      · simp only [List.mem_cons, List.not_mem_nil, or_false] at ht
        rcases ht with rfl | rfl
        · exact .ni
        · exact .connOk
      · simp only [List.mem_cons, List.not_mem_nil, or_false] at ht
        subst ht; exact .done _ _
    · simp at ht
  | req id m => simp only [hStep, List.mem_cons, List.not_mem_nil, or_false] at ht; subst ht; exact .resp _ _
  | notif n => simp only [hStep, List.mem_cons, List.not_mem_nil, or_false] at ht; subst ht; exact .nt _
  | fresp => simp [hStep] at ht
  | none => simp [hStep] at ht
  | junk => simp [hStep] at ht

theorem hRun_toks (lists : List Nat) (ps : List Payload) (pend : List Nat) : ∀ t ∈ (hRun lists pend ps).2, HTok t := by
  induction ps generalizing pend with
  | nil => simp [hRun]
  | cons p ps ih =>
    intro t ht
    simp only [hRun, List.mem_append] at ht
    rcases ht with ht | ht
    · exact hStep_toks lists pend p t ht
    · exact ih _ t ht

/-- what the payloads of one read ask for -/
def reqsOf (ps : List Payload) : List (String × Option Int) :=
  ps.filterMap (fun p => match p with | .req id m => some (id, errCodeOf m) | _ => none)
def notifsOf (ps : List Payload) : List Nat := ps.filterMap (fun p => match p with | .notif n => some n | _ => none)

theorem donesOf_append (a b : List Tok) : donesOf (a ++ b) = donesOf a ++ donesOf b := by simp [donesOf]
theorem postsOf_append (a b : List Tok) : postsOf (a ++ b) = postsOf a ++ postsOf b := by simp [postsOf]
theorem respIdsOf_append (a b : List Tok) : respIdsOf (a ++ b) = respIdsOf a ++ respIdsOf b := by
  simp [respIdsOf, postsOf_append]
theorem ntsOf_append (a b : List Tok) : ntsOf (a ++ b) = ntsOf a ++ ntsOf b := by simp [ntsOf]

/-- (R2) every request of the read is answered once, in order, with the code its method demands -/
theorem hRun_resps (lists : List Nat) (ps : List Payload) (pend : List Nat) :
    respIdsOf (hRun lists pend ps).2 = reqsOf ps := by
  induction ps generalizing pend with
  | nil => simp [hRun, respIdsOf, postsOf, reqsOf]
  | cons p ps ih =>
    simp only [hRun, respIdsOf_append, ih]
    cases p with
    | resp k ok =>
      simp only [hStep]
      split
      · split <;> simp [respIdsOf, postsOf, reqsOf]
      · simp [respIdsOf, postsOf, reqsOf]
    | req id m => simp [hStep, respIdsOf, postsOf, reqsOf]
    | notif n => simp [hStep, respIdsOf, postsOf, reqsOf]
    | fresp => simp [hStep, respIdsOf, postsOf, reqsOf]
    | none => simp [hStep, respIdsOf, postsOf, reqsOf]
    | junk => simp [hStep, respIdsOf, postsOf, reqsOf]

/-- (R3) every notification of the read is handled once, in order -/
theorem hRun_nts (lists : List Nat) (ps : List Payload) (pend : List Nat) :
    ntsOf (hRun lists pend ps).2 = notifsOf ps := by
  induction ps generalizing pend with
  | nil => simp [hRun, ntsOf, notifsOf]
  | cons p ps ih =>
    simp only [hRun, ntsOf_append, ih]
    cases p with
    | resp k ok =>
      simp only [hStep]
      split
      · split <;> simp [ntsOf, notifsOf]
      · simp [ntsOf, notifsOf]
    | req id m => simp [hStep, ntsOf, notifsOf]
    | notif n => simp [hStep, ntsOf, notifsOf]
    | fresp => simp [hStep, ntsOf, notifsOf]
    | none => simp [hStep, ntsOf, notifsOf]
    | junk => simp [hStep, ntsOf, notifsOf]

/-- (R8) no request of the client's own is POSTed while responses are read -/
theorem hRun_no_calls (lists : List Nat) (ps : List Payload) (pend : List Nat) :
    callsIn (hRun lists pend ps).2 = [] := by
  unfold callsIn
  have h := hRun_toks lists ps pend
  generalize (hRun lists pend ps).2 = toks at h
  induction toks with
  | nil => simp [postsOf]
  | cons t ts ih =>
    have ht := h t (by simp)
    have := ih (fun x hx => h x (by simp [hx]))
    cases ht <;> simpa [postsOf] using this

theorem hStep_pend (lists pend : List Nat) (p : Payload) (k : Nat) :
    k ∈ (hStep lists pend p).1 → k ∈ pend := by
  cases p with
  | resp k' ok =>
    simp only [hStep]
    split
    · exact List.mem_of_mem_erase
    · exact id
  | _ => simp [hStep]

theorem hStep_nodup (lists pend : List Nat) (p : Payload) (h : pend.Nodup) : (hStep lists pend p).1.Nodup := by
  cases p with
  | resp k' ok =>
    simp only [hStep]
    split
    · exact h.erase _
    · exact h
  | _ => simpa [hStep] using h

/-- the completions of one payload -/
theorem hStep_dones (lists pend : List Nat) (p : Payload) :
    donesOf (hStep lists pend p).2 =
      (match p with
       | .resp k ok => if k ∈ pend ∧ k ≠ 0 then [(k, outcomeOf lists k ok)] else []
       | _ => []) := by
  cases p with
  | resp k ok =>
    by_cases hk : k ∈ pend
    · by_cases h0 : k = 0
      · subst h0; simp [hStep, hk, donesOf]
      · simp [hStep, hk, h0, donesOf]
    · simp [hStep, hk, donesOf]
  | req id m => simp [hStep, donesOf]
  | notif n => simp [hStep, donesOf]
  | fresp => simp [hStep, donesOf]
  | none => simp [hStep, donesOf]
  | junk => simp [hStep, donesOf]

/-- (R1) every completion of the read is a registered call (other than initialize) answered by a response of
the read, with that response's outcome; no call completes twice -/
theorem hRun_dones (lists : List Nat) (ps : List Payload) (pend : List Nat) (hn : pend.Nodup) :
    (∀ d ∈ donesOf (hRun lists pend ps).2, d.1 ≠ 0 ∧ d.1 ∈ pend ∧ ∃ ok, .resp d.1 ok ∈ ps ∧ d.2 = outcomeOf lists d.1 ok) ∧
    ((donesOf (hRun lists pend ps).2).map (·.1)).Nodup := by
  induction ps generalizing pend with
  | nil => simp [hRun, donesOf]
  | cons p ps ih =>
    obtain ⟨i1, i2⟩ := ih (hStep lists pend p).1 (hStep_nodup lists pend p hn)
    simp only [hRun, donesOf_append, hStep_dones]
    constructor
    · intro d hd
      rcases List.mem_append.mp hd with hd | hd
      · cases p with
        | resp k ok =>
          simp only at hd
          split at hd
          · rename_i hk
            simp only [List.mem_cons, List.not_mem_nil, or_false] at hd
            subst hd
            exact ⟨hk.2, hk.1, ok, by simp, rfl⟩
          · simp at hd
        | _ => simp at hd
      · obtain ⟨a, b, ok, c, e⟩ := i1 d hd
        exact ⟨a, hStep_pend lists pend p _ b, ok, by simp [c], e⟩
    · rw [List.map_append, List.nodup_append]
      refine ⟨?_, i2, ?_⟩
      · cases p with
        | resp k ok => simp only; split <;> simp
        | _ => simp
      · intro a ha b hb
        cases p with
        | resp k ok =>
          simp only at ha
          split at ha
          · rename_i hk
            simp only [List.map_cons, List.map_nil, List.mem_cons, List.not_mem_nil, or_false] at ha
            subst ha
            obtain ⟨d, hd, rfl⟩ := List.mem_map.mp hb
            have hmem := (i1 d hd).2.1
            simp only [hStep, List.contains_iff_mem, hk.1, decide_true, ite_true] at hmem
            intro e
            rw [← e] at hmem
            exact absurd rfl ((List.Nodup.mem_erase_iff hn).mp hmem).1
          · simp at ha
        | _ => simp at ha

/-- (R6) a response of the read to a registered call completes that call -/
theorem hRun_completes (lists : List Nat) (ps : List Payload) (pend : List Nat) (k : Nat) (ok : Bool)
    (hk : k ∈ pend) (h0 : k ≠ 0) (hp : .resp k ok ∈ ps) : ∃ d ∈ donesOf (hRun lists pend ps).2, d.1 = k := by
  induction ps generalizing pend with
  | nil => simp at hp
  | cons p ps ih =>
    simp only [hRun, donesOf_append, hStep_dones]
    by_cases hd : ∃ ok', p = .resp k ok'
    · obtain ⟨ok', rfl⟩ := hd
      exact ⟨(k, outcomeOf lists k ok'), by simp [hk, h0], rfl⟩
    · -- `p` leaves `k` registered
      have hk' : k ∈ (hStep lists pend p).1 := by
        cases p with
        | resp k' ok' =>
          have hne : k' ≠ k := by rintro rfl; exact hd ⟨ok', rfl⟩
          simp only [hStep]
          split
          · exact (List.mem_erase_of_ne (Ne.symm hne)).mpr hk
          · exact hk
        | _ => simpa [hStep] using hk
      have hp' : Payload.resp k ok ∈ ps := by
        rcases List.mem_cons.mp hp with e | e
        · exact absurd ⟨ok, e.symm⟩ hd
        · exact e
      obtain ⟨d, hd1, hd2⟩ := ih _ hk' hp'
      exact ⟨d, List.mem_append_right _ hd1, hd2⟩

/-- (R4) the initialize response of the read completes `Client.Connect` -/
theorem hRun_connOk (lists : List Nat) (ps : List Payload) (pend : List Nat)
    (hk : 0 ∈ pend) (hp : .resp 0 true ∈ ps) (hg : ∀ p ∈ ps, goodPayload p = true) :
    Tok.connOk ∈ (hRun lists pend ps).2 := by
  induction ps generalizing pend with
  | nil => simp at hp
  | cons p ps ih =>
    simp only [hRun, List.mem_append]
    by_cases hd : ∃ ok', p = .resp 0 ok'
    · obtain ⟨ok', rfl⟩ := hd
      left; simp [hStep, hk]
    · right
      have hk' : 0 ∈ (hStep lists pend p).1 := by
        cases p with
        | resp k' ok' =>
          have hne : k' ≠ 0 := by rintro rfl; exact hd ⟨ok', rfl⟩
          simp only [hStep]
          split
          · exact (List.mem_erase_of_ne (Ne.symm hne)).mpr hk
          · exact hk
        | _ => simpa [hStep] using hk
      have hp' : Payload.resp 0 true ∈ ps := by
        rcases List.mem_cons.mp hp with e | e
        · exact absurd ⟨true, e.symm⟩ hd
        · exact e
      exact ih _ hk' hp' (fun q hq => hg q (by simp [hq]))

/-- … and `conn:ok` is only ever produced by an initialize response of the read -/
theorem hRun_connOk_inv (lists : List Nat) (ps : List Payload) (pend : List Nat)
    (h : Tok.connOk ∈ (hRun lists pend ps).2) : ∃ ok, Payload.resp 0 ok ∈ ps := by
  induction ps generalizing pend with
  | nil => simp [hRun] at h
  | cons p ps ih =>
    simp only [hRun, List.mem_append] at h
    rcases h with h | h
    · cases p with
      | resp k ok =>
        simp only [hStep] at h
        split at h
        · split at h
          · rename_i hk0; subst hk0; exact ⟨ok, by simp⟩
          · simp at h
        · simp at h
      | req id m => simp [hStep] at h
      | notif n => simp [hStep] at h
      | fresp => simp [hStep] at h
      | none => simp [hStep] at h
      | junk => simp [hStep] at h
    · obtain ⟨ok, hok⟩ := ih _ h
      exact ⟨ok, by simp [hok]⟩

/-- (R7) which calls stay registered -/
theorem hRun_pend (lists : List Nat) (ps : List Payload) (pend : List Nat) (hn : pend.Nodup) (k : Nat) :
    k ∈ (hRun lists pend ps).1 ↔ (k ∈ pend ∧ ∀ ok, Payload.resp k ok ∉ ps) := by
  induction ps generalizing pend with
  | nil => simp [hRun]
  | cons p ps ih =>
    simp only [hRun]
    rw [ih _ (hStep_nodup lists pend p hn)]
    cases p with
    | resp k' ok' =>
      simp only [hStep]
      by_cases hk' : k' ∈ pend
      · simp only [List.contains_iff_mem, hk', decide_true, ite_true]
        by_cases e : k' = k
        · subst e
          constructor
          · rintro ⟨h1, _⟩; exact absurd rfl ((List.Nodup.mem_erase_iff hn).mp h1).1
          · rintro ⟨_, h2⟩; exact absurd (by simp) (h2 ok')
        · rw [List.mem_erase_of_ne (Ne.symm e)]
          constructor
          · rintro ⟨h1, h2⟩
            refine ⟨h1, fun ok hm => ?_⟩
            rcases List.mem_cons.mp hm with hm | hm
            · cases hm; exact e rfl
            · exact h2 ok hm
          · rintro ⟨h1, h2⟩; exact ⟨h1, fun ok hm => h2 ok (by simp [hm])⟩
      · simp only [List.contains_iff_mem, hk', decide_false, Bool.false_eq_true, ite_false]
        constructor
        · rintro ⟨h1, h2⟩
          refine ⟨h1, fun ok hm => ?_⟩
          rcases List.mem_cons.mp hm with hm | hm
          · cases hm; exact hk' h1
          · exact h2 ok hm
        · rintro ⟨h1, h2⟩; exact ⟨h1, fun ok hm => h2 ok (by simp [hm])⟩
    | req id m => simp [hStep]
    | notif n => simp [hStep]
    | fresp => simp [hStep]
    | none => simp [hStep]
    | junk => simp [hStep]

theorem hRun_nodup (lists : List Nat) (ps : List Payload) (pend : List Nat) (hn : pend.Nodup) : (hRun lists pend ps).1.Nodup := by
  induction ps generalizing pend with
  | nil => simpa [hRun] using hn
  | cons p ps ih => simp only [hRun]; exact ih _ (hStep_nodup lists pend p hn)

end SseClient
