import McpModel.SseClient.Model
/-!
# The typed C01 / C02 monitor of engine `sseclient`

Decides, from the IMPLEMENTATION's observation tokens, which clause of C01 / C02 is violated.  The driver
parses the harness's records into `Op` / `Tok`, calls `monStep` and renders the `Clause` (`Clause.text`,
in the driver).  `Bridge.lean`: the monitor raises no clause on any run of the model
(`monitor_accepts_model`); `Sound.lean`: every clause it raises contradicts the property's reading on the
observed step (`sound_<clause>`).

The monitor does not use the scanner model, the pump or the session model.  Its ground truth is what the
scripted foreign server did: the framed events it wrote (`FEvent.denote`: what a framed event MEANS
under the text/event-stream processing model), how many bytes of them it has handed to the client,
which statuses it answered POSTs with, and the operations of the harness.  An event was *received* when
all its bytes including the blank line were handed over; it *is a message* iff its type is "message"
(named, or by default when it has no `event` field) and its data is not empty (`isMessage`).
-/
namespace SseClient
open Wire

/-! ### ground truth -/

/-- how many leading items lie completely within the first `fed` bytes -/
def completeN : List Item → Nat → Nat
  | [], _ => 0
  | it :: rest, fed => if it.bytes.length ≤ fed then completeN rest (fed - it.bytes.length) + 1 else 0

/-- byte offset at which item `i` ends -/
def endOff (items : List Item) (i : Nat) : Nat := ((items.take (i + 1)).map (·.bytes.length)).sum

/-- the first item that is an event at all (comment-only blocks before it denote nothing) -/
def epIdx (items : List Item) : Nat := (items.findIdx (fun it => !it.fe.denote.isEmpty))

/-- the server greets as the transport demands: the first event is `endpoint` with a reference the model speaks about -/
def epLegal (scn : Scn) : Bool :=
  match scn.items[epIdx scn.items]? with
  | some it => it.fe.denote.name = epName && refOK it.fe.denote.data && refOK scn.base
  | none => true

/-- item `i` carries a JSON-RPC message: an event after the endpoint event, of type "message", with data -/
def Scn.isMsgItem (scn : Scn) (i : Nat) : Bool :=
  match scn.items[i]? with
  | some it => decide (epIdx scn.items < i) && isMessage it.fe.denote
  | none => false

/-- the message items of `l` (whose head has index `i`) with their indices: events after the endpoint event
(index `ep`), of type "message", with data -/
def msgFrom (ep : Nat) : Nat → List Item → List (Nat × Payload)
  | _, [] => []
  | i, it :: t => (if decide (ep < i) && isMessage it.fe.denote then [(i, it.payload)] else []) ++ msgFrom ep (i + 1) t

/-- the message items with index in `[a, b)` -/
def newMsgs (scn : Scn) (a b : Nat) : List (Nat × Payload) :=
  msgFrom (epIdx scn.items) a ((scn.items.take b).drop a)

/-- the payloads of the message items among the first `n` items -/
def Scn.msgsUpTo (scn : Scn) (n : Nat) : List Payload := (newMsgs scn 0 n).map (·.2)

/-- an event the scanner dispatches but that is NOT a message (another type, or no data) was received:
the shape of F41 (engine-local name sseclient-F40) -/
def Scn.nonMsgSeen (scn : Scn) (n : Nat) : Bool :=
  (List.range n).any (fun i => decide (epIdx scn.items < i) && !scn.isMsgItem i &&
    (match scn.items[i]? with | some it => !it.fe.denote.isEmpty | none => false))

inductive Why where
  | plain
  | nonMessageEvent       -- F41 (sseclient-F40)
  | sameReadAsEndpoint    -- F42 (sseclient-F41)
deriving DecidableEq, Repr

/-! ### bookkeeping -/

structure Mon where
  hasBody : Bool := false
  fed : Nat := 0
  nComplete : Nat := 0            -- items received
  /-- the connection broke, was closed, or the peer left the protocol: errors are admissible from here on -/
  excused : Bool := false
  closeCalled : Bool := false
  /-- where the network read that completed the endpoint event ended -/
  epReadEnd : Nat := 0
  started : List Nat := []
  posted : List Nat := []
  finished : List Nat := []
  lists : List Nat := []
  answered : List String := []
  nts : List Nat := []
  connRet : Bool := false
  connFailed : Bool := false
  termSeen : Bool := false
deriving Repr

inductive Clause where
  | c01Twice (k : Nat)
  | c01WrongResponse (k : Nat)
  | c01Spurious (k : Nat) (w : Why)
  | c01Unclassified (k : Nat)
  | c01LateNotClosed (k : Nat)
  | c01ConnectFailed (w : Why)
  | c01ConnectNoResponse
  | c01TermUnexpected (w : Why)
  | c01LateBlocked (k : Nat)
  | c01BlockedAfterTerm (k : Nat)
  | c01Lost (k : Nat) (w : Why) (unnamed : Bool)
  | c02Foreign (id : String)
  | c02Twice (id : String)
  | c02WrongKind (id : String)
  | c02Unanswered (id : String) (w : Why) (unnamed : Bool)
  | c03Order
  | unexpected (s : String)
deriving DecidableEq, Repr

/-! ### one step -/

def postsOf (toks : List Tok) : List PostId := toks.filterMap (fun t => match t with | .post p => some p | _ => none)
def donesOf (toks : List Tok) : List (Nat × Outcome) := toks.filterMap (fun t => match t with | .done k o => some (k, o) | _ => none)
def respIdsOf (toks : List Tok) : List (String × Option Int) :=
  (postsOf toks).filterMap (fun p => match p with | .resp id c => some (id, c) | _ => none)
def ntsOf (toks : List Tok) : List Nat := toks.flatMap (fun t => match t with | .nt ns => ns | _ => [])

/-- where the read that delivers byte number `off` (1-based: the read in which the total reaches `off`) ends -/
def readEnd (start : Nat) (chunks : List Nat) (off : Nat) : Nat :=
  match chunks with
  | [] => start
  | c :: cs => if off ≤ start + c then start + c else readEnd (start + c) cs off

/-- the first position in `l` from which an excusing payload was received: the live prefix is what a
usable connection must have processed -/
def excusing : Payload → Bool
  | .junk => true            -- the peer sent text that is not JSON-RPC in a message event
  | .resp 0 false => true    -- the peer refused the initialize call: Connect gives the session up
  | .none => true            -- a message event whose payload the script does not label (ScnOK excludes it)
  | _ => false

/-- the bookkeeping after the ground truth of the step is known (before looking at the observation) -/
structure Ctx where
  scn : Scn
  m : Mon                       -- before the step
  op : Op
  toks : List Tok
  n' : Nat                      -- items received after the step
  live : List (Nat × Payload)   -- the message items newly received while the connection was usable (index, payload)
  excused' : Bool               -- excused after the step

def livePrefix (l : List (Nat × Payload)) : List (Nat × Payload) := l.takeWhile (fun p => !excusing p.2)

def mkCtx (scn : Scn) (m : Mon) (op : Op) (toks : List Tok) : Ctx :=
  let feeds := match op with | .feed _ _ => m.hasBody | _ => false
  let fed' := match op with | .feed n _ => if feeds then min (m.fed + n) scn.full.length else m.fed | _ => m.fed
  let n' := if feeds then completeN scn.items fed' else m.nComplete
  let new := newMsgs scn m.nComplete n'
  let live := if m.excused then [] else livePrefix new
  let opExcuses := match op with
    | .endStream | .close => true
    | .connect => (match scn.get with
        | .ok => false
        | .terr => true
        | .st c => !(Generated.SseClient.connectStatusLo ≤ c && c < Generated.SseClient.connectStatusHi))
    | _ => false
  let epBad := decide (epIdx scn.items < n') && !epLegal scn
  let postFailed := (postsOf toks).any (fun p => !scn.postOk p)
  { scn := scn, m := m, op := op, toks := toks, n' := n', live := live,
    excused' := m.excused || opExcuses || epBad || postFailed || new.any (fun p => excusing p.2) }

def Ctx.why (c : Ctx) : Why :=
  if c.scn.nonMsgSeen c.n' then .nonMessageEvent
  else if endOff c.scn.items (epIdx c.scn.items) < c.m.epReadEnd then .sameReadAsEndpoint
  else .plain

def unnamedItem (scn : Scn) (i : Nat) : Bool :=
  match scn.items[i]? with | some it => it.fe.denote.name = [] | none => false

/-- the message items received so far that are the response to call `k` with the given kind -/
def Ctx.hasResp (c : Ctx) (k : Nat) (ok : Bool) : Bool := (c.scn.msgsUpTo c.n').contains (.resp k ok)

def Ctx.reqCount (c : Ctx) (id : String) : Nat :=
  ((c.scn.msgsUpTo c.n').filter (fun p => match p with | .req id' _ => id' = id | _ => false)).length

def Ctx.reqKinds (c : Ctx) (id : String) : List (Option Int) :=
  (c.scn.msgsUpTo c.n').filterMap (fun p => match p with | .req id' m => if id' = id then some (errCodeOf m) else none | _ => none)

def isSubseq : List Nat → List Nat → Bool
  | [], _ => true
  | _ :: _, [] => false
  | a :: as, b :: bs => if a = b then isSubseq as bs else isSubseq (a :: as) bs

/-- the notifications among the message items received so far, in stream order -/
def Ctx.notifs (c : Ctx) : List Nat :=
  (c.scn.msgsUpTo c.n').filterMap (fun p => match p with | .notif n => some n | _ => none)

/-- the operation of the step is the call `k` itself -/
def Ctx.callsNow (c : Ctx) (k : Nat) : Bool := match c.op with | .call k' _ => k' = k | _ => false

/-- the marker a result of call `k` must carry: `t<k>` for tools/list, none for ping -/
def Ctx.expectedMarker (c : Ctx) (k : Nat) : Option Nat :=
  if c.m.lists.contains k || (match c.op with | .call k' l => k' = k && l | _ => false) then some k else none

/-- clause raised by one completion token -/
def checkDone (c : Ctx) (seenBefore : List Nat) (k : Nat) (o : Outcome) : Option Clause :=
  if !c.m.started.contains k && !c.callsNow k then some (.c01Twice k)
  else if c.m.finished.contains k || seenBefore.contains k then some (.c01Twice k)
  else match o with
    | .res mk =>
      if !c.hasResp k true then some (.c01WrongResponse k)
      else if mk ≠ c.expectedMarker k then some (.c01WrongResponse k)
      else none
    | .rpc code =>
      if !c.hasResp k false || code ≠ -31000 - (k : Int) then some (.c01WrongResponse k) else none
    | .err =>
      if !c.excused' then some (.c01Spurious k c.why)
      else if c.m.termSeen then some (.c01LateNotClosed k)
      else none
    | .closed => if !c.excused' then some (.c01Spurious k c.why) else none
    | .other _ => some (.c01Unclassified k)

def checkDones (c : Ctx) : List Nat → List (Nat × Outcome) → Option Clause
  | _, [] => none
  | seen, (k, o) :: rest =>
    match checkDone c seen k o with
    | some cl => some cl
    | none => checkDones c (k :: seen) rest

/-- clause raised by the response POSTs of the step -/
def checkResps (c : Ctx) : List String → List (String × Option Int) → Option Clause
  | _, [] => none
  | seen, (id, code) :: rest =>
    let n := c.reqCount id
    if n = 0 then some (.c02Foreign id)
    else if (seen.filter (· = id)).length + 1 > n then some (.c02Twice id)
    else if !((c.reqKinds id).contains code || (c.m.closeCalled && code = some Generated.SseClient.serverClosingCode)) then some (.c02WrongKind id)
    else checkResps c (id :: seen) rest

/-- why a message item may have gone astray: it (partly) arrived in the read that completed the endpoint event,
or the client had torn the session down before -/
def Ctx.whyItem (c : Ctx) (i : Nat) : Why :=
  if decide (endOff c.scn.items i - (match c.scn.items[i]? with | some it => it.bytes.length | none => 0) < c.m.epReadEnd) then .sameReadAsEndpoint
  else if c.m.termSeen || c.m.connFailed then c.why
  else .plain

/-- what one live message item (index `i`, payload `p`) obliges the client to have done by the end of the step -/
def liveClause (c : Ctx) (i : Nat) (p : Payload) : Option Clause :=
  match p with
  | .resp k ok =>
    if k = 0 ∧ ok = true then
      (if !c.m.connRet && !c.toks.contains .connOk then some (.c01Lost 0 (c.whyItem i) (unnamedItem c.scn i)) else none)
    else if c.m.posted.contains k && !c.m.finished.contains k && !(donesOf c.toks).any (fun d => d.1 = k) then
      some (.c01Lost k (c.whyItem i) (unnamedItem c.scn i))
    else none
  | .req id _ =>
    if !(respIdsOf c.toks).any (fun r => r.1 = id) then some (.c02Unanswered id (c.whyItem i) (unnamedItem c.scn i)) else none
  | _ => none

def checkLive (c : Ctx) : List (Nat × Payload) → Option Clause
  | [] => none
  | (i, p) :: rest =>
    match liveClause c i p with
    | some cl => some cl
    | none => checkLive c rest

def firstSome : List (Option Clause) → Option Clause
  | [] => none
  | some c :: _ => some c
  | none :: rest => firstSome rest

def otherClause : Tok → Option Clause
  | .other s => some (.unexpected s)
  | _ => none

def pendClause : Tok → Option Clause
  | .pend k => some (.c01BlockedAfterTerm k)
  | _ => none

/-- the clause raised by a step, if any -/
def monCheck (c : Ctx) : Option Clause :=
  firstSome [
    c.toks.findSome? otherClause,
    checkDones c [] (donesOf c.toks),
    (if c.toks.contains .connErr && !c.excused' then some (.c01ConnectFailed c.why) else none),
    (if c.toks.contains .connOk && !c.hasResp 0 true then some .c01ConnectNoResponse else none),
    (if c.toks.contains .term && !c.excused' then some (.c01TermUnexpected c.why) else none),
    checkResps c c.m.answered (respIdsOf c.toks),
    -- the obligations hold while the connection is usable: a POST answered with a failing status in this
    -- very step breaks it
    (if (postsOf c.toks).any (fun p => !c.scn.postOk p) then none else checkLive c c.live),
    (match c.op with
     | .call k _ =>
       if c.m.termSeen && !c.toks.contains .nosession && !(donesOf c.toks).any (fun d => d.1 = k) then some (.c01LateBlocked k) else none
     | .fin =>
       if c.m.termSeen then
         c.toks.findSome? pendClause
       else none
     | _ => none),
    (if isSubseq (c.m.nts ++ ntsOf c.toks) c.notifs then none else some .c03Order)
  ]

/-- the client's own requests POSTed in the step -/
def callsIn (toks : List Tok) : List Nat := (postsOf toks).filterMap (fun p => match p with | .call k => some k | _ => none)

/-- the bookkeeping after the step -/
def monNext (c : Ctx) : Mon :=
  let m := c.m
  let feeds := match c.op with | .feed _ _ => m.hasBody | _ => false
  let fed' := match c.op with | .feed n _ => if feeds then min (m.fed + n) c.scn.full.length else m.fed | _ => m.fed
  let epEnd := endOff c.scn.items (epIdx c.scn.items)
  { hasBody := m.hasBody || (match c.op with
      | .connect => (match c.scn.get with
          | .ok => true
          | .terr => false
          | .st s => Generated.SseClient.connectStatusLo ≤ s && s < Generated.SseClient.connectStatusHi)
      | _ => false),
    fed := fed',
    nComplete := c.n',
    excused := c.excused',
    closeCalled := m.closeCalled || (match c.op with | .close => true | _ => false),
    epReadEnd := (match c.op with
      | .feed _ chunks => if feeds && m.fed < epEnd && epEnd ≤ fed' then readEnd m.fed chunks epEnd else m.epReadEnd
      | _ => m.epReadEnd),
    started := (match c.op with | .call k _ => if c.toks.contains .nosession then m.started else k :: m.started | _ => m.started),
    posted := m.posted ++ callsIn c.toks,
    finished := m.finished ++ (donesOf c.toks).map (·.1),
    lists := (match c.op with | .call k true => k :: m.lists | _ => m.lists),
    answered := m.answered ++ (respIdsOf c.toks).map (·.1),
    nts := m.nts ++ ntsOf c.toks,
    connRet := m.connRet || c.toks.contains .connOk || c.toks.contains .connErr,
    connFailed := m.connFailed || c.toks.contains .connErr,
    termSeen := m.termSeen || c.toks.contains .term }

def monStep (scn : Scn) (m : Mon) (op : Op) (toks : List Tok) : Mon × Option Clause :=
  let c := mkCtx scn m op toks
  (monNext c, monCheck c)

/-- the first clause raised along a case -/
def runMon (scn : Scn) : Mon → List (Op × List Tok) → Option Clause
  | _, [] => none
  | m, (op, toks) :: rest =>
    match (monStep scn m op toks).2 with
    | some c => some c
    | none => runMon scn (monStep scn m op toks).1 rest

end SseClient
