import McpModel.Base.Proto
import McpModel.SseClient.Monitor
/-!
Driver of engine `sseclient` (C01, C02; order clause C03).  Replays the harness's records
(go/harness/mcp/zz_verif_sseclient_test.go) on the model (`SseClient.step` with the regenerated pump
filter) and evaluates the typed monitor (`SseClient.monStep`) on the IMPLEMENTATION's observation.  This
file is the string layer only: token parser, rendering, clause texts.

  reset
  scn base=<hex> get=<ok|terr|st<code>> term=<eof|err> ok2xx=<code> pst=<ident:code,...|-> stream=<item;...|-> full=x<hex>   obs ok
  connect | feed <n> <c1+c2+..> | call <k> <ping|list> | end | close | fin                                                    obs <tokens>
-/
namespace SseClient
open Proto Wire

def dropS (s : String) (n : Nat) : String := String.ofList (s.toList.drop n)

def kv (toks : List String) (k : String) : Option String :=
  (toks.find? (fun t => t.startsWith (k ++ "="))).map (fun t => dropS t (k.length + 1))

def hexField (s : String) : Option Bytes := if s = "" then some [] else hexToBytes s

def parseEol : String → Option Eol
  | "l" => some .lf
  | "c" => some .crlf
  | _ => none

def parseLine (s : String) : Option FLine :=
  match s.splitOn "." with
  | [k, p, v, e] => do
    let k ← hexField k; let p ← hexField p; let v ← hexField v; let e ← parseEol e
    some { key := k, pad := p, val := v, eol := e }
  | _ => none

def parseReqM : String → ReqM
  | "ping" => .ping
  | "roots" => .roots
  | "sample" => .sample
  | _ => .unk

def parseLabel (s : String) : Option (Payload × Bool) :=
  if s = "ep" then some (.none, true)
  else if s = "c" then some (.none, false)
  else if s = "j" then some (.junk, false)
  else if s.startsWith "r" then
    match (dropS s 1).splitOn "." with
    | [k, "ok"] => k.toNat?.map (fun k => (.resp k true, false))
    | [k, "er"] => k.toNat?.map (fun k => (.resp k false, false))
    | _ => none
  else if s.startsWith "f" then some (.fresp, false)
  else if s.startsWith "q" then
    match (dropS s 1).splitOn "." with
    | [id, m] => some (.req id (parseReqM m), false)
    | _ => none
  else if s.startsWith "n" then (dropS s 1).toNat?.map (fun n => (.notif n, false))
  else none

def parseItem (s : String) : Option Item :=
  match s.splitOn "~" with
  | [lbl, e, ls] => do
    let (p, isEp) ← parseLabel lbl
    let e ← parseEol e
    let lines ← if ls = "" then some [] else (ls.splitOn "|").mapM parseLine
    some { fe := { lines := lines, endEol := e }, payload := p, isEp := isEp }
  | _ => none

def parsePostId (s : String) : Option PostId :=
  if s = "ni" then some .initialized
  else if s.startsWith "nc" then (dropS s 2).toNat?.map .cancelled
  else if s.startsWith "c" then (dropS s 1).toNat?.map .call
  else if s.startsWith "r" then
    -- r<idtok>.ok | r<idtok>.e<code>
    match (dropS s 1).splitOn "." with
    | [id, "ok"] => some (.resp id none)
    | [id, e] => if e.startsWith "e" then (dropS e 1).toInt?.map (fun c => .resp id (some c)) else none
    | _ => none
  else none

def parsePst (s : String) : Option (List (PostId × Nat)) :=
  if s = "-" then some [] else
  (s.splitOn ",").mapM (fun e =>
    match e.splitOn ":" with
    | [id, c] => do let p ← parsePostId id; let c ← c.toNat?; some (p, c)
    | _ => none)

def parseGet (s : String) : Option GetKind :=
  if s = "ok" then some .ok
  else if s = "terr" then some .terr
  else if s.startsWith "st" then (dropS s 2).toNat?.map .st
  else none

def parseOutcome (l : List String) : Outcome :=
  match l with
  | ["res", "-"] => .res none
  | ["res", m] => if m.startsWith "t" then (match (dropS m 1).toNat? with | some k => .res (some k) | none => .other m) else .other m
  | ["rpc", c] => (match c.toInt? with | some c => .rpc c | none => .other c)
  | ["err"] => .err
  | ["closed"] => .closed
  | l => .other (":".intercalate l)

def parseTok (s : String) : Tok :=
  match s.splitOn ":" with
  | ["get"] => .get
  | ["conn", "ok"] => .connOk
  | ["conn", "err"] => .connErr
  | ["url", u] => (match hexToBytes u with | some b => .url b | none => .other s)
  | ["post", p] => (match parsePostId p with | some p => .post p | none => .other s)
  | "done" :: k :: rest => (match k.toNat? with | some k => .done k (parseOutcome rest) | none => .other s)
  | ["nt", ns] => (match (ns.splitOn ",").mapM String.toNat? with | some l => .nt l | none => .other s)
  | ["term"] => .term
  | ["closed"] => .closed
  | ["pend", k] => (match k.toNat? with | some k => .pend k | none => .other s)
  | ["nobody"] => .nobody
  | ["nosession"] => .nosession
  | _ => .other s

def parseToks (impl : String) : List Tok := if impl = "-" then [] else (words impl).map parseTok

def parseOp (toks : List String) : Option Op :=
  match toks with
  | ["connect"] => some .connect
  | ["feed", n, cs] => do
    let n ← n.toNat?
    let cs ← (cs.splitOn "+").mapM String.toNat?
    some (.feed n cs)
  | ["call", k, m] => k.toNat?.map (fun k => .call k (m = "list"))
  | ["end"] => some .endStream
  | ["close"] => some .close
  | ["fin"] => some .fin
  | _ => none

/-! ### rendering -/

def showPostId : PostId → String
  | .call k => s!"c{k}"
  | .initialized => "ni"
  | .cancelled k => s!"nc{k}"
  | .resp id none => s!"r{id}.ok"
  | .resp id (some c) => s!"r{id}.e{c}"

def showOutcome : Outcome → String
  | .res none => "res:-"
  | .res (some k) => s!"res:t{k}"
  | .rpc c => s!"rpc:{c}"
  | .err => "err"
  | .closed => "closed"
  | .other s => s

def showTok : Tok → String
  | .get => "get"
  | .connOk => "conn:ok"
  | .connErr => "conn:err"
  | .url u => "url:" ++ bytesToHex u
  | .post p => "post:" ++ showPostId p
  | .done k o => s!"done:{k}:" ++ showOutcome o
  | .nt ns => "nt:" ++ ",".intercalate (ns.map toString)
  | .term => "term"
  | .closed => "closed"
  | .pend k => s!"pend:{k}"
  | .nobody => "nobody"
  | .nosession => "nosession"
  | .other s => s

/-- the step's observation as the harness prints it: the notifications of the step in one token, sorted -/
def showObs (toks : List Tok) : String :=
  let nts := ntsOf toks
  let rest := toks.filter (fun t => match t with | .nt _ => false | _ => true)
  let all := (rest.map showTok) ++ (if nts = [] then [] else [showTok (.nt nts)])
  if all = [] then "-" else " ".intercalate (all.mergeSort (fun a b => !(b < a)))

def Why.text : Why → String
  | .plain => ""
  | .nonMessageEvent => " sseclient-F40 (an event that is not a message — another type, or no data — had been received: it must be ignored, not handed to the decoder)"
  | .sameReadAsEndpoint => " sseclient-F41 (bytes that arrived in the same network read as the endpoint event were lost)"

def unnamedText (b : Bool) : String :=
  if b then " (the event has no `event:` field: its type is the default, \"message\")" else ""

def Clause.text : Clause → String
  | .c01Twice k => s!"C01: completes exactly once: call {k} returned twice, or a call that was never made returned"
  | .c01WrongResponse k => s!"C01: the peer's response to that very request: call {k} completed with a result/error that is not the response the peer sent for its id (payload or id of another call, or no response had been received)"
  | .c01Spurious k w => s!"C01:{w.text} call {k} completed with an error although the caller's context was alive and the connection was neither broken nor closed (legal stream, every POST accepted)"
  | .c01Unclassified k => s!"C01: call {k} ended in a way the harness cannot classify"
  | .c01LateNotClosed k => s!"C01: calls started after the session terminated fail with an error that identifies the connection as closed: call {k} failed with another error"
  | .c01ConnectFailed w => s!"C01:{w.text} Client.Connect (the initialize call) failed although the peer greeted legally, accepted every POST and the stream was open"
  | .c01ConnectNoResponse => "C01: Client.Connect returned a session although no response to the initialize call had been received"
  | .c01TermUnexpected w => s!"C01:{w.text} the session terminated (Wait returned) although the connection was neither broken nor closed: the client tore down a usable connection"
  | .c01LateBlocked k => s!"C01: calls started after the session terminated fail immediately: call {k} did not return"
  | .c01BlockedAfterTerm k => s!"C01: never stays blocked once the session has terminated: call {k} was still blocked at the end of the case"
  | .c01Lost k w u => s!"C01:{w.text} the peer's response to call {k} was received completely in a message event{unnamedText u} on a usable connection, but the call did not complete: it stays blocked (the response was dropped before the jsonrpc2 reader)"
  | .c02Foreign id => s!"C02: a response bearing id {id} was POSTed, but no request with that id (same JSON type and value) had been received in a message event"
  | .c02Twice id => s!"C02: exactly one response: more responses bearing id {id} were POSTed than requests with that id were received"
  | .c02WrongKind id => s!"C02: the response to request {id} is of the wrong kind (result where -32601 is due, or an error for a served method)"
  | .c02Unanswered id w u => s!"C02:{w.text} the server's request {id} was received completely in a message event{unnamedText u} on a usable connection, but no response bearing its id was POSTed: the request was dropped"
  | .c03Order => "C03: notifications were handled out of the order in which the peer wrote them, twice, or without having been received as message events"
  | .unexpected s => s!"C01: unexpected observation {s} (panic, leak, an unclassifiable POST or a second GET)"

/-! ### the engine -/

structure DState where
  scn : Scn := {}
  ready : Bool := false
  st : St := {}
  mon : Mon := {}

def parseScn (rest : List String) : Option Scn := do
  let base ← (kv rest "base").bind hexField
  let get ← (kv rest "get").bind parseGet
  let term ← kv rest "term"
  let ok2xx ← (kv rest "ok2xx").bind String.toNat?
  let pst ← (kv rest "pst").bind parsePst
  let st ← kv rest "stream"
  let items ← if st = "-" then some [] else (st.splitOn ";").mapM parseItem
  let scn : Scn := { base := base, get := get, termEof := term = "eof", ok2xx := ok2xx, pst := pst, items := items }
  -- the harness's bytes are the model's rendering of the framed events
  let full ← (kv rest "full").bind (fun s => hexToBytes (dropS s 1))
  if scn.full ≠ full then none
  some scn

def engine : Engine DState where
  init := {}
  step d toks impl :=
    match toks with
    | ["reset"] => ({}, { model := "ok" })
    | "scn" :: rest =>
      (match parseScn rest with
       | some scn => ({ scn := scn, ready := true }, { model := "ok" })
       | none => ({}, { model := "bad-scn" }))
    | "bubble" :: _ =>
      (d, { model := "-", violated := some (Clause.text (.unexpected impl)) })
    | _ =>
      if !d.ready then (d, { model := "bad-op" }) else
      match parseOp toks with
      | none => (d, { model := "bad-op" })
      | some op =>
        let (st', mtoks) := step d.scn generatedFilter d.st op
        let itoks := parseToks impl
        let (mon', viol) := monStep d.scn d.mon op itoks
        ({ d with st := st', mon := mon' }, { model := showObs mtoks, violated := viol.map Clause.text })

end SseClient

def main : IO Unit := Proto.run SseClient.engine
