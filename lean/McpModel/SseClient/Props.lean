import McpModel.SseClient.Model
import McpModel.Wire.LemmasSse
/-!
# Engine `sseclient` — property theorems about the event pump and the endpoint event (C01, C02)

What reaches the jsonrpc2 reader of a session bound to `SSEClientTransport`, for ALL event lists and —
composed with the scanner theorems of engine `wire` — for ALL well-formed byte streams a foreign server
may write (any spelling: `event: message` present / absent / after the data, `id:` / `retry:` / unknown
fields, comments, multi-line data, LF / CRLF per line, other event types, events without data).
-/
namespace SseClient
open Wire Wire.L

/-! ## the tie to `mcp/sse.go` -/

/-- **generated_filter_is_repaired.** The filter regenerated from the pump loop of
`(*SSEClientTransport).Connect` is the one the theorems below are about.  (`decide` on the regenerated
constants: a changed condition re-opens this proof — it fails for the tree before F41's repair, which
forwarded everything, and for the seeded change C01-m11/C02-m11, which forwards only NAMED events.) -/
theorem generated_filter_is_repaired : generatedFilter = repaired := by decide

/-- **generated_single_reader.** The endpoint scan and the pump read from one buffered reader (F42): the
model's single scanner over the whole body is the code's. -/
theorem generated_single_reader : Generated.SseClient.singleReader = true := by decide

/-- the literal the code compares the first event's name with is the transport's `endpoint` -/
theorem generated_endpoint_name : Generated.SseClient.endpointEventName = epName := by decide

/-! ## the pump on event lists -/

theorem repaired_keeps_iff (e : Event) : repaired.keeps e = isMessage e := by
  simp only [PumpFilter.keeps, repaired, isMessage, isMessageType]
  by_cases hd : e.data = [] <;> simp [hd]

/-- **pump_delivers_message_events_exactly_once_in_order.** For every list of scanned events the payloads
handed to the jsonrpc2 reader are exactly the `data` of the events that are messages — type "message",
named or by default, with a non-empty data buffer — each once, in stream order, and nothing else. -/
theorem pump_delivers_message_events_exactly_once_in_order (evs : List Event) :
    pump repaired evs = (evs.filter isMessage).map (·.data) := by
  unfold pump
  congr 1
  exact List.filter_congr (fun e _ => repaired_keeps_iff e)

/-- the same for the code: the filter regenerated from `mcp/sse.go` -/
theorem pump_generated (evs : List Event) :
    pump generatedFilter evs = (evs.filter isMessage).map (·.data) := by
  rw [generated_filter_is_repaired]; exact pump_delivers_message_events_exactly_once_in_order evs

theorem pump_append (f : PumpFilter) (a b : List Event) : pump f (a ++ b) = pump f a ++ pump f b := by
  simp [pump]

/-- the payloads delivered are a subsequence of the events' payloads: nothing is invented, duplicated or reordered -/
theorem pump_sublist (f : PumpFilter) (evs : List Event) : (pump f evs).Sublist (evs.map (·.data)) := by
  unfold pump
  exact (List.filter_sublist).map _

/-- **unnamed_event_is_message.** An event WITHOUT an `event:` field (and with data) is a message: wherever
it stands in the stream its payload is delivered, between what precedes and what follows it. -/
theorem unnamed_event_is_message (pre post : List Event) (e : Event) (hn : e.name = []) (hd : e.data ≠ []) :
    pump repaired (pre ++ e :: post) = pump repaired pre ++ e.data :: pump repaired post := by
  have hk : repaired.keeps e = true := by simp [PumpFilter.keeps, repaired, hn, hd]
  simp [pump, hk]

/-- the same for an event that names its type `message` -/
theorem named_message_event_is_message (pre post : List Event) (e : Event) (hn : e.name = msgName) (hd : e.data ≠ []) :
    pump repaired (pre ++ e :: post) = pump repaired pre ++ e.data :: pump repaired post := by
  have hk : repaired.keeps e = true := by simp [PumpFilter.keeps, repaired, hn, hd]
  simp [pump, hk]

/-- **other_event_types_ignored.** An event of any other type (`event: ping`, a repeated `endpoint`, …),
whatever its data, contributes nothing and disturbs nothing. -/
theorem other_event_types_ignored (pre post : List Event) (e : Event) (h1 : e.name ≠ []) (h2 : e.name ≠ msgName) :
    pump repaired (pre ++ e :: post) = pump repaired pre ++ pump repaired post := by
  have hk : repaired.keeps e = false := by simp [PumpFilter.keeps, repaired, h1, h2]
  simp [pump, hk]

/-- **empty_data_not_dispatched.** An event without data (`retry: 3000`, `id: 7` alone, a typed event with
no data line) is not dispatched. -/
theorem empty_data_not_dispatched (pre post : List Event) (e : Event) (hd : e.data = []) :
    pump repaired (pre ++ e :: post) = pump repaired pre ++ pump repaired post := by
  have hk : repaired.keeps e = false := by simp [PumpFilter.keeps, repaired, hd]
  simp [pump, hk]

/-- nothing empty ever reaches `jsonrpc2.DecodeMessage` -/
theorem pump_never_empty (evs : List Event) : [] ∉ pump repaired evs := by
  rw [pump_delivers_message_events_exactly_once_in_order]
  intro h
  obtain ⟨e, he, hd⟩ := List.mem_map.mp h
  have := (List.mem_filter.mp he).2
  simp [isMessage, hd] at this

/-! ### what the two other filters do (counter-examples: why the tie above matters) -/

def pingEvent : Event := { name := [112, 105, 110, 103], data := [107] }       -- event: ping / data: k
def retryEvent : Event := { retry := [51, 48, 48, 48] }                         -- retry: 3000
def unnamedEvent : Event := { data := [123, 125] }                              -- data: {}

/-- before the repair of F41 (sseclient-F40): an event of another type reaches the decoder … -/
theorem asbuilt_forwards_other_types : pump asBuilt [pingEvent] = [[107]] := by decide
/-- … and so does an event without data (an empty payload: `DecodeMessage` fails, the session is torn down) -/
theorem asbuilt_forwards_empty_data : pump asBuilt [retryEvent] = [[]] := by decide
/-- the seeded change C01-m11 / C02-m11 drops every message of a server that relies on the default type -/
theorem m11_drops_unnamed : pump seededM11 [unnamedEvent] = [] ∧ isMessage unnamedEvent = true := by decide
theorem repaired_handles_them :
    pump repaired [pingEvent, retryEvent, unnamedEvent] = [[123, 125]] := by decide

/-! ## the pump on BYTES -/

theorem isMessage_not_isEmpty (e : Event) (h : isMessage e = true) : e.isEmpty = false := by
  simp only [isMessage, Bool.and_eq_true, decide_eq_true_eq] at h
  simp [Event.isEmpty, h.2]

/-- **pump_of_stream_bytes.** For EVERY list of framed events a foreign server writes (each line well
formed: `WfFLine`; any line ends, field order, comments, unknown fields, multi-line data): scanning the
BYTES and pumping gives exactly the data of the events whose meaning (`FEvent.denote`) is a message, in
order — and the scanner reports no malformed line. -/
theorem pump_of_stream_bytes (es : List FEvent) (h : ∀ e ∈ es, ∀ l ∈ e.lines, WfFLine l) :
    pump repaired (scanEvents (renderStream es)).1 = ((es.map FEvent.denote).filter isMessage).map (·.data) ∧
    (scanEvents (renderStream es)).2 = false := by
  rw [sse_roundtrip_any_eol es h]
  refine ⟨?_, rfl⟩
  rw [pump_delivers_message_events_exactly_once_in_order, List.filter_filter]
  congr 1
  apply List.filter_congr
  intro e _
  by_cases hm : isMessage e = true
  · simp [hm, isMessage_not_isEmpty e hm]
  · simp [hm]

/-- the bytes of a stream are the bytes of its events, one after the other -/
theorem renderStream_append (a b : List FEvent) : renderStream (a ++ b) = renderStream a ++ renderStream b := by
  have : ∀ (x y : List (Bytes × Eol)), renderLines (x ++ y) = renderLines x ++ renderLines y := by
    intro x y
    induction x with
    | nil => rfl
    | cons p x ih => obtain ⟨l, e⟩ := p; simp [renderLines, ih]
  simp [renderStream, List.flatMap_append, this]

/-- `scanFed` (the scanner on what has been received so far, no end of input yet) on complete framed events -/
theorem scanFed_stream (es : List FEvent) (h : ∀ e ∈ es, ∀ l ∈ e.lines, WfFLine l) :
    scanFed (renderStream es) = ((es.map FEvent.denote).filter (fun e => !e.isEmpty), false) := by
  have h0 := splitLines_render (es.flatMap FEvent.render) [] (render_noLF es h)
  simp only [List.append_nil] at h0
  unfold scanFed renderStream
  rw [h0]
  have hs : splitLines ([] : Bytes) = ([], []) := rfl
  simp only [hs, List.append_nil, foldl_stepLine_eolcr]
  rw [scan_fevents es [] h]
  simp

/-- an event not yet terminated by its blank line contributes nothing: the lines received so far of the
event being written only accumulate -/
theorem scanFed_partial_event (es : List FEvent) (e : FEvent) (k : Nat)
    (h : ∀ e ∈ es, ∀ l ∈ e.lines, WfFLine l) (he : ∀ l ∈ e.lines, WfFLine l) :
    scanFed (renderStream es ++ renderLines ((e.lines.take k).map (fun l => (l.text, l.eol)))) =
      ((es.map FEvent.denote).filter (fun e => !e.isEmpty), false) := by
  have hl : ∀ p ∈ es.flatMap FEvent.render ++ (e.lines.take k).map (fun l => (l.text, l.eol)), LF ∉ p.1 := by
    intro p hp
    rcases List.mem_append.mp hp with hp | hp
    · exact render_noLF es h p hp
    · obtain ⟨l, hl, rfl⟩ := List.mem_map.mp hp
      exact (he l (List.mem_of_mem_take hl)).nolf
  have hr : renderStream es ++ renderLines ((e.lines.take k).map (fun l => (l.text, l.eol))) =
      renderLines (es.flatMap FEvent.render ++ (e.lines.take k).map (fun l => (l.text, l.eol))) := by
    have : ∀ (x y : List (Bytes × Eol)), renderLines (x ++ y) = renderLines x ++ renderLines y := by
      intro x y
      induction x with
      | nil => rfl
      | cons p x ih => obtain ⟨l, e⟩ := p; simp [renderLines, ih]
    rw [this]; rfl
  have h0 := splitLines_render _ [] hl
  simp only [List.append_nil] at h0
  unfold scanFed
  rw [hr, h0]
  have hs : splitLines ([] : Bytes) = ([], []) := rfl
  simp only [hs, List.append_nil, foldl_stepLine_eolcr, List.map_append, List.foldl_append]
  rw [scan_fevents es [] h]
  have hw : ∀ l ∈ e.lines.take k, WfFLine l := fun l hl => he l (List.mem_of_mem_take hl)
  have := fold_lines (e.lines.take k) {} none ([] ++ (es.map FEvent.denote).filter (fun e => !e.isEmpty)) hw
  simp only [List.map_map, Function.comp_def] at this ⊢
  have e1 : (List.map (fun l => l.text) (e.lines.take k)) = List.map FLine.text (e.lines.take k) := rfl
  rw [e1, this]
  simp

/-- **pump_incremental.** What the session has been handed after the server wrote the complete events `es`
and some of the lines of the next one — however the bytes were cut into network reads (the scanner runs
over the bytes received so far) — is exactly the message events among `es`: an event split across reads is
delivered when its blank line has arrived, not before, and never in pieces. -/
theorem pump_incremental (es : List FEvent) (e : FEvent) (k : Nat)
    (h : ∀ e ∈ es, ∀ l ∈ e.lines, WfFLine l) (he : ∀ l ∈ e.lines, WfFLine l) :
    pump repaired (scanFed (renderStream es ++ renderLines ((e.lines.take k).map (fun l => (l.text, l.eol))))).1 =
      ((es.map FEvent.denote).filter isMessage).map (·.data) := by
  rw [scanFed_partial_event es e k h he, pump_delivers_message_events_exactly_once_in_order, List.filter_filter]
  congr 1
  apply List.filter_congr
  intro e _
  by_cases hm : isMessage e = true
  · simp [hm, isMessage_not_isEmpty e hm]
  · simp [hm]

/-! ## the endpoint event -/

/-- **endpoint_same_origin_of_relative.** A reference without scheme and authority — an absolute path, a
relative path, a query — resolves to the origin (scheme and authority) the client connected to. -/
theorem endpoint_same_origin_of_relative (base r : Ref) (h1 : r.scheme = none) (h2 : r.auth = none) :
    (resolveRef base r).scheme = base.scheme ∧ (resolveRef base r).auth = base.auth := by
  simp [resolveRef, h1, h2]

/-- a network-path reference (`//host/path`) keeps the scheme -/
theorem endpoint_network_path_keeps_scheme (base r : Ref) (h1 : r.scheme = none) :
    (resolveRef base r).scheme = base.scheme := by
  unfold resolveRef
  simp only [h1]
  split <;> rfl

-- http://verif.invalid/a/sse?x=1
def exBase : Bytes := [104, 116, 116, 112, 58, 47, 47, 118, 101, 114, 105, 102, 46, 105, 110, 118, 97, 108, 105, 100, 47, 97, 47, 115, 115, 101, 63, 120, 61, 49]
-- http://other.invalid:9/m?x=1
def exOther : Bytes := [104, 116, 116, 112, 58, 47, 47, 111, 116, 104, 101, 114, 46, 105, 110, 118, 97, 108, 105, 100, 58, 57, 47, 109, 63, 120, 61, 49]

/-- **endpoint_must_be_same_origin_partial.** FULL statement one would like: "the client POSTs only to the
origin it connected to".  It does not hold of `parsedURL.Parse(raw)`: an endpoint event carrying an
absolute URL of ANOTHER origin is followed as it stands (no property among C01–C20 forbids it; the
TypeScript SDK refuses such an endpoint).  Proved: the relative case above, and this witness. -/
theorem endpoint_absolute_is_followed : endpointURL exBase exOther = exOther := by decide

/-- examples of the resolution (RFC 3986 §5.2 as `net/url` implements it), checked against the real
`url.Parse`/`ResolveReference` by the correspondence stream on every run -/
-- /messages?sessionid=1 , http://verif.invalid/messages?sessionid=1
example : endpointURL exBase [47, 109, 101, 115, 115, 97, 103, 101, 115, 63, 115, 101, 115, 115, 105, 111, 110, 105, 100, 61, 49] = [104, 116, 116, 112, 58, 47, 47, 118, 101, 114, 105, 102, 46, 105, 110, 118, 97, 108, 105, 100, 47, 109, 101, 115, 115, 97, 103, 101, 115, 63, 115, 101, 115, 115, 105, 111, 110, 105, 100, 61, 49] := by decide
-- messages/7 , http://verif.invalid/a/messages/7
example : endpointURL exBase [109, 101, 115, 115, 97, 103, 101, 115, 47, 55] = [104, 116, 116, 112, 58, 47, 47, 118, 101, 114, 105, 102, 46, 105, 110, 118, 97, 108, 105, 100, 47, 97, 47, 109, 101, 115, 115, 97, 103, 101, 115, 47, 55] := by decide
-- ?sessionid=9 , http://verif.invalid/a/sse?sessionid=9
example : endpointURL exBase [63, 115, 101, 115, 115, 105, 111, 110, 105, 100, 61, 57] = [104, 116, 116, 112, 58, 47, 47, 118, 101, 114, 105, 102, 46, 105, 110, 118, 97, 108, 105, 100, 47, 97, 47, 115, 115, 101, 63, 115, 101, 115, 115, 105, 111, 110, 105, 100, 61, 57] := by decide
-- ../up/m , http://verif.invalid/up/m
example : endpointURL exBase [46, 46, 47, 117, 112, 47, 109] = [104, 116, 116, 112, 58, 47, 47, 118, 101, 114, 105, 102, 46, 105, 110, 118, 97, 108, 105, 100, 47, 117, 112, 47, 109] := by decide
-- //verif.invalid/m2 , http://verif.invalid/m2
example : endpointURL exBase [47, 47, 118, 101, 114, 105, 102, 46, 105, 110, 118, 97, 108, 105, 100, 47, 109, 50] = [104, 116, 116, 112, 58, 47, 47, 118, 101, 114, 105, 102, 46, 105, 110, 118, 97, 108, 105, 100, 47, 109, 50] := by decide

end SseClient
