import McpModel.SseClient.BridgeFeed
/-!
# Bridge: the monitor raises no clause on the model's behaviour (healthy fragment)

FULL statement (not proved): for every scenario and every operation list, `runMon` raises no clause on the
observations of `run scn generatedFilter`.

Proved — `monitor_accepts_model_partial`: the same for every HEALTHY case: a scenario written in well-formed
lines whose server greets legally (`endpoint` first), accepts every POST, labels its message events
consistently and sends nothing that excuses a shutdown (no text that is not JSON-RPC, no refusal of
initialize); operations `connect` first, then any sequence of reads (any number of bytes, cut anywhere —
`scan_matches_ground_truth`), calls (fresh indices) and `fin`.  This is the fragment in which the monitor
is STRICT: nothing excuses an error, every response must complete its call, every request must be
answered.  What is missing for the full statement: the same simulation through the shutdown paths (end of
stream, Close, failing POSTs, junk), where the monitor only checks the weak clauses; those paths are
covered by the correspondence stream only.
-/
namespace SseClient
open Wire

structure Healthy (scn : Scn) : Prop where
  wf : scn.wf
  get : scn.get = .ok
  posts : ∀ p, scn.postOk p = true
  ep : epLegal scn = true
  labelled : scn.labelled

/-- the operations of the healthy fragment after `connect`: reads, calls with fresh indices ≥ 1, `fin` -/
def opsOK : List Nat → List Op → Bool
  | _, [] => true
  | used, .feed _ _ :: r => opsOK used r
  | used, .call k _ :: r => decide (k ≠ 0) && !used.contains k && opsOK (k :: used) r
  | used, .fin :: r => opsOK used r
  | _, _ => false

/-- the books of the monitor and the state of the model agree -/
structure Link (scn : Scn) (s : St) (m : Mon) (used : List Nat) : Prop where
  excused : m.excused = false
  termSeen : m.termSeen = false
  mbody : m.hasBody = true
  sbody : s.hasBody = true
  fed : m.fed = s.fed
  ncomp : m.nComplete = completeN scn.items s.fed
  lists : m.lists = s.lists
  connRet : m.connRet = s.connRet
  nts : m.nts = notifsOf (scn.msgsUpTo m.nComplete)
  answered : ∀ id, (m.answered.filter (· = id)).length = ((reqsOf (scn.msgsUpTo m.nComplete)).filter (·.1 = id)).length
  started : ∀ k ∈ m.started, k ∈ used
  posted : ∀ k ∈ m.posted, k ≠ 0 → k ∈ m.started
  finished : ∀ k ∈ m.finished, k ≠ 0 ∧ k ∈ m.posted
  pend : ∀ k, k ≠ 0 → (k ∈ s.pending ↔ (k ∈ m.posted ∧ k ∉ m.finished))
  nodup : s.pending.Nodup
  rdead : s.rdead = false
  wdead : s.wdead = false
  closing : s.closing = false
  done : s.done = false
  closeWait : s.closeWait = false
  handed : s.handed = s.connRet
  fedle : s.fed ≤ scn.full.length
  phase : (s.phase = .awaitEp ∧ m.nComplete ≤ epIdx scn.items ∧ s.pending = [] ∧ s.connRet = false ∧ m.posted = [] ∧ m.finished = []) ∨
          (s.phase = .up ∧ epIdx scn.items < m.nComplete ∧ s.seen = (evsUpTo scn m.nComplete).length ∧ (0 ∈ s.pending ↔ s.connRet = false))

theorem scanFed_evs (scn : Scn) (fed : Nat) (h : scn.wf) :
    scanFed (scn.full.take fed) = (evsUpTo scn (completeN scn.items fed), false) := scanFed_items scn fed h

theorem epLegal_name (scn : Scn) (h : epLegal scn = true) (it : Item) (hit : scn.items[epIdx scn.items]? = some it) :
    it.fe.denote.name = Generated.SseClient.endpointEventName := by
  simp only [epLegal, hit, Bool.and_eq_true, decide_eq_true_eq] at h
  rw [generated_endpoint_name]; exact h.1.1

/-! ### `excused'` stays false -/

theorem mkCtx_feed (scn : Scn) (hh : Healthy scn) (m : Mon) (n : Nat) (ch : List Nat) (toks : List Tok)
    (hb : m.hasBody = true) (hex : m.excused = false) (hposts : True) :
    let c := mkCtx scn m (.feed n ch) toks
    c.n' = completeN scn.items (min (m.fed + n) scn.full.length) ∧
    c.live = newMsgs scn m.nComplete (completeN scn.items (min (m.fed + n) scn.full.length)) ∧
    c.excused' = false ∧ c.m = m ∧ c.scn = scn ∧ c.op = .feed n ch ∧ c.toks = toks := by
  have hgood := newMsgs_good scn hh.labelled m.nComplete (completeN scn.items (min (m.fed + n) scn.full.length))
  have hpf : (postsOf toks).any (fun p => !scn.postOk p) = false := by
    simp [hh.posts]
  have hne : (newMsgs scn m.nComplete (completeN scn.items (min (m.fed + n) scn.full.length))).any (fun p => excusing p.2) = false := by
    rw [List.any_eq_false]
    intro ip hip
    have := hgood ip hip
    simp only [goodPayload, Bool.and_eq_true, Bool.not_eq_true'] at this
    simp [this.2]
  simp only [mkCtx, hb, ite_true, hex, Bool.false_eq_true, ite_false, hh.ep, Bool.not_true, Bool.and_false, hpf, hne,
    Bool.or_self, and_self, and_true, true_and]
  exact livePrefix_good _ hgood

/-! ### the model's read, case by case -/

theorem feedBytes_wait (scn : Scn) (hh : Healthy scn) (s : St) (fed' : Nat)
    (hph : s.phase = .awaitEp) (hn : completeN scn.items fed' ≤ epIdx scn.items) :
    feedBytes scn repaired s fed' = ({ s with fed := fed' }, []) := by
  simp only [feedBytes, scanFed_evs scn fed' hh.wf, evsUpTo_before scn _ hn, hph, Bool.false_eq_true, ite_false]

theorem feedBytes_up_eq (scn : Scn) (f : PumpFilter) (s : St) (fed : Nat) (evs : List Event)
    (hph : s.phase = .up) (hd : s.done = false) (hscan : scanFed (scn.full.take fed) = (evs, false)) :
    feedBytes scn f s fed =
      ((deliverAll scn { s with fed := fed, seen := evs.length } ((pump f (evs.drop s.seen)).map scn.decode)).1,
       (deliverAll scn { s with fed := fed, seen := evs.length } ((pump f (evs.drop s.seen)).map scn.decode)).2) := by
  simp only [feedBytes, hscan, hph, hd, Bool.false_eq_true, ite_false, List.append_nil]

/-- the state in which the transport is bound and the initialize request was POSTed -/
def boundSt (s : St) (fed seen : Nat) (target : Bytes) : St :=
  { s with fed := fed, seen := seen, phase := Phase.up, target := target, pending := [0] }

theorem feedBytes_greet_eq (scn : Scn) (f : PumpFilter) (s : St) (fed : Nat) (e : Event) (rest : List Event)
    (hph : s.phase = .awaitEp) (hscan : scanFed (scn.full.take fed) = (e :: rest, false))
    (hname : e.name = Generated.SseClient.endpointEventName) (hp : ∀ p, scn.postOk p = true)
    (hset : settle (boundSt s fed (e :: rest).length (endpointURL scn.base e.data)) = (boundSt s fed (e :: rest).length (endpointURL scn.base e.data), [])) :
    feedBytes scn f s fed =
      ((deliverAll scn (boundSt s fed (e :: rest).length (endpointURL scn.base e.data)) ((pump f rest).map scn.decode)).1,
       [.post (.call 0)] ++ (deliverAll scn (boundSt s fed (e :: rest).length (endpointURL scn.base e.data)) ((pump f rest).map scn.decode)).2) := by
  obtain ⟨ph, hb, tg, fd, sn, pd, ls, cr, hd, rd, wd, cl, dn, cw⟩ := s
  simp only at hph
  subst hph
  simp only [boundSt] at hset ⊢
  simp only [feedBytes, hscan, hname, ne_eq, not_true_eq_false, ite_false, bind, hp, ite_true, hset, Bool.false_eq_true,
    List.append_nil, List.nil_append, List.singleton_append]

theorem feedBytes_up (scn : Scn) (hh : Healthy scn) (s : St) (fed' n0 : Nat)
    (hph : s.phase = .up) (hseen : s.seen = (evsUpTo scn n0).length) (hle : n0 ≤ completeN scn.items fed')
    (hep : epIdx scn.items < n0) (hs : HS s) :
    ∃ s', feedBytes scn repaired s fed' = (s', (hRun s.lists s.pending ((newMsgs scn n0 (completeN scn.items fed')).map (·.2))).2) ∧ HS s' ∧
      s'.pending = (hRun s.lists s.pending ((newMsgs scn n0 (completeN scn.items fed')).map (·.2))).1 ∧ s'.lists = s.lists ∧
      s'.fed = fed' ∧ s'.seen = (evsUpTo scn (completeN scn.items fed')).length ∧ s'.hasBody = s.hasBody ∧
      s'.connRet = (s.connRet || (hRun s.lists s.pending ((newMsgs scn n0 (completeN scn.items fed')).map (·.2))).2.contains .connOk) := by
  have hps := feed_payloads_up scn hh.labelled n0 (completeN scn.items fed') hle hep
  have hgood : ∀ p ∈ (newMsgs scn n0 (completeN scn.items fed')).map (·.2), goodPayload p = true := by
    intro p hp
    obtain ⟨ip, hip, rfl⟩ := List.mem_map.mp hp
    exact newMsgs_good scn hh.labelled _ _ ip hip
  have hs1 : HS { s with fed := fed', seen := (evsUpTo scn (completeN scn.items fed')).length } :=
    ⟨hs.up, hs.rdead, hs.wdead, hs.closing, hs.done, hs.closeWait, hs.handed, hs.pend0, hs.nodup⟩
  obtain ⟨s', hd, h', hpend, hlists, hfed, hseen', hbody, _, hcr⟩ :=
    deliverAll_healthy scn hh.posts _ _ hs1 hgood
  refine ⟨s', ?_, h', hpend, hlists, hfed, hseen', hbody, hcr⟩
  rw [feedBytes_up_eq scn repaired s fed' _ hph hs.done (scanFed_evs scn fed' hh.wf), hseen, hps, hd]

theorem feedBytes_greet (scn : Scn) (hh : Healthy scn) (s : St) (fed' n0 : Nat)
    (hph : s.phase = .awaitEp) (hn0 : n0 ≤ epIdx scn.items) (hb : epIdx scn.items < completeN scn.items fed')
    (hfl : s.rdead = false ∧ s.wdead = false ∧ s.closing = false ∧ s.done = false ∧ s.closeWait = false)
    (hcr : s.connRet = false) (hhd : s.handed = false) :
    ∃ s', feedBytes scn repaired s fed' =
        (s', [.post (.call 0)] ++ (hRun s.lists [0] ((newMsgs scn n0 (completeN scn.items fed')).map (·.2))).2) ∧ HS s' ∧
      s'.pending = (hRun s.lists [0] ((newMsgs scn n0 (completeN scn.items fed')).map (·.2))).1 ∧ s'.lists = s.lists ∧
      s'.fed = fed' ∧ s'.seen = (evsUpTo scn (completeN scn.items fed')).length ∧ s'.hasBody = s.hasBody ∧
      s'.connRet = (hRun s.lists [0] ((newMsgs scn n0 (completeN scn.items fed')).map (·.2))).2.contains .connOk := by
  obtain ⟨it, rest, hit, hevs, hps⟩ := feed_payloads_greeting scn hh.labelled n0 (completeN scn.items fed') hn0 hb (completeN_le _ _)
  have hname := epLegal_name scn hh.ep it hit
  have hgood : ∀ p ∈ (newMsgs scn n0 (completeN scn.items fed')).map (·.2), goodPayload p = true := by
    intro p hp
    obtain ⟨ip, hip, rfl⟩ := List.mem_map.mp hp
    exact newMsgs_good scn hh.labelled _ _ ip hip
  obtain ⟨r1, r2, r3, r4, r5⟩ := hfl
  have hs1 : HS (boundSt s fed' (it.fe.denote :: rest).length (endpointURL scn.base it.fe.denote.data)) :=
    ⟨rfl, r1, r2, r3, r4, r5, by simp [boundSt, hhd, hcr], fun _ => hcr, by simp [boundSt]⟩
  obtain ⟨s', hd, h', hpend, hlists, hfed, hseen', hbody, _, hcr'⟩ :=
    deliverAll_healthy scn hh.posts _ _ hs1 hgood
  have hscan : scanFed (scn.full.take fed') = (it.fe.denote :: rest, false) := by
    rw [scanFed_evs scn fed' hh.wf, hevs]
  refine ⟨s', ?_, h', hpend, hlists, hfed, by rw [hseen', hevs]; rfl, hbody, by rw [hcr']; simp [boundSt, hcr]⟩
  rw [feedBytes_greet_eq scn repaired s fed' _ _ hph hscan hname hh.posts (settle_healthy _ hs1), hps, hd]
  rfl

/-! ### one read: no clause, and the books still agree -/

theorem step_feed (scn : Scn) (f : PumpFilter) (s : St) (n : Nat) (ch : List Nat) (hb : s.hasBody = true) :
    step scn f s (.feed n ch) =
      ((feedBytes scn f s (min (s.fed + n) scn.full.length)).1,
       withUrl (feedBytes scn f s (min (s.fed + n) scn.full.length)).1 (feedBytes scn f s (min (s.fed + n) scn.full.length)).2) := by
  simp [step, hb]

theorem contains_false {l : List Tok} {a : Tok} : l.contains a = false ↔ a ∉ l := by
  rw [← Bool.not_eq_true, List.contains_iff_mem]


/-- the projections of the tokens of a read -/
theorem feed_toks_proj (toks pre url : List Tok) (lists P : List Nat) (ps : List Payload)
    (htoks : toks = pre ++ (hRun lists P ps).2 ++ url)
    (hpre : pre = [] ∨ pre = [.post (.call 0)]) (hurl : ∀ t ∈ url, isUrlTok t = true) :
    donesOf toks = donesOf (hRun lists P ps).2 ∧ respIdsOf toks = reqsOf ps ∧ ntsOf toks = notifsOf ps ∧
    (toks.contains .connOk = (hRun lists P ps).2.contains .connOk) ∧ toks.contains .connErr = false ∧ toks.contains .term = false ∧
    callsIn toks = (if pre = [] then [] else [0]) := by
  have hu1 : Tok.connOk ∉ url := by intro hm; have := hurl _ hm; simp [isUrlTok] at this
  have hu2 : Tok.connErr ∉ url := by intro hm; have := hurl _ hm; simp [isUrlTok] at this
  have hu3 : Tok.term ∉ url := by intro hm; have := hurl _ hm; simp [isUrlTok] at this
  have hh : ∀ t ∈ (hRun lists P ps).2, HTok t := hRun_toks lists ps P
  have hr2 : Tok.connErr ∉ (hRun lists P ps).2 := by intro hm; cases hh _ hm
  have hr3 : Tok.term ∉ (hRun lists P ps).2 := by intro hm; cases hh _ hm
  have hcalls : callsIn (hRun lists P ps).2 = [] := hRun_no_calls lists ps P
  subst htoks
  refine ⟨?_, ?_, ?_, ?_, ?_, ?_, ?_⟩
  · rw [donesOf_append, donesOf_append, donesOf_url url hurl]
    rcases hpre with rfl | rfl <;> simp [donesOf]
  · rw [respIdsOf_append, respIdsOf_append, respIdsOf_url url hurl, hRun_resps]
    rcases hpre with rfl | rfl <;> simp [respIdsOf, postsOf]
  · rw [ntsOf_append, ntsOf_append, ntsOf_url url hurl, hRun_nts]
    rcases hpre with rfl | rfl <;> simp [ntsOf]
  · rw [Bool.eq_iff_iff]; rcases hpre with rfl | rfl <;> simp [hu1]
  · rw [contains_false]; rcases hpre with rfl | rfl <;> simp [hu2, hr2]
  · rw [contains_false]; rcases hpre with rfl | rfl <;> simp [hu3, hr3]
  · unfold callsIn at hcalls ⊢
    rw [postsOf_append, postsOf_append, postsOf_url url hurl, List.append_nil, List.filterMap_append, hcalls]
    rcases hpre with rfl | rfl <;> simp [postsOf]

theorem s_fed_le (scn : Scn) (s : St) (n : Nat) (h : s.fed ≤ scn.full.length) : s.fed ≤ min (s.fed + n) scn.full.length := by
  omega

theorem filter_length_append {α} (p : α → Bool) (a b : List α) : ((a ++ b).filter p).length = (a.filter p).length + (b.filter p).length := by
  simp [List.filter_append]

/-- the books after a read -/
theorem link_after_feed (scn : Scn) (s s' : St) (m : Mon) (used : List Nat) (c : Ctx) (L : Link scn s m used)
    (P : List Nat) (ps : List Payload) (pre url : List Tok) (fed' : Nat)
    (hc : c.m = m ∧ c.scn = scn ∧ (∃ n ch, c.op = .feed n ch ∧ fed' = min (m.fed + n) scn.full.length) ∧ c.excused' = false ∧ c.n' = completeN scn.items fed')
    (htoks : c.toks = pre ++ (hRun s.lists P ps).2 ++ url)
    (hpre : pre = [] ∨ pre = [.post (.call 0)]) (hurl : ∀ t ∈ url, isUrlTok t = true)
    (hmsgs : scn.msgsUpTo (completeN scn.items fed') = scn.msgsUpTo m.nComplete ++ ps)
    (hgood : ∀ p ∈ ps, goodPayload p = true)
    (hP : P.Nodup) (hPrel : ∀ k, k ≠ 0 → (k ∈ P ↔ (k ∈ m.posted ∧ k ∉ m.finished)))
    (hP0 : 0 ∈ P ↔ s.connRet = false) (hpre0 : pre = [.post (.call 0)] → m.posted = [])
    (hs' : HS s') (hpend : s'.pending = (hRun s.lists P ps).1) (hlists : s'.lists = s.lists) (hfed : s'.fed = fed')
    (hseen : s'.seen = (evsUpTo scn (completeN scn.items fed')).length) (hbody : s'.hasBody = s.hasBody)
    (hcr : s'.connRet = (s.connRet || (hRun s.lists P ps).2.contains .connOk))
    (hfedle : fed' ≤ scn.full.length) (hep : epIdx scn.items < completeN scn.items fed') :
    Link scn s' (monNext c) used := by
  obtain ⟨hcm, hcs, ⟨n, ch, hop, hfed'⟩, hex, hn'⟩ := hc
  obtain ⟨p1, p2, p3, p4, p5, p6, p7⟩ := feed_toks_proj c.toks pre url s.lists P ps htoks hpre hurl
  obtain ⟨d1, d2⟩ := hRun_dones s.lists ps P hP
  have hfm : (monNext c).finished = m.finished ++ (donesOf (hRun s.lists P ps).2).map (·.1) := by simp [monNext, hcm, p1]
  have hpm : (monNext c).posted = m.posted ++ (if pre = [] then [] else [0]) := by
    have : (monNext c).posted = m.posted ++ callsIn c.toks := by simp only [monNext, hcm]
    rw [this, p7]
  have hnc : (monNext c).nComplete = completeN scn.items fed' := by simp [monNext, hn']
  refine
    { excused := by simp [monNext, hex]
      termSeen := by simp only [monNext, hcm, L.termSeen, p6, Bool.or_self]
      mbody := by simp [monNext, hcm, L.mbody]
      sbody := by rw [hbody]; exact L.sbody
      fed := by simp [monNext, hop, hcm, L.mbody, hcs, hfed, hfed']
      ncomp := by rw [hnc, hfed]
      lists := by simp [monNext, hop, hcm, hlists, L.lists]
      connRet := by simp only [monNext, hcm, p4, p5, Bool.or_false, hcr, L.connRet]
      nts := by rw [hnc]; simp only [monNext, hcm, p3, L.nts, hmsgs, notifsOf_append]
      answered := ?_
      started := by simp only [monNext, hop, hcm]; exact L.started
      posted := ?_
      finished := ?_
      pend := ?_
      nodup := by rw [hpend]; exact hRun_nodup _ _ _ hP
      rdead := hs'.rdead
      wdead := hs'.wdead
      closing := hs'.closing
      done := hs'.done
      closeWait := hs'.closeWait
      handed := hs'.handed
      fedle := by rw [hfed]; exact hfedle
      phase := Or.inr ⟨hs'.up, by rw [hnc]; exact hep, by rw [hnc]; exact hseen, ?_⟩ }
  · intro id
    rw [hnc, hmsgs, reqsOf_append, filter_length_append, ← L.answered id]
    simp only [monNext, hcm, p2, filter_length_append]
    congr 1
    induction (reqsOf ps) with
    | nil => rfl
    | cons r t ih => simp only [List.map_cons, List.filter_cons]; split <;> simp [ih]
  · intro k hk hk0
    rw [hpm] at hk
    have hst : (monNext c).started = m.started := by simp [monNext, hop, hcm]
    rw [hst]
    rcases List.mem_append.mp hk with hk | hk
    · exact L.posted k hk hk0
    · split at hk
      · simp at hk
      · simp only [List.mem_cons, List.not_mem_nil, or_false] at hk; exact absurd hk hk0
  · intro k hk
    rw [hfm] at hk
    rw [hpm]
    rcases List.mem_append.mp hk with hk | hk
    · exact ⟨(L.finished k hk).1, List.mem_append_left _ (L.finished k hk).2⟩
    · obtain ⟨d, hd, rfl⟩ := List.mem_map.mp hk
      obtain ⟨hd0, hdP, _⟩ := d1 d hd
      exact ⟨hd0, List.mem_append_left _ ((hPrel d.1 hd0).mp hdP).1⟩
  · intro k hk0
    rw [hpend, hRun_pend _ _ _ hP, hfm, hpm]
    constructor
    · rintro ⟨hkP, hno⟩
      obtain ⟨h1, h2⟩ := (hPrel k hk0).mp hkP
      refine ⟨List.mem_append_left _ h1, ?_⟩
      intro hm
      rcases List.mem_append.mp hm with hm | hm
      · exact h2 hm
      · obtain ⟨d, hd, rfl⟩ := List.mem_map.mp hm
        obtain ⟨_, _, ok, hok, _⟩ := d1 d hd
        exact hno ok hok
    · rintro ⟨h1, h2⟩
      have h1' : k ∈ m.posted := by
        rcases List.mem_append.mp h1 with h1 | h1
        · exact h1
        · split at h1
          · simp at h1
          · simp only [List.mem_cons, List.not_mem_nil, or_false] at h1; exact absurd h1 hk0
      have h2' : k ∉ m.finished := fun hm => h2 (List.mem_append_left _ hm)
      have hkP := (hPrel k hk0).mpr ⟨h1', h2'⟩
      refine ⟨hkP, fun ok hok => ?_⟩
      obtain ⟨d, hd, hdk⟩ := hRun_completes s.lists ps P k ok hkP hk0 hok
      exact h2 (List.mem_append_right _ (List.mem_map.mpr ⟨d, hd, hdk⟩))
  · rw [hpend, hRun_pend _ _ _ hP, hcr]
    constructor
    · rintro ⟨h0, hno⟩
      have hcr0 := hP0.mp h0
      have : (hRun s.lists P ps).2.contains .connOk = false := by
        rw [contains_false]
        intro hm
        obtain ⟨ok, hok⟩ := hRun_connOk_inv _ _ _ hm
        exact hno ok hok
      rw [hcr0, this]; rfl
    · intro h
      simp only [Bool.or_eq_false_iff] at h
      refine ⟨hP0.mpr h.1, fun ok hok => ?_⟩
      have hg := hgood _ hok
      cases ok with
      | false => simp [goodPayload, excusing] at hg
      | true =>
        have := hRun_connOk s.lists ps P (hP0.mpr h.1) hok hgood
        have h2 := h.2
        rw [contains_false] at h2
        exact h2 this

theorem HS_of_link (scn : Scn) (s : St) (m : Mon) (used : List Nat) (L : Link scn s m used)
    (hup : s.phase = .up) (h0 : 0 ∈ s.pending ↔ s.connRet = false) : HS s :=
  ⟨hup, L.rdead, L.wdead, L.closing, L.done, L.closeWait, L.handed, h0.mp, L.nodup⟩

/-- **one read**: the monitor raises nothing on the model's tokens, and the books still agree -/
theorem link_feed (scn : Scn) (hh : Healthy scn) (s : St) (m : Mon) (used : List Nat) (L : Link scn s m used)
    (n : Nat) (ch : List Nat) :
    monCheck (mkCtx scn m (.feed n ch) (step scn repaired s (.feed n ch)).2) = none ∧
    Link scn (step scn repaired s (.feed n ch)).1 (monNext (mkCtx scn m (.feed n ch) (step scn repaired s (.feed n ch)).2)) used := by
  rw [step_feed scn repaired s n ch L.sbody]
  generalize hfed' : min (s.fed + n) scn.full.length = fed'
  have hfedle : fed' ≤ scn.full.length := by omega
  have hsfed : s.fed ≤ fed' := by have := L.fedle; omega
  have hmono : m.nComplete ≤ completeN scn.items fed' := by rw [L.ncomp]; exact completeN_mono _ _ _ hsfed
  have hn0le : m.nComplete ≤ scn.items.length := by rw [L.ncomp]; exact completeN_le _ _
  have hmsgs : scn.msgsUpTo (completeN scn.items fed') = scn.msgsUpTo m.nComplete ++ (newMsgs scn m.nComplete (completeN scn.items fed')).map (·.2) :=
    msgsUpTo_split scn _ _ hmono hn0le
  have hgood : ∀ p ∈ (newMsgs scn m.nComplete (completeN scn.items fed')).map (·.2), goodPayload p = true := by
    intro p hp
    obtain ⟨ip, hip, rfl⟩ := List.mem_map.mp hp
    exact newMsgs_good scn hh.labelled _ _ ip hip
  -- the context of the step, whatever the tokens
  have hctx : ∀ toks, let c := mkCtx scn m (.feed n ch) toks
      c.n' = completeN scn.items fed' ∧ c.live = newMsgs scn m.nComplete (completeN scn.items fed') ∧
      c.excused' = false ∧ c.m = m ∧ c.scn = scn ∧ c.op = .feed n ch ∧ c.toks = toks := by
    intro toks
    have := mkCtx_feed scn hh m n ch toks L.mbody L.excused trivial
    rw [L.fed, hfed'] at this
    exact this
  rcases L.phase with ⟨hph, hnep, hpend0, hcr0, hposted0, hfin0⟩ | ⟨hph, hep, hseen, h0⟩
  · by_cases hb : epIdx scn.items < completeN scn.items fed'
    · -- the endpoint event arrives in this read
      obtain ⟨s', hfb, hs', hpend, hlists, hfed, hseen', hbody, hcr⟩ :=
        feedBytes_greet scn hh s fed' m.nComplete hph hnep hb ⟨L.rdead, L.wdead, L.closing, L.done, L.closeWait⟩ hcr0
          (by rw [L.handed, hcr0])
      rw [hfb]
      obtain ⟨u, hu, hurl⟩ := withUrl_eq s' ([Tok.post (.call 0)] ++ (hRun s.lists [0] ((newMsgs scn m.nComplete (completeN scn.items fed')).map (·.2))).2)
      simp only [hu]
      obtain ⟨c1, c2, c3, c4, c5, c6, c7⟩ := hctx (([Tok.post (.call 0)] ++ (hRun s.lists [0] ((newMsgs scn m.nComplete (completeN scn.items fed')).map (·.2))).2) ++ u)
      constructor
      · apply feed_checks _ [0] ((newMsgs scn m.nComplete (completeN scn.items fed')).map (·.2)) [.post (.call 0)] u
        · rw [c7, c4, L.lists]
        · exact Or.inr rfl
        · exact hurl
        · rw [c2]
        · rw [c1, c5, c4]; exact hmsgs
        · exact hgood
        · simp
        · intro k hk hk0; simp at hk; exact absurd hk hk0
        · intro k hk0 hp; rw [c4, hposted0] at hp; simp at hp
        · intro _ _; simp
        · exact ⟨n, ch, c6⟩
        · rw [c4]; exact L.termSeen
        · rw [c4, c5]; exact L.nts
        · rw [c4, c5]; exact L.answered
      · apply link_after_feed scn s s' m used _ L [0] ((newMsgs scn m.nComplete (completeN scn.items fed')).map (·.2)) [.post (.call 0)] u fed'
        · exact ⟨c4, c5, ⟨n, ch, c6, by rw [L.fed, hfed']⟩, c3, c1⟩
        · rw [c7]
        · exact Or.inr rfl
        · exact hurl
        · exact hmsgs
        · exact hgood
        · simp
        · intro k hk0
          rw [hposted0]
          constructor
          · intro hk; simp at hk; exact absurd hk hk0
          · intro hk; simp at hk
        · simp [hcr0]
        · intro _; exact hposted0
        · exact hs'
        · exact hpend
        · exact hlists
        · exact hfed
        · exact hseen'
        · exact hbody
        · rw [hcr, hcr0]; rfl
        · exact hfedle
        · exact hb
    · -- still waiting for the endpoint event
      have hb' : completeN scn.items fed' ≤ epIdx scn.items := by omega
      rw [feedBytes_wait scn hh s fed' hph hb']
      have hnone : newMsgs scn m.nComplete (completeN scn.items fed') = [] := by
        unfold newMsgs
        apply msgFrom_before
        simp only [List.length_drop, List.length_take]
        have := completeN_le scn.items fed'
        omega
      obtain ⟨c1, c2, c3, c4, c5, c6, c7⟩ := hctx (withUrl { s with fed := fed' } [])
      have hw : withUrl { s with fed := fed' } [] = [] := by simp [withUrl]
      constructor
      · apply feed_checks _ [] [] [] []
        · rw [c7, hw]; simp [hRun]
        · exact Or.inl rfl
        · simp
        · rw [c2, hnone]; rfl
        · rw [c1, c5, c4, hmsgs, hnone]; rfl
        · simp
        · simp
        · simp
        · intro k hk0 hp; rw [c4, hposted0] at hp; simp at hp
        · intro h; simp at h
        · exact ⟨n, ch, c6⟩
        · rw [c4]; exact L.termSeen
        · rw [c4, c5]; exact L.nts
        · rw [c4, c5]; exact L.answered
      · -- the books: only the byte counter moved
        have hmsgs0 : scn.msgsUpTo (completeN scn.items fed') = scn.msgsUpTo m.nComplete := by
          rw [hmsgs, hnone]; simp
        generalize hcdef : mkCtx scn m (.feed n ch) (withUrl { s with fed := fed' } []) = c at c1 c2 c3 c4 c5 c6 c7
        rw [hw] at c7
        have hnc : (monNext c).nComplete = completeN scn.items fed' := by simp [monNext, c1]
        exact
          { excused := by simp [monNext, c3]
            termSeen := by simp [monNext, c4, c7, L.termSeen]
            mbody := by simp [monNext, c4, L.mbody]
            sbody := L.sbody
            fed := by simp [monNext, c6, c4, L.mbody, c5, L.fed, hfed']
            ncomp := hnc
            lists := by simp [monNext, c6, c4, L.lists]
            connRet := by simp [monNext, c4, c7, L.connRet]
            nts := by rw [hnc, hmsgs0]; simp [monNext, c4, c7, ntsOf, L.nts]
            answered := by intro id; rw [hnc, hmsgs0, ← L.answered id]; simp [monNext, c4, c7, respIdsOf, postsOf]
            started := by simp only [monNext, c6, c4]; exact L.started
            posted := by simp only [monNext, c6, c4, c7, callsIn, postsOf, List.filterMap_nil, List.append_nil]; exact L.posted
            finished := by simp only [monNext, c4, c7, callsIn, postsOf, donesOf, List.filterMap_nil, List.map_nil, List.append_nil]; exact L.finished
            pend := by simp only [monNext, c4, c7, callsIn, postsOf, donesOf, List.filterMap_nil, List.map_nil, List.append_nil]; exact L.pend
            nodup := L.nodup
            rdead := L.rdead
            wdead := L.wdead
            closing := L.closing
            done := L.done
            closeWait := L.closeWait
            handed := L.handed
            fedle := hfedle
            phase := Or.inl ⟨hph, by rw [hnc]; exact hb', hpend0, hcr0,
              by simp only [monNext, c4, c7, callsIn, postsOf, List.filterMap_nil, List.append_nil]; exact hposted0,
              by simp only [monNext, c4, c7, donesOf, List.filterMap_nil, List.map_nil, List.append_nil]; exact hfin0⟩ }
  · -- the connection is up
    have hs : HS s := HS_of_link scn s m used L hph h0
    obtain ⟨s', hfb, hs', hpend, hlists, hfed, hseen', hbody, hcr⟩ := feedBytes_up scn hh s fed' m.nComplete hph hseen hmono hep hs
    rw [hfb]
    obtain ⟨u, hu, hurl⟩ := withUrl_eq s' ((hRun s.lists s.pending ((newMsgs scn m.nComplete (completeN scn.items fed')).map (·.2))).2)
    simp only [hu]
    obtain ⟨c1, c2, c3, c4, c5, c6, c7⟩ := hctx ((hRun s.lists s.pending ((newMsgs scn m.nComplete (completeN scn.items fed')).map (·.2))).2 ++ u)
    constructor
    · apply feed_checks _ s.pending ((newMsgs scn m.nComplete (completeN scn.items fed')).map (·.2)) [] u
      · rw [c7, c4, L.lists]; simp
      · exact Or.inl rfl
      · exact hurl
      · rw [c2]
      · rw [c1, c5, c4]; exact hmsgs
      · exact hgood
      · exact L.nodup
      · intro k hk hk0
        rw [c4]
        obtain ⟨h1, h2⟩ := (L.pend k hk0).mp hk
        exact ⟨L.posted k h1 hk0, h2⟩
      · intro k hk0 hp hf
        rw [c4] at hp hf
        exact (L.pend k hk0).mpr ⟨hp, hf⟩
      · intro _ hc
        rw [c4, L.connRet] at hc
        exact h0.mpr hc
      · exact ⟨n, ch, c6⟩
      · rw [c4]; exact L.termSeen
      · rw [c4, c5]; exact L.nts
      · rw [c4, c5]; exact L.answered
    · apply link_after_feed scn s s' m used _ L s.pending ((newMsgs scn m.nComplete (completeN scn.items fed')).map (·.2)) [] u fed'
      · exact ⟨c4, c5, ⟨n, ch, c6, by rw [L.fed, hfed']⟩, c3, c1⟩
      · rw [c7]; simp
      · exact Or.inl rfl
      · exact hurl
      · exact hmsgs
      · exact hgood
      · exact L.nodup
      · exact L.pend
      · exact h0
      · intro h; cases h
      · exact hs'
      · exact hpend
      · exact hlists
      · exact hfed
      · exact hseen'
      · exact hbody
      · exact hcr
      · exact hfedle
      · omega

/-! ### calls, `fin`, `connect` -/

theorem newMsgs_self (scn : Scn) (n : Nat) : newMsgs scn n n = [] := by
  unfold newMsgs
  have : (scn.items.take n).drop n = [] := by
    apply List.drop_eq_nil_of_le; simp [List.length_take]; omega
  rw [this]; rfl

/-- the context of a step that feeds nothing (call, fin) on healthy books -/
theorem mkCtx_still (scn : Scn) (hh : Healthy scn) (m : Mon) (op : Op) (toks : List Tok) (hex : m.excused = false)
    (hop : (∃ k l, op = .call k l) ∨ op = .fin) :
    let c := mkCtx scn m op toks
    c.n' = m.nComplete ∧ c.live = [] ∧ c.excused' = false ∧ c.m = m ∧ c.scn = scn ∧ c.op = op ∧ c.toks = toks := by
  have hpf : (postsOf toks).any (fun p => !scn.postOk p) = false := by simp [hh.posts]
  rcases hop with ⟨k, l, rfl⟩ | rfl <;>
    simp [mkCtx, hex, hh.ep, hpf, newMsgs_self, livePrefix]

theorem link_call (scn : Scn) (hh : Healthy scn) (s : St) (m : Mon) (used : List Nat) (L : Link scn s m used)
    (k : Nat) (isList : Bool) (hk0 : k ≠ 0) (hku : k ∉ used) :
    monCheck (mkCtx scn m (.call k isList) (step scn repaired s (.call k isList)).2) = none ∧
    Link scn (step scn repaired s (.call k isList)).1 (monNext (mkCtx scn m (.call k isList) (step scn repaired s (.call k isList)).2)) (k :: used) := by
  have hkst : k ∉ m.started := fun h => hku (L.started k h)
  have hkpo : k ∉ m.posted := fun h => hkst (L.posted k h hk0)
  have hkfi : k ∉ m.finished := fun h => hkpo (L.finished k h).2
  have hkpe : k ∉ s.pending := fun h => hkpo ((L.pend k hk0).mp h).1
  by_cases hhd : s.handed = true
  · -- a session exists: the request is POSTed and registered
    have hcr : s.connRet = true := by rw [← L.handed]; exact hhd
    have hup : s.phase = .up ∧ (0 ∈ s.pending ↔ s.connRet = false) := by
      rcases L.phase with ⟨_, _, _, h, _⟩ | ⟨h1, _, _, h4⟩
      · rw [hcr] at h; cases h
      · exact ⟨h1, h4⟩
    have hstep : step scn repaired s (.call k isList) =
        ({ s with lists := if isList then k :: s.lists else s.lists, pending := s.pending ++ [k] },
         [.post (.call k), .url s.target]) := by
      simp [step, hhd, L.done, St.shutting, L.closing, L.rdead, L.wdead, hh.posts, withUrl]
    rw [hstep]
    obtain ⟨c1, c2, c3, c4, c5, c6, c7⟩ := mkCtx_still scn hh m (.call k isList) [.post (.call k), .url s.target] L.excused (Or.inl ⟨k, isList, rfl⟩)
    generalize mkCtx scn m (.call k isList) [.post (.call k), .url s.target] = c at c1 c2 c3 c4 c5 c6 c7
    constructor
    · apply monCheck_none
      · intro t ht; rw [c7] at ht; simp at ht; rcases ht with rfl | rfl <;> rfl
      · rw [c7]; rfl
      · rw [c7]; simp
      · rw [c7]; simp
      · rw [c7]; simp
      · rw [c7]; rfl
      · rw [c2]; rfl
      · rw [c4]; exact L.termSeen
      · rw [notifs_eq, c1, c4, c5, c7, L.nts]; simp [ntsOf, isSubseq_refl]
    · have hnc : (monNext c).nComplete = m.nComplete := by simp [monNext, c1]
      exact
        { excused := by simp [monNext, c3]
          termSeen := by simp [monNext, c4, c7, L.termSeen]
          mbody := by simp [monNext, c4, L.mbody]
          sbody := L.sbody
          fed := by simp [monNext, c6, c4, L.fed]
          ncomp := by rw [hnc]; exact L.ncomp
          lists := by cases isList <;> simp [monNext, c6, c4, L.lists]
          connRet := by simp [monNext, c4, c7, L.connRet]
          nts := by rw [hnc]; simp [monNext, c4, c7, ntsOf, L.nts]
          answered := by intro id; rw [hnc, ← L.answered id]; simp [monNext, c4, c7, respIdsOf, postsOf]
          started := by
            intro k' hk'
            simp only [monNext, c6, c4, c7] at hk'
            have : k' ∈ k :: m.started := by simpa using hk'
            rcases List.mem_cons.mp this with rfl | h
            · simp
            · exact List.mem_cons_of_mem _ (L.started k' h)
          posted := by
            intro k' hk' hk'0
            have hp : (monNext c).posted = m.posted ++ [k] := by simp [monNext, c4, c7, callsIn, postsOf]
            have hs : (monNext c).started = k :: m.started := by simp [monNext, c6, c4, c7]
            rw [hp] at hk'; rw [hs]
            rcases List.mem_append.mp hk' with h | h
            · exact List.mem_cons_of_mem _ (L.posted k' h hk'0)
            · simp at h; simp [h]
          finished := by
            intro k' hk'
            have hf : (monNext c).finished = m.finished := by simp [monNext, c4, c7, donesOf]
            have hp : (monNext c).posted = m.posted ++ [k] := by simp [monNext, c4, c7, callsIn, postsOf]
            rw [hf] at hk'; rw [hp]
            exact ⟨(L.finished k' hk').1, List.mem_append_left _ (L.finished k' hk').2⟩
          pend := by
            intro k' hk'0
            have hf : (monNext c).finished = m.finished := by simp [monNext, c4, c7, donesOf]
            have hp : (monNext c).posted = m.posted ++ [k] := by simp [monNext, c4, c7, callsIn, postsOf]
            rw [hf, hp]
            simp only [List.mem_append, List.mem_cons, List.not_mem_nil, or_false]
            constructor
            · rintro (h | rfl)
              · exact ⟨Or.inl ((L.pend k' hk'0).mp h).1, ((L.pend k' hk'0).mp h).2⟩
              · exact ⟨Or.inr rfl, hkfi⟩
            · rintro ⟨h | rfl, h2⟩
              · exact Or.inl ((L.pend k' hk'0).mpr ⟨h, h2⟩)
              · exact Or.inr rfl
          nodup := by
            rw [List.nodup_append]
            exact ⟨L.nodup, by simp, by intro a ha b hb; simp at hb; subst hb; rintro rfl; exact hkpe ha⟩
          rdead := L.rdead
          wdead := L.wdead
          closing := L.closing
          done := L.done
          closeWait := L.closeWait
          handed := L.handed
          fedle := L.fedle
          phase := by
            rcases L.phase with ⟨_, _, _, h, _⟩ | ⟨h1, h2, h3, h4⟩
            · rw [hcr] at h; cases h
            · refine Or.inr ⟨h1, by rw [hnc]; exact h2, by rw [hnc]; exact h3, ?_⟩
              simp only [List.mem_append, List.mem_cons, List.not_mem_nil, or_false]
              constructor
              · rintro (h | h)
                · exact h4.mp h
                · exact absurd h.symm hk0
              · intro h; exact Or.inl (h4.mpr h) }
  · -- no session yet: the harness reports `nosession`
    have hhd' : s.handed = false := by simpa using hhd
    have hstep : step scn repaired s (.call k isList) =
        ({ s with lists := if isList then k :: s.lists else s.lists }, [.nosession]) := by
      simp [step, hhd']
    rw [hstep]
    obtain ⟨c1, c2, c3, c4, c5, c6, c7⟩ := mkCtx_still scn hh m (.call k isList) [.nosession] L.excused (Or.inl ⟨k, isList, rfl⟩)
    generalize mkCtx scn m (.call k isList) [.nosession] = c at c1 c2 c3 c4 c5 c6 c7
    constructor
    · apply monCheck_none
      · intro t ht; rw [c7] at ht; simp at ht; subst ht; rfl
      · rw [c7]; rfl
      · rw [c7]; simp
      · rw [c7]; simp
      · rw [c7]; simp
      · rw [c7]; rfl
      · rw [c2]; rfl
      · rw [c4]; exact L.termSeen
      · rw [notifs_eq, c1, c4, c5, c7, L.nts]; simp [ntsOf, isSubseq_refl]
    · have hnc : (monNext c).nComplete = m.nComplete := by simp [monNext, c1]
      exact
        { excused := by simp [monNext, c3]
          termSeen := by simp [monNext, c4, c7, L.termSeen]
          mbody := by simp [monNext, c4, L.mbody]
          sbody := L.sbody
          fed := by simp [monNext, c6, c4, L.fed]
          ncomp := by rw [hnc]; exact L.ncomp
          lists := by cases isList <;> simp [monNext, c6, c4, L.lists]
          connRet := by simp [monNext, c4, c7, L.connRet]
          nts := by rw [hnc]; simp [monNext, c4, c7, ntsOf, L.nts]
          answered := by intro id; rw [hnc, ← L.answered id]; simp [monNext, c4, c7, respIdsOf, postsOf]
          started := by
            intro k' hk'
            simp only [monNext, c6, c4, c7] at hk'
            have : k' ∈ m.started := by simpa using hk'
            exact List.mem_cons_of_mem _ (L.started k' this)
          posted := by
            have hp : (monNext c).posted = m.posted := by simp [monNext, c4, c7, callsIn, postsOf]
            have hs : (monNext c).started = m.started := by simp [monNext, c6, c4, c7]
            rw [hp, hs]; exact L.posted
          finished := by
            have hf : (monNext c).finished = m.finished := by simp [monNext, c4, c7, donesOf]
            have hp : (monNext c).posted = m.posted := by simp [monNext, c4, c7, callsIn, postsOf]
            rw [hf, hp]; exact L.finished
          pend := by
            have hf : (monNext c).finished = m.finished := by simp [monNext, c4, c7, donesOf]
            have hp : (monNext c).posted = m.posted := by simp [monNext, c4, c7, callsIn, postsOf]
            rw [hf, hp]; exact L.pend
          nodup := L.nodup
          rdead := L.rdead
          wdead := L.wdead
          closing := L.closing
          done := L.done
          closeWait := L.closeWait
          handed := L.handed
          fedle := L.fedle
          phase := by
            have hf : (monNext c).finished = m.finished := by simp [monNext, c4, c7, donesOf]
            have hp : (monNext c).posted = m.posted := by simp [monNext, c4, c7, callsIn, postsOf]
            rw [hnc, hf, hp]; exact L.phase }

def isPendTok : Tok → Bool
  | .pend _ => true
  | _ => false

theorem fin_toks (scn : Scn) (s : St) : (step scn repaired s .fin).1 = s ∧ ∀ t ∈ (step scn repaired s .fin).2, isPendTok t = true := by
  refine ⟨rfl, ?_⟩
  intro t ht
  simp only [step, List.mem_append, List.mem_map] at ht
  rcases ht with ht | ⟨k, _, rfl⟩
  · split at ht
    · simp at ht; subst ht; rfl
    · simp at ht
  · rfl

theorem donesOf_pend (l : List Tok) (h : ∀ t ∈ l, isPendTok t = true) : donesOf l = [] := by
  induction l with
  | nil => rfl
  | cons t ts ih => have := h t (by simp); cases t <;> simp_all [donesOf, isPendTok]
theorem postsOf_pend (l : List Tok) (h : ∀ t ∈ l, isPendTok t = true) : postsOf l = [] := by
  induction l with
  | nil => rfl
  | cons t ts ih => have := h t (by simp); cases t <;> simp_all [postsOf, isPendTok]
theorem ntsOf_pend (l : List Tok) (h : ∀ t ∈ l, isPendTok t = true) : ntsOf l = [] := by
  induction l with
  | nil => rfl
  | cons t ts ih => have := h t (by simp); cases t <;> simp_all [ntsOf, isPendTok]

theorem link_fin (scn : Scn) (hh : Healthy scn) (s : St) (m : Mon) (used : List Nat) (L : Link scn s m used) :
    monCheck (mkCtx scn m .fin (step scn repaired s .fin).2) = none ∧
    Link scn (step scn repaired s .fin).1 (monNext (mkCtx scn m .fin (step scn repaired s .fin).2)) used := by
  obtain ⟨hs, hp⟩ := fin_toks scn s
  rw [hs]
  generalize (step scn repaired s .fin).2 = toks at hp
  obtain ⟨c1, c2, c3, c4, c5, c6, c7⟩ := mkCtx_still scn hh m .fin toks L.excused (Or.inr rfl)
  generalize mkCtx scn m .fin toks = c at c1 c2 c3 c4 c5 c6 c7
  have hd : donesOf c.toks = [] := by rw [c7]; exact donesOf_pend _ hp
  have hpo : postsOf c.toks = [] := by rw [c7]; exact postsOf_pend _ hp
  have hnt : ntsOf c.toks = [] := by rw [c7]; exact ntsOf_pend _ hp
  have hno : ∀ t, isPendTok t = false → t ∉ c.toks := by
    intro t ht hm; rw [c7] at hm; rw [hp t hm] at ht; cases ht
  have hconnOk : c.toks.contains .connOk = false := contains_false.mpr (hno _ rfl)
  have hconnErr : c.toks.contains .connErr = false := contains_false.mpr (hno _ rfl)
  have hterm : c.toks.contains .term = false := contains_false.mpr (hno _ rfl)
  constructor
  · apply monCheck_none
    · intro t ht; rw [c7] at ht; have := hp t ht; cases t <;> simp_all [isPendTok, otherClause]
    · rw [hd]; rfl
    · exact hno _ rfl
    · intro h; exact absurd h (hno _ rfl)
    · exact hno _ rfl
    · simp [respIdsOf, hpo, checkResps]
    · rw [c2]; rfl
    · rw [c4]; exact L.termSeen
    · rw [notifs_eq, c1, c4, c5, hnt, L.nts]; simp [isSubseq_refl]
  · have hnc : (monNext c).nComplete = m.nComplete := by simp [monNext, c1]
    have hf : (monNext c).finished = m.finished := by simp [monNext, c4, hd]
    have hpp : (monNext c).posted = m.posted := by simp [monNext, c4, callsIn, hpo]
    have hst : (monNext c).started = m.started := by simp [monNext, c6, c4]
    exact
      { excused := by simp [monNext, c3]
        termSeen := by simp only [monNext, c4, hterm, L.termSeen, Bool.or_self]
        mbody := by simp [monNext, c4, L.mbody]
        sbody := L.sbody
        fed := by simp [monNext, c6, c4, L.fed]
        ncomp := by rw [hnc]; exact L.ncomp
        lists := by simp [monNext, c6, c4, L.lists]
        connRet := by simp only [monNext, c4, hconnOk, hconnErr, L.connRet, Bool.or_false]
        nts := by rw [hnc]; simp [monNext, c4, hnt, L.nts]
        answered := by intro id; rw [hnc, ← L.answered id]; simp [monNext, c4, respIdsOf, hpo]
        started := by rw [hst]; exact L.started
        posted := by rw [hpp, hst]; exact L.posted
        finished := by rw [hf, hpp]; exact L.finished
        pend := by rw [hf, hpp]; exact L.pend
        nodup := L.nodup
        rdead := L.rdead
        wdead := L.wdead
        closing := L.closing
        done := L.done
        closeWait := L.closeWait
        handed := L.handed
        fedle := L.fedle
        phase := by rw [hnc, hf, hpp]; exact L.phase }

/-! ### a whole case -/

theorem run_accepts (scn : Scn) (hh : Healthy scn) (ops : List Op) :
    ∀ (s : St) (m : Mon) (used : List Nat), Link scn s m used → opsOK used ops = true →
      runMon scn m (ops.zip (run scn repaired s ops)) = none := by
  induction ops with
  | nil => intro s m used _ _; rfl
  | cons op rest ih =>
    intro s m used L hok
    simp only [run, List.zip_cons_cons, runMon, monStep]
    cases op with
    | feed n ch =>
      obtain ⟨h1, h2⟩ := link_feed scn hh s m used L n ch
      rw [h1]
      exact ih _ _ used h2 (by simpa [opsOK] using hok)
    | call k l =>
      simp only [opsOK, Bool.and_eq_true, decide_eq_true_eq, Bool.not_eq_true'] at hok
      obtain ⟨⟨hk0, hku⟩, hrest⟩ := hok
      have hku' : k ∉ used := by simpa using hku
      obtain ⟨h1, h2⟩ := link_call scn hh s m used L k l hk0 hku'
      rw [h1]
      exact ih _ _ (k :: used) h2 hrest
    | fin =>
      obtain ⟨h1, h2⟩ := link_fin scn hh s m used L
      rw [h1]
      exact ih _ _ used h2 (by simpa [opsOK] using hok)
    | connect => simp [opsOK] at hok
    | endStream => simp [opsOK] at hok
    | close => simp [opsOK] at hok

theorem item_bytes_pos (it : Item) : 0 < it.bytes.length := by
  unfold Item.bytes
  rw [renderLines_length]
  simp only [FEvent.render, List.map_append, List.map_map, List.map_cons, List.map_nil, List.sum_append, List.sum_cons,
    List.sum_nil, List.length_nil, Nat.zero_add, Nat.add_zero]
  have := eol_len it.fe.endEol
  omega

theorem completeN_zero (items : List Item) : completeN items 0 = 0 := by
  cases items with
  | nil => rfl
  | cons it t =>
    have := item_bytes_pos it
    simp only [completeN]
    split
    · omega
    · rfl

/-- **monitor_accepts_model_partial.** On every HEALTHY case — a foreign server that writes well-formed lines
in any spelling, greets with `endpoint` first, accepts every POST, labels its events consistently and sends
nothing that excuses a shutdown; the harness connects first and then reads (any number of bytes, cut
anywhere), calls (fresh indices) and finishes in any order — the monitor raises no clause on the
observations of the model (repaired pump).  With `generated_filter_is_repaired` the same holds for the
filter regenerated from `mcp/sse.go`. -/
theorem monitor_accepts_model_partial (scn : Scn) (hh : Healthy scn) (ops : List Op) (hok : opsOK [] ops = true) :
    runMon scn {} ((Op.connect :: ops).zip (run scn repaired {} (Op.connect :: ops))) = none := by
  have hstep : step scn repaired {} .connect = ({ phase := .awaitEp, hasBody := true }, [.get]) := by
    simp [step, hh.get]
  simp only [run, List.zip_cons_cons, runMon, monStep, hstep]
  have hpf : ∀ p, (!scn.postOk p) = false := by simp [hh.posts]
  have hc : monCheck (mkCtx scn {} .connect [.get]) = none := by
    apply monCheck_none
    · intro t ht; simp [mkCtx] at ht; subst ht; rfl
    · rfl
    · simp [mkCtx]
    · simp [mkCtx]
    · simp [mkCtx]
    · rfl
    · simp [mkCtx, newMsgs_self, livePrefix, checkLive]
    · rfl
    · simp [mkCtx, Ctx.notifs, Scn.msgsUpTo, newMsgs_self, ntsOf, isSubseq]
  rw [hc]
  apply run_accepts scn hh ops _ _ [] _ hok
  have hn0 : (monNext (mkCtx scn {} .connect [.get])).nComplete = 0 := by simp [monNext, mkCtx]
  have hm0 : scn.msgsUpTo 0 = [] := by simp [Scn.msgsUpTo, newMsgs_self]
  exact
    { excused := by simp [monNext, mkCtx, hh.get, postsOf, newMsgs_self]
      termSeen := by simp [monNext, mkCtx]
      mbody := by simp [monNext, mkCtx, hh.get]
      sbody := rfl
      fed := by simp [monNext, mkCtx]
      ncomp := by rw [hn0]; exact (completeN_zero _).symm
      lists := by simp [monNext, mkCtx]
      connRet := by simp [monNext, mkCtx]
      nts := by rw [hn0, hm0]; simp [monNext, mkCtx, ntsOf, notifsOf]
      answered := by intro id; rw [hn0, hm0]; simp [monNext, mkCtx, respIdsOf, postsOf, reqsOf]
      started := by simp [monNext, mkCtx]
      posted := by simp [monNext, mkCtx, callsIn, postsOf]
      finished := by simp [monNext, mkCtx, donesOf]
      pend := by intro k _; simp [monNext, mkCtx, callsIn, postsOf]
      nodup := by simp
      rdead := rfl
      wdead := rfl
      closing := rfl
      done := rfl
      closeWait := rfl
      handed := rfl
      fedle := by simp
      phase := Or.inl ⟨rfl, by rw [hn0]; exact Nat.zero_le _, rfl, rfl, by simp [monNext, mkCtx, callsIn, postsOf], by simp [monNext, mkCtx, donesOf]⟩ }

/-- the same for the code's filter -/
theorem monitor_accepts_generated_partial (scn : Scn) (hh : Healthy scn) (ops : List Op) (hok : opsOK [] ops = true) :
    runMon scn {} ((Op.connect :: ops).zip (run scn generatedFilter {} (Op.connect :: ops))) = none := by
  rw [generated_filter_is_repaired]; exact monitor_accepts_model_partial scn hh ops hok

end SseClient
