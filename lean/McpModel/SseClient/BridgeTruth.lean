import McpModel.SseClient.BridgeRun
/-!
# Bridge, part 3: the payloads the model's pump hands over in one step = the monitor's new message items
-/
namespace SseClient
open Wire

/-! ### the monitor's enumeration -/

theorem msgFrom_append (ep i : Nat) (x y : List Item) :
    msgFrom ep i (x ++ y) = msgFrom ep i x ++ msgFrom ep (i + x.length) y := by
  induction x generalizing i with
  | nil => simp [msgFrom]
  | cons it t ih =>
    simp only [List.cons_append, msgFrom, ih, List.length_cons, List.append_assoc]
    have : i + 1 + t.length = i + (t.length + 1) := by omega
    rw [this]

/-- items at or before the endpoint event carry no message -/
theorem msgFrom_before (ep i : Nat) (l : List Item) (h : i + l.length ≤ ep + 1) : msgFrom ep i l = [] := by
  induction l generalizing i with
  | nil => rfl
  | cons it t ih =>
    simp only [List.length_cons] at h
    have : ¬ ep < i := by omega
    simp only [msgFrom, this, decide_false, Bool.false_and, Bool.false_eq_true, ite_false, List.nil_append]
    exact ih (i + 1) (by omega)

/-- after the endpoint event: the message events, by their meaning -/
theorem msgFrom_after (ep i : Nat) (l : List Item) (h : ep < i) :
    (msgFrom ep i l).map (·.2) = (l.filter (fun it => isMessage it.fe.denote)).map (·.payload) := by
  induction l generalizing i with
  | nil => rfl
  | cons it t ih =>
    simp only [msgFrom, h, decide_true, Bool.true_and, List.map_append, ih (i + 1) (by omega), List.filter_cons]
    by_cases hm : isMessage it.fe.denote = true <;> simp [hm]

theorem take_split {α} (l : List α) (a b : Nat) (h : a ≤ b) : l.take b = l.take a ++ (l.take b).drop a := by
  have := List.take_append_drop a (l.take b)
  rw [List.take_take, Nat.min_eq_left h] at this
  exact this.symm

theorem newMsgs_split (scn : Scn) (a b : Nat) (h : a ≤ b) (ha : a ≤ scn.items.length) :
    newMsgs scn 0 b = newMsgs scn 0 a ++ newMsgs scn a b := by
  have hl : (scn.items.take a).length = a := by simp [List.length_take, Nat.min_eq_left ha]
  unfold newMsgs
  simp only [List.drop_zero]
  conv => lhs; rw [take_split scn.items a b h]
  rw [msgFrom_append, hl, Nat.zero_add]

theorem msgsUpTo_split (scn : Scn) (a b : Nat) (h : a ≤ b) (ha : a ≤ scn.items.length) :
    scn.msgsUpTo b = scn.msgsUpTo a ++ (newMsgs scn a b).map (·.2) := by
  simp [Scn.msgsUpTo, newMsgs_split scn a b h ha]

theorem completeN_le (items : List Item) (n : Nat) : completeN items n ≤ items.length := by
  rw [completeN_eq]; simpa using completeE_le (items.map (·.fe)) n

theorem completeE_mono (es : List FEvent) (a b : Nat) (h : a ≤ b) : completeE es a ≤ completeE es b := by
  induction es generalizing a b with
  | nil => simp [completeE]
  | cons e t ih =>
    simp only [completeE]
    by_cases ha : feLen e ≤ a
    · have hb : feLen e ≤ b := by omega
      simp only [ha, hb, ite_true]
      have := ih (a - feLen e) (b - feLen e) (by omega)
      omega
    · simp [ha]

theorem completeN_mono (items : List Item) (a b : Nat) (h : a ≤ b) : completeN items a ≤ completeN items b := by
  rw [completeN_eq, completeN_eq]; exact completeE_mono _ a b h

/-! ### the model's pump -/

/-- the events the scanner has dispatched by the time the first `n` items were received -/
def evsUpTo (scn : Scn) (n : Nat) : List Event := ((scn.items.take n).map (·.fe.denote)).filter (fun e => !e.isEmpty)

/-- the labels are consistent with the data: decoding a message event's data gives the label, a label that
is a message and does not excuse a shutdown -/
def Scn.labelled (scn : Scn) : Prop :=
  ∀ it ∈ scn.items, isMessage it.fe.denote = true → scn.decode it.fe.denote.data = it.payload ∧ goodPayload it.payload = true

theorem pump_decode (scn : Scn) (hl : scn.labelled) (l : List Item) (hsub : ∀ it ∈ l, it ∈ scn.items) :
    (pump repaired ((l.map (·.fe.denote)).filter (fun e => !e.isEmpty))).map scn.decode =
      (l.filter (fun it => isMessage it.fe.denote)).map (·.payload) := by
  induction l with
  | nil => simp [pump]
  | cons it t ih =>
    have iht := ih (fun x hx => hsub x (by simp [hx]))
    rw [pump_delivers_message_events_exactly_once_in_order] at iht ⊢
    simp only [List.map_cons, List.filter_cons]
    by_cases hm : isMessage it.fe.denote = true
    · have hne := isMessage_not_isEmpty _ hm
      simp only [hne, Bool.not_false, ite_true, List.filter_cons, hm, List.map_cons, (hl it (hsub it (by simp)) hm).1]
      rw [iht]
    · by_cases he : it.fe.denote.isEmpty = true
      · simp only [he, Bool.not_true, Bool.false_eq_true, ite_false, hm]
        exact iht
      · simp only [he, Bool.not_false, ite_true, List.filter_cons, hm, Bool.false_eq_true, ite_false]
        exact iht

theorem evsUpTo_split (scn : Scn) (a b : Nat) (h : a ≤ b) :
    evsUpTo scn b = evsUpTo scn a ++ ((((scn.items.take b).drop a).map (·.fe.denote)).filter (fun e => !e.isEmpty)) := by
  unfold evsUpTo
  rw [take_split scn.items a b h, List.map_append, List.filter_append]
  congr 2
  rw [← take_split scn.items a b h]

/-- **what one read hands to the session (connection up)**: the new events, pumped and decoded, are the
payloads of the monitor's new message items -/
theorem feed_payloads_up (scn : Scn) (hl : scn.labelled) (a b : Nat) (h : a ≤ b) (hep : epIdx scn.items < a) :
    (pump repaired ((evsUpTo scn b).drop (evsUpTo scn a).length)).map scn.decode = (newMsgs scn a b).map (·.2) := by
  rw [evsUpTo_split scn a b h, List.drop_left]
  unfold newMsgs
  rw [msgFrom_after _ _ _ hep]
  exact pump_decode scn hl _ (fun it hit => List.mem_of_mem_take (List.mem_of_mem_drop hit))

/-- nothing is an event before the endpoint event -/
theorem evsUpTo_before (scn : Scn) (n : Nat) (h : n ≤ epIdx scn.items) : evsUpTo scn n = [] := by
  unfold evsUpTo
  rw [List.filter_eq_nil_iff]
  intro e he
  obtain ⟨it, hit, rfl⟩ := List.mem_map.mp he
  obtain ⟨i, hi, rfl⟩ := List.getElem_of_mem hit
  simp only [List.length_take] at hi
  have hlt : i < epIdx scn.items := by omega
  have := List.not_of_lt_findIdx (p := fun it => !it.fe.denote.isEmpty) (xs := scn.items) hlt
  simp only [List.getElem_take]
  simpa using this

/-- **the read in which the endpoint event arrives**: the first event is the endpoint item's, the rest pumped
and decoded are the monitor's new message items -/
theorem feed_payloads_greeting (scn : Scn) (hl : scn.labelled) (a b : Nat) (ha : a ≤ epIdx scn.items) (hb : epIdx scn.items < b)
    (hlen : b ≤ scn.items.length) :
    ∃ it rest, scn.items[epIdx scn.items]? = some it ∧ evsUpTo scn b = it.fe.denote :: rest ∧
      (pump repaired rest).map scn.decode = (newMsgs scn a b).map (·.2) := by
  have hlt : epIdx scn.items < scn.items.length := by omega
  refine ⟨scn.items[epIdx scn.items], (((scn.items.take b).drop (epIdx scn.items + 1)).map (·.fe.denote)).filter (fun e => !e.isEmpty),
    by simp [hlt], ?_, ?_⟩
  · rw [evsUpTo_split scn (epIdx scn.items) b (by omega), evsUpTo_before scn _ (Nat.le_refl _), List.nil_append]
    have hd : (scn.items.take b).drop (epIdx scn.items) = scn.items[epIdx scn.items] :: (scn.items.take b).drop (epIdx scn.items + 1) := by
      have hl' : epIdx scn.items < (scn.items.take b).length := by simp [List.length_take]; omega
      rw [List.drop_eq_getElem_cons hl']
      simp [List.getElem_take]
    rw [hd, List.map_cons, List.filter_cons]
    have hlt' : List.findIdx (fun it : Item => !it.fe.denote.isEmpty) scn.items < scn.items.length := hlt
    have hne : (!(scn.items[epIdx scn.items]).fe.denote.isEmpty) = true :=
      List.findIdx_getElem (p := fun it : Item => !it.fe.denote.isEmpty) (xs := scn.items) (w := hlt')
    have hne' : (scn.items[epIdx scn.items]).fe.denote.isEmpty = false := by simpa using hne
    simp
    exact hne'
  · unfold newMsgs
    -- the items of [a, b): those up to the endpoint item carry no message, the rest are after it
    have hsplit : (scn.items.take b).drop a =
        ((scn.items.take b).drop a).take (epIdx scn.items + 1 - a) ++ (scn.items.take b).drop (epIdx scn.items + 1) := by
      have := (List.take_append_drop (epIdx scn.items + 1 - a) ((scn.items.take b).drop a)).symm
      rw [List.drop_drop] at this
      have e : a + (epIdx scn.items + 1 - a) = epIdx scn.items + 1 := by omega
      rw [e] at this
      exact this
    rw [hsplit, msgFrom_append, List.map_append]
    have hl1 : (((scn.items.take b).drop a).take (epIdx scn.items + 1 - a)).length = epIdx scn.items + 1 - a := by
      simp [List.length_take, List.length_drop]; omega
    rw [msgFrom_before _ _ _ (by rw [hl1]; omega), List.map_nil, List.nil_append, hl1]
    have e2 : a + (epIdx scn.items + 1 - a) = epIdx scn.items + 1 := by omega
    rw [e2, msgFrom_after _ _ _ (Nat.lt_succ_self _)]
    exact pump_decode scn hl _ (fun it hit => List.mem_of_mem_take (List.mem_of_mem_drop hit))

/-- in a labelled scenario every new message item is good -/
theorem newMsgs_good (scn : Scn) (hl : scn.labelled) (a b : Nat) : ∀ ip ∈ newMsgs scn a b, goodPayload ip.2 = true := by
  unfold newMsgs
  generalize hL : (scn.items.take b).drop a = L
  have hsub : ∀ it ∈ L, it ∈ scn.items := by
    intro it hit; rw [← hL] at hit; exact List.mem_of_mem_take (List.mem_of_mem_drop hit)
  clear hL
  induction L generalizing a with
  | nil => simp [msgFrom]
  | cons it t ih =>
    intro ip hip
    simp only [msgFrom, List.mem_append] at hip
    rcases hip with hip | hip
    · split at hip
      · rename_i hc
        simp only [Bool.and_eq_true, decide_eq_true_eq] at hc
        simp only [List.mem_cons, List.not_mem_nil, or_false] at hip
        subst hip
        exact (hl it (hsub it (by simp)) hc.2).2
      · simp at hip
    · exact ih (a + 1) (fun x hx => hsub x (by simp [hx])) ip hip

end SseClient
