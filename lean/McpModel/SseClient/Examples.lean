import McpModel.SseClient.Bridge
/-!
# `sseclient`: the hypotheses of the bridge are satisfiable, and what happens without them
-/
namespace SseClient
open Wire Generated.Wire

/-- `event: endpoint` / `data: /m` (the data line ended by CRLF) -/
def exEp : Item := { fe := { lines := [⟨sse_eventKey, [32], epName, .lf⟩, ⟨sse_dataKey, [32], [47, 109], .crlf⟩] }, payload := .none, isEp := true }
/-- an event of another type with data: not a message -/
def exPing : Item := { fe := { lines := [⟨sse_eventKey, [32], [112], .lf⟩, ⟨sse_dataKey, [32], [107], .lf⟩] }, payload := .junk }
/-- `retry: 3` alone: no data, not dispatched -/
def exRetry : Item := { fe := { lines := [⟨sse_retryKey, [32], [51], .lf⟩] }, payload := .none }
/-- the initialize response as an UNNAMED event, its blank line ended by CRLF -/
def exR0 : Item := { fe := { lines := [⟨sse_dataKey, [], [123, 125], .lf⟩], endEol := .crlf }, payload := .resp 0 true }
/-- a server request; the `event: message` line AFTER the data line, a comment in between -/
def exQ : Item := { fe := { lines := [⟨sse_dataKey, [32], [113], .lf⟩, ⟨[], [], [32, 107], .lf⟩, ⟨sse_eventKey, [9], msgName, .lf⟩] }, payload := .req "i7" .ping }
/-- the response to call 1, data in two lines -/
def exR1 : Item := { fe := { lines := [⟨sse_dataKey, [32], [91], .lf⟩, ⟨sse_dataKey, [32], [93], .crlf⟩] }, payload := .resp 1 true }

def exScn : Scn := { base := [104, 58, 47, 47, 97, 47, 115], items := [exEp, exPing, exRetry, exR0, exQ, exR1] }   -- h://a/s

theorem exScn_wf : exScn.wf := by
  intro it hit l hl
  have h : (exScn.items.all (fun it => it.fe.lines.all wfFLine)) = true := by decide
  rw [List.all_eq_true] at h
  have h2 := h it hit
  rw [List.all_eq_true] at h2
  exact Wire.L.wfFLine_spec l (h2 l hl)

theorem exScn_labelled : exScn.labelled := by
  intro it hit hm
  simp only [exScn, List.mem_cons, List.not_mem_nil, or_false] at hit
  rcases hit with rfl | rfl | rfl | rfl | rfl | rfl
  · exact absurd hm (by decide)
  · exact absurd hm (by decide)
  · exact absurd hm (by decide)
  · exact ⟨by decide, by decide⟩
  · exact ⟨by decide, by decide⟩
  · exact ⟨by decide, by decide⟩

/-- **exScn_healthy**: the hypotheses of `monitor_accepts_model_partial` are satisfiable — by a scenario with
an event of another type, an event without data, unnamed and named message events, a comment, multi-line
data and mixed line ends. -/
theorem exScn_healthy : Healthy exScn :=
  { wf := exScn_wf
    get := rfl
    posts := by
      intro p
      have h : exScn.pst = [] := rfl
      simp only [Scn.postOk, h, List.find?_nil, Option.map_none, Option.getD_none]
      decide
    ep := by decide
    labelled := exScn_labelled }

def exOps : List Op := [.feed 30 [30], .feed 40 [7, 33], .call 1 true, .feed 200 [200], .fin]

example : opsOK [] exOps = true := by decide

/-- the bridge theorem applied -/
example : runMon exScn {} ((Op.connect :: exOps).zip (run exScn repaired {} (Op.connect :: exOps))) = none :=
  monitor_accepts_model_partial exScn exScn_healthy exOps (by decide)

/-- … and what the model does on that case: both calls complete, the request is answered, nothing for the
`ping` and `retry` events (non-vacuity of the run) -/
example : (run exScn repaired {} (Op.connect :: exOps)).flatten.contains (.done 1 (.res (some 1))) = true ∧
    (run exScn repaired {} (Op.connect :: exOps)).flatten.contains (.post (.resp "i7" none)) = true ∧
    (run exScn repaired {} (Op.connect :: exOps)).flatten.contains .connOk = true := by decide

/-- why the pump's filter is part of the tie: on the same case the filter before F41's repair tears the
session down at the `ping` event, and the monitor says so (a clause is raised on the AS-BUILT model) -/
example : (runMon exScn {} ((Op.connect :: exOps).zip (run exScn asBuilt {} (Op.connect :: exOps)))).isSome = true := by decide

/-- … and the seeded change C01-m11 / C02-m11 (only NAMED message events pass) leaves the unnamed initialize
response unanswered: `c01Lost 0` -/
example : runMon exScn {} ((Op.connect :: exOps).zip (run exScn seededM11 {} (Op.connect :: exOps))) = some (.c01Lost 0 .plain true) := by
  decide

/-- **bare_cr_is_not_a_line_end** (a limit, not a finding): WHATWG text/event-stream also allows a bare CR as line
end; `bufio.Reader.ReadBytes('\n')` splits at LF only, so a stream without any LF never yields a line, whatever it
contains: the client waits (Connect does not return). Outside the quantifier here as in engine `wire`
(`Wire/Sse.lean`: "a bare CR as a line end is outside"); no SDK or common server writes such streams. -/
theorem bare_cr_is_not_a_line_end (bs : Bytes) (h : LF ∉ bs) : scanFed bs = ([], false) := by
  simp [scanFed, splitLines_noLF bs h]

end SseClient
