import McpModel.Base.Proto
import McpModel.Preflight.Model
/-!
Driver for E8 Preflight (C12).  Replays every harness record on the model (`Preflight.verdict` and the helper
functions) and evaluates the C12 monitors on the IMPLEMENTATION's observation:

* `dispatch_sound`      — a request answered 200/202 satisfies every documented precondition;
* `rejected ⇒ untouched` — any other status: no middleware / handler saw a message (`R=0 H=0`);
* `violation_status`    — a refusal carries a status/code mandated by one of the violated preconditions, and a
                          request violating nothing is not refused (F6 has its own clause);
* `client_server_agree` — what the SDK client generates for valid arguments is accepted, and the handler sees the
                          arguments that were sent;
* `decode_encode_header_value`, `primitiveEqual_refl_on_safe_ints`, `accepts_table` on the helper records.

The monitor has its own copies of the specification constants (2^53−1, the media types, the codes).
Base64 is instantiated with a concrete `StdEncoding` (padding required, CR/LF ignored, non-strict trailing bits).
-/
namespace Preflight
open Proto

/-! ### concrete base64 (Go `base64.StdEncoding`) -/

def b64Alphabet : Array Nat :=
  "ABCDEFGHIJKLMNOPQRSTUVWXYZabcdefghijklmnopqrstuvwxyz0123456789+/".toList.toArray.map Char.toNat

def b64Char (n : Nat) : Nat := b64Alphabet.getD n 61

def b64Val (c : Nat) : Option Nat :=
  if 65 ≤ c && c ≤ 90 then some (c - 65)
  else if 97 ≤ c && c ≤ 122 then some (c - 71)
  else if 48 ≤ c && c ≤ 57 then some (c + 4)
  else if c = 43 then some 62
  else if c = 47 then some 63
  else none

def b64Enc : Bytes → Bytes
  | a :: b :: c :: rest =>
    let n := a * 65536 + b * 256 + c
    b64Char (n / 262144) :: b64Char (n / 4096 % 64) :: b64Char (n / 64 % 64) :: b64Char (n % 64) :: b64Enc rest
  | [a, b] =>
    let n := a * 65536 + b * 256
    [b64Char (n / 262144), b64Char (n / 4096 % 64), b64Char (n / 64 % 64), 61]
  | [a] =>
    let n := a * 65536
    [b64Char (n / 262144), b64Char (n / 4096 % 64), 61, 61]
  | [] => []

def b64DecQ : Bytes → Option Bytes
  | [] => some []
  | [a, b, c, d] =>
    match b64Val a, b64Val b with
    | some x, some y =>
      if c = 61 then (if d = 61 then some [(x * 4 + y / 16) % 256] else none)
      else match b64Val c with
        | none => none
        | some z =>
          if d = 61 then some [(x * 4 + y / 16) % 256, (y * 16 + z / 4) % 256]
          else match b64Val d with
            | none => none
            | some w => some [(x * 4 + y / 16) % 256, (y * 16 + z / 4) % 256, (z * 64 + w) % 256]
    | _, _ => none
  | a :: b :: c :: d :: rest =>
    match b64Val a, b64Val b, b64Val c, b64Val d with
    | some x, some y, some z, some w =>
      (b64DecQ rest).map (fun t => (x * 4 + y / 16) % 256 :: (y * 16 + z / 4) % 256 :: (z * 64 + w) % 256 :: t)
    | _, _, _, _ => none
  | _ => none

def b64Dec (s : Bytes) : Option Bytes := b64DecQ (s.filter (fun c => c != 13 && c != 10))

def std64 : B64 := { enc := b64Enc, dec := b64Dec }

/-! ### token parsing -/

def hexB (s : String) : Option Bytes := (hexToBytes s).map (·.map UInt8.toNat)
def bHex (b : Bytes) : String := bytesToHex (b.map UInt8.ofNat)
def tail1 (s : String) : String := (s.drop 1).toString
def tailN (n : Nat) (s : String) : String := (s.drop n).toString

/-- JSON number text → `±mant·10^exp10`. -/
def parseNumLit (s : String) : Option NumLit :=
  let cs := s.toList.map Char.toNat
  let (neg, cs) := match cs with | 45 :: r => (true, r) | _ => (false, cs)
  let intPart := cs.takeWhile isDigit
  let rest := cs.dropWhile isDigit
  if intPart = [] then none else
  let (frac, rest) := match rest with
    | 46 :: r => (r.takeWhile isDigit, r.dropWhile isDigit)
    | _ => ([], rest)
  let digits := intPart ++ frac
  let mant : Nat := digits.foldl (fun (a : Nat) c => a * 10 + (c - 48)) 0
  match rest with
  | [] => some { neg := neg, mant := mant, exp10 := -(frac.length : Int) }
  | e :: r =>
    if e = 101 || e = 69 then
      let (es, r) : Int × List Nat := match r with | 43 :: t => (1, t) | 45 :: t => (-1, t) | _ => (1, r)
      if r = [] || !r.all isDigit then none
      else
        -- cap absurd exponents (the model decides them without computing the power)
        let ev : Nat := (r.take 8).foldl (fun (a : Nat) c => a * 10 + (c - 48)) 0
        let ev : Nat := if r.length > 8 then 100000000 else ev
        some { neg := neg, mant := mant, exp10 := es * (ev : Int) - (frac.length : Int) }
    else none

mutual
partial def parseJV : List String → Option (JV × List String)
  | [] => none
  | tok :: r =>
    if tok == "z" then some (.null, r)
    else if tok == "t" then some (.bool true, r)
    else if tok == "f" then some (.bool false, r)
    else if tok == "a" then some (.arr, r)
    else if tok == "o{" then (parseFields r []).map (fun (f, r) => (.obj f, r))
    else if tok.startsWith "n" then (parseNumLit (tail1 tok)).map (fun l => (.num l, r))
    else if tok.startsWith "s" then (hexB (tail1 tok)).map (fun b => (.str b, r))
    else none
partial def parseFields : List String → List (Bytes × JV) → Option (List (Bytes × JV) × List String)
  | [], _ => none
  | tok :: r, acc =>
    if tok == "}" then some (acc.reverse, r)
    else if tok.startsWith "k" then
      match hexB (tail1 tok), parseJV r with
      | some k, some (v, r') => parseFields r' ((k, v) :: acc)
      | _, _ => none
    else none
end

partial def parseProps : List String → Option (Props × List String)
  | "p{" :: r => go r
  | _ => none
where
  go : List String → Option (Props × List String)
    | [] => none
    | tok :: r =>
      if tok == "}" then some (.nil, r)
      else match r with
        | y :: x :: r2 =>
          if !(tok.startsWith "k" && y.startsWith "y" && x.startsWith "x") then none else
          let xh : Option XH :=
            if x == "x-" then some .absent else if x == "xz" then some .null else if x == "xo" then some .other
            else if x.startsWith "xs" then (hexB (tailN 2 x)).map XH.str else none
          match hexB (tail1 tok), hexB (tail1 y), xh, parseProps r2 with
          | some name, some ty, some xh, some (ch, r3) =>
            (go r3).map (fun (rest, r4) => (.cons name ty xh ch rest, r4))
          | _, _, _, _ => none
        | _ => none

/-- `params` as the harness tokenises the JSON text: `P-` absent, `Pz` null, `Px` another non-object,
`P o{ k<hex> <value> … }` the members in source order (repeated and case-variant names kept). -/
def parseParams : List String → Option (RawParams × List String)
  | "P-" :: r => some (.absent, r)
  | "Pz" :: r => some (.null, r)
  | "Px" :: r => some (.other, r)
  | "P" :: r =>
    match parseJV r with
    | some (.obj f, r') => some (.obj f, r')
    | _ => none
  | _ => none

/-- The arguments of a call: either already decoded (`AB` / `AM` / `AO <object>`, records of generator epochs ≤ 3) or the
whole `params` member list, which the model decodes itself (`decodeArgs`: exact member names). -/
def parseArgs : List String → Option (Args × List String)
  | "AB" :: r => some (.bad, r)
  | "AM" :: r => some (.missing, r)
  | "AO" :: r =>
    match parseJV r with
    | some (.obj f, r') => some (.obj f, r')
    | _ => none
  | toks => (parseParams toks).map (fun (p, r) => (decodeArgs p, r))

/-- More than one member of `params` is called exactly `arguments` (the shape of preflight-F31). -/
def repeatedArguments : RawParams → Bool
  | .obj ms => (ms.filter (fun kv => kv.1 == Generated.Preflight.memberArguments)).length ≥ 2
  | _ => false

def f31Clause : String :=
  "C12: preflight-F31 repeated `arguments` member: the Mcp-Param headers are validated against the MERGED members, the tool handler receives the last one"

/-- The arguments as the repaired code decodes them, as the pinned tree does (merging repeated members), and whether the
two can differ at all. -/
def parseArgsU (toks : List String) : Option (Args × Args × Bool × List String) :=
  match toks with
  | tok :: _ =>
    if tok.startsWith "P" then
      (parseParams toks).map (fun (p, r) => (decodeArgs p, decodeArgsUnrepaired p, repeatedArguments p, r))
    else (parseArgs toks).map (fun (a, r) => (a, a, false, r))
  | [] => none

def parsePrim (tok : String) : Option Prim :=
  if tok.startsWith "S" then (hexB (tail1 tok)).map Prim.str
  else if tok == "B1" then some (.bool true)
  else if tok == "B0" then some (.bool false)
  else if tok.startsWith "I" then (tail1 tok).toInt?.map Prim.int
  else none

def primTok : Option Prim → String
  | none => "nil"
  | some (.str s) => "S" ++ bHex s
  | some (.bool true) => "B1"
  | some (.bool false) => "B0"
  | some (.int n) => "I" ++ toString n

/-- `H{ k<hex>=v<hex> ... }` -/
def parseHdrs : List String → Option (ParamHdrs × List String)
  | "H{" :: r => go r []
  | _ => none
where
  go : List String → ParamHdrs → Option (ParamHdrs × List String)
    | [], _ => none
    | tok :: r, acc =>
      if tok == "}" then some (acc.reverse, r)
      else match tok.splitOn "=" with
        | [k, v] =>
          match hexB (tail1 k), hexB (tail1 v) with
          | some k, some v => go r ((k, v) :: acc)
          | _, _ => none
        | _ => none

def parseAccept : List String → Option (List Bytes × List String)
  | "ac{" :: r => go r []
  | _ => none
where
  go : List String → List Bytes → Option (List Bytes × List String)
    | [], _ => none
    | tok :: r, acc =>
      if tok == "}" then some (acc.reverse, r)
      else match hexB (tail1 tok) with
        | some v => go r (v :: acc)
        | none => none

def tf (b : Bool) : String := if b then "t" else "f"

def sortStrings (l : List String) : List String := l.mergeSort (fun a b => !(b < a))

def showHdrs (h : ParamHdrs) : String :=
  let items := sortStrings (h.map (fun e => "k" ++ bHex e.1 ++ "=v" ++ bHex e.2))
  if items = [] then "H{ }" else "H{ " ++ " ".intercalate items ++ " }"

def showBindings (bs : List Binding) : List String :=
  sortStrings (bs.map (fun b => ".".intercalate (b.path.map (fun p => "p" ++ bHex p)) ++ "=h" ++ bHex b.header))

def perrTok : PErr → String
  | .unexpected => "unexpected" | .missing => "missing" | .badBase64 => "badb64"
  | .notPrimitive => "notprim" | .mismatch => "mismatch"

/-! ### messages and requests -/

/-- A message as the harness describes it: the undecoded message for the model, and what the implementation's own
extractors returned for it (`extractName`, `extractRequestMeta`) — compared with the model's decoding by the monitor. -/
structure MsgIn where
  raw : RawMsg
  implNameOk : Bool
  implName : Bytes
  implMeta : Bytes

/-- `T{ t<hex> p{ … } t<hex> p{ … } }`: the server's tool table as far as the request can name it. -/
partial def parseTools : List String → List (Bytes × Props) → Option (List (Bytes × Props) × List String)
  | "}" :: r, acc => some (acc.reverse, r)
  | t :: r, acc =>
    if !t.startsWith "t" then none else
    match hexB (tail1 t), parseProps r with
    | some name, some (p, r') => parseTools r' ((name, p) :: acc)
    | _, _ => none
  | [], _ => none

partial def parseMsg : List String → Option (MsgIn × List String)
  | "m{" :: "r0" :: "}" :: r =>
    some ({ raw := { isReq := false, method := [], isCall := false, check := .ok, decodeOk := false, params := .absent, tools := [] },
            implNameOk := false, implName := [], implMeta := [] }, r)
  | "m{" :: "r1" :: c :: q :: m :: v :: n :: nm :: "T{" :: r =>
    let chk : Option CheckRes := if q == "qok" then some .ok else if q == "qnh" then some .notHandled else if q == "qinv" then some .invalid else none
    match chk, hexB (tail1 m), hexB (tail1 v), hexB (tail1 nm), parseTools r [] with
    | some chk, some m, some v, some nm, some (tools, r1) =>
      match parseParams r1 with
      | some (p, "}" :: r2) =>
        some ({ raw := { isReq := true, method := m, isCall := c == "c1", check := chk, decodeOk := n == "n1", params := p, tools := tools },
                implNameOk := n == "n1", implName := nm, implMeta := v }, r2)
      | _ => none
    | _, _, _, _, _ => none
  | _ => none

partial def parseMsgs : List String → List MsgIn → Option (List MsgIn)
  | [], acc => some acc.reverse
  | toks, acc =>
    match parseMsg toks with
    | some (m, r) => parseMsgs r (m :: acc)
    | none => none

def parseReq (toks : List String) : Option (Req × List MsgIn) :=
  match toks with
  | k :: pd :: la :: ll :: hl :: orj :: m :: ct :: rest =>
    match parseAccept rest with
    | some (acc, pv :: ss :: ns :: le :: lim :: len :: dl :: rf :: mm :: mn :: rest2) =>
      match parseHdrs rest2 with
      | some (hdrs, body) =>
        let kind : Option HKind := if k == "Ksl" then some .stateless else if k == "Ksf" then some .stateful else if k == "Ksse" then some .sse else none
        let meth : Option Meth := if m == "MG" then some .get else if m == "MP" then some .post else if m == "MD" then some .delete else if m == "MO" then some .other else none
        let sess : Option SessRef := if ss == "ssn" then some .none else if ss == "ssk" then some .known else if ss == "ssu" then some .unknown else none
        -- the gates see every message decoded from its member list (`RawMsg.decode`)
        let content : Option (Content × List MsgIn) := match body with
          | ["bM"] => some (.malformed, [])
          | "bS" :: r => (parseMsgs r []).map (fun l => (Content.msgs false (l.map (·.raw.decode)), l))
          | "bB" :: r => (parseMsgs r []).map (fun l => (Content.msgs true (l.map (·.raw.decode)), l))
          | _ => none
        -- `dl<n>`: the declared Content-Length, `dl-1` = none (chunked); `rf1`: the body reader ends with an error
        let declared : Option (Option Nat) :=
          if !dl.startsWith "dl" || !(rf == "rf0" || rf == "rf1") || !(ns == "ns0" || ns == "ns1") then none
          else match (tailN 2 dl).toInt? with
            | some d => if d < 0 then some none else some (some d.toNat)
            | none => none
        match declared with
        | none => none
        | some declared =>
        match kind, meth, sess, content, hexB (tailN 2 ct), hexB (tailN 2 pv), (tailN 3 lim).toInt?, (tailN 3 len).toNat?, hexB (tailN 2 mm), hexB (tailN 2 mn) with
        | some kind, some meth, some sess, some (content, ins), some ct, some pv, some lim, some len, some mm, some mn =>
          let req : Req :=
               { kind := kind, protectionDisabled := pd == "pd1", hasLocalAddr := la == "la1", listenerLoopback := ll == "ll1",
                 hostLoopback := hl == "hl1", originRejects := orj == "or1", method := meth, baseMedia := ct, accept := acc,
                 version := pv, sess := sess, noSessionIds := ns == "ns1", lastEventId := le == "le1", limit := lim, bodyLen := len,
                 declared := declared, readFails := rf == "rf1", content := content,
                 mcpMethod := mm, mcpName := mn, paramHdrs := hdrs }
          some (req, ins)
        | _, _, _, _, _, _, _, _, _, _ => none
      | none => none
    | _ => none
  | _ => none

/-! ### the C12 monitor for whole requests (specification constants are literal here) -/

def specMaxSafe : Int := 9007199254740991
def specJson : Bytes := "application/json".toUTF8.toList.map UInt8.toNat
def spec20260728 : Bytes := "2026-07-28".toUTF8.toList.map UInt8.toNat
def spec20250618 : Bytes := "2025-06-18".toUTF8.toList.map UInt8.toNat
def specSupported : List Bytes :=
  ["2026-07-28", "2025-11-25", "2025-06-18", "2025-03-26", "2024-11-05"].map (fun s => s.toUTF8.toList.map UInt8.toNat)
def specNamed : List Bytes := ["tools/call", "resources/read", "prompts/get"].map (fun s => s.toUTF8.toList.map UInt8.toNat)
def specToolsCall : Bytes := "tools/call".toUTF8.toList.map UInt8.toNat
def specDiscover : Bytes := "server/discover".toUTF8.toList.map UInt8.toNat
def specJsonTokens : List (List Nat) := ["application/json", "application/*", "*/*"].map (fun s => s.toList.map Char.toNat)
def specStreamTokens : List (List Nat) := ["text/event-stream", "text/*", "*/*"].map (fun s => s.toList.map Char.toNat)

def specAccepts (values : List Bytes) : Bool × Bool :=
  let toks := acceptTokens values
  (toks.any specJsonTokens.contains, toks.any specStreamTokens.contains)

/-- One `Mcp-Param-*` binding mirrors the body (the documented requirement): absent/null argument ⇒ no header;
otherwise the argument is a string, a boolean or an integer within ±(2^53−1) and the (decoded) header equals it;
the empty string may travel as an empty/absent header. -/
def bindingMirrors (a : Args) (h : ParamHdrs) (b : Binding) : Bool :=
  let hv := h.get b.header
  match a.lookup b.path with
  | none => hv == []
  | some .null => hv == []
  | some v =>
    match unmarshalPrimitive v with
    | none => false
    | some p =>
      let safe := match p with | .int n => -specMaxSafe ≤ n && n ≤ specMaxSafe | _ => true
      safe && (if hv == [] then p == .str [] else
        match decodeHeaderValue std64 hv with
        | none => false
        | some d => primitiveEqual d p)

/-- Diagnosis for the name clause: the header equals the value of a member whose name differs from the identifying
member's only in case (a member the case-sensitive dispatcher ignores). -/
def decoyNote (r : Req) (ins : List MsgIn) : String :=
  match ins with
  | [mi] =>
    (match nameMemberOf mi.raw.method, mi.raw.params with
     | some key, .obj ms =>
       (match ms.find? (fun kv => kv.1 != key && lowerBytes kv.1 == lowerBytes key && (match kv.2 with | .str s => s == r.mcpName | _ => false)) with
        | some kv => s!"; Mcp-Name equals the member {bHex kv.1}, whose name differs in case and which the dispatcher ignores"
        | none => "")
     | _, _ => "")
  | _ => ""

/-- Names of the documented preconditions of a message-carrying POST that `r` violates, each with the answers the
code mandates for it (status, optional JSON-RPC code). Declarative: no ordering is implied. -/
def violations (r : Req) (ins : List MsgIn := []) : List (String × List (Nat × Option Int)) :=
  let v (c : Bool) (name : String) (ans : List (Nat × Option Int)) : List (String × List (Nat × Option Int)) :=
    if c then [(name, ans)] else []
  let pv := if r.version = [] then "2025-03-26".toUTF8.toList.map UInt8.toNat else r.version
  let newProto := bLe spec20260728 pv
  let msgs : List Msg := match r.content with | .msgs _ l => l | .malformed => []
  let isBatch := match r.content with | .msgs b _ => b | .malformed => false
  let reqs := msgs.filter (·.isReq)
  match r.kind with
  | .sse =>
    v (!r.protectionDisabled && r.hasLocalAddr && r.listenerLoopback && !r.hostLoopback) "loopback listener with non-loopback Host" [(403, none)] ++
    v (r.method != .post) "method not POST" [(405, none)] ++
    v (r.baseMedia != specJson) "Content-Type not application/json" [(415, none)] ++
    v (r.sess == .none) "no session id" [(400, none)] ++
    v (r.sess == .unknown) "unknown session" [(404, none)] ++
    v r.readFails "request body not delivered completely" [(400, none)] ++
    v (match r.content with | .msgs false [_] => false | _ => true) "body is not one JSON-RPC message" [(400, none)] ++
    v (reqs.any (fun m => m.check != .ok)) "checkRequest failed" [(400, none)]
  | _ =>
    let stateless := r.kind == .stateless
    let acc := specAccepts r.accept
    v (!r.protectionDisabled && r.hasLocalAddr && r.listenerLoopback && !r.hostLoopback) "loopback listener with non-loopback Host" [(403, none)] ++
    v r.originRejects "cross-origin request" [(403, none)] ++
    v (r.version != [] && !specSupported.contains r.version && bLt r.version spec20260728) "unsupported Mcp-Protocol-Version" [(400, none)] ++
    v (r.method != .post) "method not POST" [(405, none), (400, none), (404, none)] ++
    v (r.baseMedia != specJson) "Content-Type not application/json" [(415, none)] ++
    v (!(acc.1 && acc.2)) "Accept does not admit both response types" [(400, none)] ++
    v (!stateless && r.sess == .unknown) "unknown session" [(404, none)] ++
    v r.lastEventId "Last-Event-ID on POST" [(400, none)] ++
    (let lim : Int := if r.limit = 0 then (4194304 : Int) else r.limit
     -- the limit bounds what is delivered, with or without a declared length; declaring more than the limit is over it too
     v (lim > 0 && ((r.bodyLen : Int) > lim || (match r.declared with | some d => (d : Int) > lim | none => false)))
       (match r.declared with
        | some _ => "body larger than the limit"
        | none => "body larger than the limit (no declared length: chunked upload)") [(413, none)]) ++
    v r.readFails "request body not delivered completely" [(400, none)] ++
    v (r.bodyLen == 0) "empty body" [(400, none)] ++
    v (match r.content with | .malformed => true | _ => false) "malformed body" [(400, none)] ++
    v (isBatch && bLe spec20250618 pv) "batch under >= 2025-06-18" [(400, none)] ++
    v (reqs.any (fun m => m.check != .ok)) "checkRequest failed" [(400, none), (404, some (-32601))] ++
    -- the per-request-metadata rules bind every request of the body, whether the body is one message or a JSON array
    (let inArr := if isBatch then s!" (request inside a JSON array body of {msgs.length})" else ""
     v (reqs.any (fun m => (newProto || m.metaVersion != []) && !stateless && m.method != specDiscover)) ("new protocol on a stateful server" ++ inArr) [(400, some (-32022))] ++
     v (reqs.any (fun m => (newProto || m.metaVersion != []) && r.version == [])) ("version header missing for per-request metadata" ++ inArr) [(400, some (-32020))] ++
     v (reqs.any (fun m => (newProto || m.metaVersion != []) && m.metaVersion == [])) ("_meta protocolVersion missing" ++ inArr) [(400, some (-32602))] ++
     v (reqs.any (fun m => (newProto || m.metaVersion != []) && r.version != [] && m.metaVersion != [] && r.version != m.metaVersion)) ("version header differs from _meta" ++ inArr) [(400, some (-32020))]) ++
    (match isBatch, msgs with
     | false, [m] =>
       if !(newProto && m.isReq) then [] else
       let named := specNamed.contains m.method
       v (r.mcpMethod != m.method) "Mcp-Method differs from the method" [(400, some (-32020))] ++
       -- the name is the value of the params member called exactly `name` / `uri`: the one the dispatcher decodes and runs
       v (named && (!m.nameOk || r.mcpName == [] || r.mcpName != m.name))
         ("Mcp-Name differs from the name that is dispatched (the params member called exactly `name` / `uri`)" ++ decoyNote r ins)
         [(400, some (-32020))] ++
       (match m.tool with
        | some p =>
          if m.method == specToolsCall && m.nameOk && (match m.args with | .bad => false | _ => true) then
            v ((bindings p).any (fun b => !bindingMirrors m.args r.paramHdrs b)) "Mcp-Param header differs from the argument" [(400, some (-32020))]
          else []
        | none => [])
     | _, _ => [])

/-- F6 shape: the request violates nothing, and some bound argument is the empty string travelling as an empty header. -/
def f6Shape (r : Req) : Bool :=
  match r.content with
  | .msgs false [m] =>
    (match m.tool with
     | some p => (bindings p).any (fun b => r.paramHdrs.get b.header == [] && (match m.args.lookup b.path with
        | some v => unmarshalPrimitive v == some (.str []) | none => false))
     | none => false)
  | _ => false

/-- Every bound, present, non-null argument is a string, a boolean or an integer within ±(2^53−1). -/
def argsValidB (p : Props) (a : Args) : Bool :=
  (bindings p).all (fun b => match a.lookup b.path with
    | none => true | some .null => true
    | some v => match unmarshalPrimitive v with
      | some (.int n) => -specMaxSafe ≤ n && n ≤ specMaxSafe
      | some _ => true
      | none => false)

/-- Number of properties of the tree annotated with a non-empty string (read off the tree, no paths involved). -/
def countBound : Props → Nat
  | .nil => 0
  | .cons _ _ xh children rest =>
    (match xh with | .str s => if s = [] then 0 else 1 | _ => 0) + countBound children + countBound rest

def showPath (π : List Bytes) : String := ".".intercalate (π.map bHex)

/-- `p<hex>.p<hex>=h<hex>` items as printed by the harness for `extractParamHeaderAnnotations`. -/
def parseImplBindings (items : List String) : Option (List Binding) :=
  items.mapM (fun it =>
    match it.splitOn "=" with
    | [ps, h] =>
      if !h.startsWith "h" then none else
      match (ps.splitOn ".").mapM (fun seg => if seg.startsWith "p" then hexB (tail1 seg) else none), hexB (tail1 h) with
      | some path, some hd => some { path := path, header := hd }
      | _, _ => none
    | _ => none)

structure HttpObs where
  status : Nat
  code : Option Int
  allow : Option Bytes
  reached : Nat
  handled : Nat
  disp : Nat
  names : String        -- `X=`: the names (hex, comma-separated, sorted) the tool / prompt / resource handlers were run for, `-` none

def parseHttpObs (s : String) : Option HttpObs :=
  match words s with
  | [st, e, a, r, h, d, x] =>
    match (tailN 2 st).toNat?, (tailN 2 r).toNat?, (tailN 2 h).toNat?, (tailN 2 d).toNat? with
    | some st, some r, some h, some d =>
      let code := if e == "E=-" then none else (tailN 2 e).toInt?
      let allow := if a == "A=-" then none else hexB (tailN 2 a)
      if !x.startsWith "X=" then none else
      some { status := st, code := code, allow := allow, reached := r, handled := h, disp := d, names := tailN 2 x }
    | _, _, _, _ => none
  | _ => none

def optInt (c : Option Int) : String := match c with | some c => toString c | none => "-"

/-- The answers a dispatched call may still get from the session layer under >= 2026-07-28
(`extractErrorStatus`: SEP-2575 maps these JSON-RPC errors to an HTTP status). Not this property's business. -/
def lateErrors : List (Nat × Option Int) := [(404, some (-32601)), (400, some (-32602)), (400, some (-32022)), (400, some (-32021))]

def showOutcome (r : Req) (o : Outcome) (impl : Option HttpObs) : String :=
  match o with
  | .reject st code allow =>
    s!"S={st} E={optInt code} A={match allow with | some a => bHex a | none => "-"} R=0 H=0 D=0 X=-"
  | .dispatched calls =>
    -- what the session does with a dispatched message is not this property's business: the counters are echoed, and so
    -- is the status of a call under >= 2026-07-28 when it is one of the SEP-2575 error mappings
    match impl with
    | some ob =>
      -- but WHICH tool / prompt / resource runs is: when the single message of the body made one handler run, it ran
      -- for the name the model decoded from the member list (exact member name; the dispatcher's decoder)
      let x := match soleMsg r with
        | some m => if ob.handled == 1 && m.isReq then bHex m.name else ob.names
        | none => ob.names
      if !calls then s!"S=202 E=- A=- R={ob.reached} H={ob.handled} D=1 X={x}"
      else if bLe spec20260728 r.version && lateErrors.contains (ob.status, ob.code) then
        s!"S={ob.status} E={optInt ob.code} A=- R={ob.reached} H={ob.handled} D=1 X={x}"
      else s!"S=200 E=- A=- R={ob.reached} H={ob.handled} D=1 X={x}"
    | none => s!"S={if calls then 200 else 202} E=- A=- R=0 H=0 D=1 X=-"
  | .served st =>
    let (rr, h, x) := match impl with | some o => (o.reached, o.handled, o.names) | none => (0, 0, "-")
    s!"S={st} E=- A=- R={rr} H={h} D=0 X={x}"

/-- The mirror seen from the handler's side: under >= 2026-07-28 a tool / prompt / resource handler ran for a name other
than the one `Mcp-Name` announced. -/
def handlerNameMonitor (r : Req) (o : HttpObs) : Option String :=
  match r.kind, r.content with
  | .sse, _ => none
  | _, .msgs false [m] =>
    if o.disp == 1 && o.handled == 1 && m.isReq && bLe spec20260728 r.version && specNamed.contains m.method &&
        o.names != "-" && o.names != bHex r.mcpName then
      some s!"C12: name_mirror: the handler ran for {o.names} although Mcp-Name announced {bHex r.mcpName}"
    else none
  | _, _ => none

def httpMonitor (r : Req) (o : HttpObs) (ins : List MsgIn := []) : Option String :=
  let viol := violations r ins
  let carries := r.method == .post
  let dispatched := o.disp == 1
  if !dispatched && (o.reached != 0 || o.handled != 0) then
    some s!"C12: refused request (status {o.status}) reached a middleware/handler"
  else if !carries then none
  else if dispatched then
    match viol with
    | (name, _) :: _ => some s!"C12: dispatch_sound: dispatched although: {name}"
    | [] => none
  else
    match viol with
    | [] =>
      if o.code == some (-32020) && f6Shape r then
        some "C12: F6 empty-string argument: the server refuses (-32020) the empty Mcp-Param header the SDK client sends"
      else some s!"C12: violation_status: request meeting every precondition refused with {o.status}/{optInt o.code}"
    | _ =>
      if viol.any (fun p => p.2.contains (o.status, o.code)) then none
      else if o.status == 400 && o.code == none && r.kind == .stateful && r.noSessionIds && r.sess == .none &&
          viol.any (fun p => p.2 == [(413, none)]) then
        some "C12: preflight-F30 oversize body on a stateful handler without session ids: answered 400 instead of 413"
      else some s!"C12: violation_status: status {o.status}/{optInt o.code} is not mandated by any violated precondition"

/-! ### the engine -/

def bad : Verdict := { model := "bad-op" }

def stepOp (toks : List String) (impl : String) : Verdict :=
  match toks with
  | "accepts" :: r =>
    match parseAccept r with
    | some (vs, []) =>
      let m := streamableAccepts vs
      let spec := specAccepts vs
      let model := tf m.1 ++ " " ++ tf m.2
      let viol := if impl == tf spec.1 ++ " " ++ tf spec.2 then none
        else some "C12: accepts_table: Accept flags differ from the token table (application/json|application/*|*/* ; text/event-stream|text/*|*/*)"
      { model := model, violated := viol }
    | _ => bad
  | ["rt", p] =>
    match parsePrim p with
    | some v =>
      let s := primToString v
      let e := encodeHeaderValue std64 v
      let model := match decodeHeaderValue std64 e with
        | some d => "r" ++ tf (requiresBase64 s) ++ " e" ++ bHex e ++ " d" ++ bHex d
        | none => "e" ++ bHex e ++ " bad"
      let viol := match words impl with
        | [_, _, d] => if d == "d" ++ bHex s then none else some "C12: decode_encode_header_value: decode(encode v) differs from the value's string"
        | _ => some "C12: decode_encode_header_value: the encoded value does not decode"
      { model := model, violated := viol }
    | none => bad
  | ["dec", h] =>
    match hexB (tail1 h) with
    | some h => { model := match decodeHeaderValue std64 h with | some d => "d" ++ bHex d | none => "bad" }
    | none => bad
  | "unprim" :: r =>
    match parseJV r with
    | some (v, []) => { model := primTok (unmarshalPrimitive v) }
    | _ => bad
  | ["peq", h, p] =>
    match hexB (tail1 h), parsePrim p with
    | some h, some v =>
      -- self-check of the model's shortcut for plain decimal integers
      let consistent := match decInt? h with
        | some _ => parseFloat h == parseFloatGeneral h
        | none => true
      let model := if consistent then tf (primitiveEqual h v) else "model-inconsistent"
      let viol := match v with
        | .int n =>
          if h == intToDec n && -specMaxSafe ≤ n && n ≤ specMaxSafe && impl != "t" then
            some "C12: primitiveEqual_refl_on_safe_ints: an integer within ±(2^53−1) does not equal its own decimal form"
          else none
        | _ => if h == primToString v && impl != "t" then some "C12: primitiveEqual: a value does not equal its own string form" else none
      { model := model, violated := viol }
    | _, _ => bad
  | "annot" :: r =>
    match parseProps r with
    | some (p, []) =>
      let v := if validateAnnotations p then "ok" else "err"
      -- monitor (binding_path_resolves / bindings_complete / binding_paths_nodup): read from the root of the schema,
      -- every binding the implementation reports designates a property annotated with exactly that header, no path is
      -- reported twice, and there are as many bindings as annotated properties
      let viol : Option String :=
        if !namesDistinctB p then none else
        match parseImplBindings ((words impl).drop 1) with
        | none => some "C12: bindings: unreadable binding list"
        | some bs =>
          match bs.find? (fun b => !(match propAt p b.path with
              | some (_, .str h) => h == b.header && h != []
              | _ => false)) with
          | some b => some s!"C12: bindings: the binding for header {bHex b.header} has path {showPath b.path}, which does not designate the property annotated with that header (depth {b.path.length})"
          | none =>
            if !nodupB (bs.map (fun b => ".".intercalate (b.path.map bHex) |>.toUTF8.toList.map UInt8.toNat)) then
              some "C12: bindings: two bindings share one path (sibling annotations alias)"
            else if bs.length != countBound p then
              some s!"C12: bindings: {bs.length} bindings for {countBound p} annotated properties"
            else none
      { model := " ".intercalate (v :: showBindings (bindings p)), violated := viol }
    | _ => bad
  | "gen" :: r =>
    match parseProps r with
    | some (p, r1) =>
      match parseArgs r1 with
      | some (a, []) =>
        -- monitor (client side of the mirror): for valid arguments every binding's header mirrors the argument at the
        -- binding's own path, and no other Mcp-Param header is produced
        let viol : Option String :=
          if !(namesDistinctB p && validateAnnotations p && argsValidB p a) then none else
          match parseHdrs (words impl) with
          | some (h, []) =>
            (match (bindings p).find? (fun b => !bindingMirrors a h b) with
             | some b => some s!"C12: client_server_agree: generateParamHeaders: Mcp-Param-{bHex b.header} does not mirror the argument at {showPath b.path} (depth {b.path.length})"
             | none =>
               if h.any (fun e => !(bindings p).any (fun b => lowerBytes b.header == e.1)) then
                 some "C12: client_server_agree: generateParamHeaders produces a header that no annotation binds"
               else none)
          | _ => some "C12: client_server_agree: generateParamHeaders output unreadable"
        { model := showHdrs (generateParamHeaders std64 p a), violated := viol }
      | _ => bad
    | none => bad
  | "vph" :: r =>
    match parseProps r with
    | some (p, r1) =>
      match parseArgsU r1 with
      | some (a, au, rep, r2) =>
        match parseHdrs r2 with
        | some (h, []) =>
          let show_ (a : Args) : String := match validateParamHeaders std64 p a h with
            | none => "ok"
            | some e => if (bindings p).length == 1 then "err " ++ perrTok e else "err"
          let model := show_ a
          -- monitor: the function accepts iff every binding mirrors the body
          let spec := match a with | .bad => true | _ => (bindings p).all (bindingMirrors a h)
          let viol := if rep && impl != model && impl == show_ au then some f31Clause
            else if (impl == "ok") == spec then none
            else if impl != "ok" && f6Like p a h then some "C12: F6 empty-string argument: validateParamHeaders refuses the empty Mcp-Param header the SDK client sends"
            else if impl == "ok" then
              (match (bindings p).find? (fun b => !bindingMirrors a h b) with
               | some b => some s!"C12: dispatch_sound: validateParamHeaders accepts although Mcp-Param-{bHex b.header} differs from the argument at {showPath b.path} (depth {b.path.length})"
               | none => some "C12: dispatch_sound: validateParamHeaders accepts headers that do not mirror the arguments")
            else some "C12: violation_status: validateParamHeaders refuses headers that mirror the arguments"
          { model := model, violated := viol }
        | _ => bad
      | none => bad
    | none => bad
  | "params" :: m :: r =>
    -- the implementation's extractors (`extractName`, `extractRequestMeta`) on a params object of a foreign peer against the
    -- model's decoding of the member list: exact member names, a repeated member overwrites (`_meta`: merges)
    match hexB (tail1 m), parseParams r with
    | some method, some (p, []) =>
      let dn := decodeName method p
      let mv := decodeMetaVersion p
      -- whether the members other than the identifying one decode is the implementation's word (`n`)
      let implOk := (words impl).head? == some "n1"
      let ok := implOk && dn.isSome
      let model := s!"n{if ok then 1 else 0} N{if ok then bHex (dn.getD []) else ""} V{bHex mv}"
      let viol : Option String := match words impl with
        | [_, n, v] =>
          if implOk && some (tail1 n) != dn.map bHex then
            some s!"C12: name_mirror_case_sensitive: extractName yields {tail1 n}; the params member called exactly {match nameMemberOf method with | some k => bHex k | none => "-"} (what the dispatcher decodes and runs) is {match dn with | some x => bHex x | none => "not a string"}"
          else if tail1 v != bHex mv then
            some s!"C12: meta_mirror_case_sensitive: extractRequestMeta yields protocol version {tail1 v}; the member called exactly _meta carries {bHex mv}"
          else none
        | _ => some "C12: name_mirror_case_sensitive: unreadable extractor output"
      { model := model, violated := viol }
    | _, _ => bad
  | "e2e" :: nk :: r =>
    match parseProps r with
    | some (p, r1) =>
      match parseArgs r1 with
      | some (a, []) =>
        let nameOk := nk == "n1"
        let hdrs := generateParamHeaders std64 p a
        let verdict := validateParamHeaders std64 p a hdrs
        -- `extractName` fails on both sides: no Mcp-Name is sent and the server answers -32020
        let model := if !nameOk then "rej -32020 handler=0" else match verdict with | none => "ok same" | some _ => "rej -32020 handler=0"
        -- client_server_agree: for valid arguments (every bound, present, non-null member primitive) the call goes through
        let valid := nameOk && argsValidB p a
        let viol :=
          if valid && impl != "ok same" then
            (if f6Like p a hdrs then some "C12: F6 empty-string argument: the SDK server refuses the SDK client's call (-32020 missing header)"
             else some "C12: client_server_agree: the SDK server refuses or alters a call the SDK client generated for valid arguments")
          else if !(impl.startsWith "ok") && !(impl.endsWith "handler=0") then some "C12: refused call reached the tool handler"
          else none
        { model := model, violated := viol }
      | _ => bad
    | none => bad
  | "http" :: r =>
    match parseReq r with
    | some (req, ins) =>
      let o := verdict std64 req
      let obs := parseHttpObs impl
      let viol := match obs with
        | some ob => (httpMonitor req ob ins).orElse (fun _ => handlerNameMonitor req ob)
        | none => some s!"C12: the handler did not answer ({impl})"
      -- preflight-F31: the violation is exactly what merging the repeated `arguments` members (pinned tree) produces
      let viol := match viol, ins with
        | some v, [mi] =>
          if repeatedArguments mi.raw.params then
            let reqU : Req := { req with content := match req.content with
              | .msgs b [m] => .msgs b [{ m with args := decodeArgsUnrepaired mi.raw.params }]
              | c => c }
            if showOutcome reqU (verdict std64 reqU) obs == impl then some f31Clause else some v
          else some v
        | v, _ => v
      { model := showOutcome req o obs, violated := viol }
    | none => bad
  | _ => bad
where
  f6Like (p : Props) (a : Args) (h : ParamHdrs) : Bool :=
    (bindings p).any (fun b => h.get b.header == [] && (match a.lookup b.path with
      | some v => unmarshalPrimitive v == some (.str []) | none => false)) &&
    (bindings p).all (bindingMirrors a h)

def engine : Engine Unit where
  init := ()
  step _ toks impl :=
    let toks := toks.filter (fun t => !t.startsWith "@")
    match toks with
    | ["reset"] => ((), { model := "ok" })
    | _ => ((), stepOp toks impl)

end Preflight

def main : IO Unit := Proto.run Preflight.engine
