import McpModel.Base.Proto
import McpModel.Preflight.Monitor
import McpModel.Preflight.Seq
/-!
Driver for E8 Preflight (C12): the STRING LAYER.  Replays every harness record on the model (`Preflight.verdict` and the
helper functions), parses the IMPLEMENTATION's observation into the typed observation of `Monitor.lean`, runs the typed
C12 monitor of the record's kind on it and renders the clause it reports:

* `dispatch_sound`      — a request answered 200/202 satisfies every documented precondition;
* `rejected ⇒ untouched` — any other status: no middleware / handler saw a message (`R=0 H=0`);
* `violation_status`    — a refusal carries a status/code mandated by one of the violated preconditions, and a
                          request violating nothing is not refused (F6 has its own clause);
* `client_server_agree` — what the SDK client generates for valid arguments is accepted, and the handler sees the
                          arguments that were sent;
* `decode_encode_header_value`, `primitiveEqual_refl_on_safe_ints`, `accepts_table` on the helper records;
* `client_server_agree` over time — records of kind `seq` (one client session: tools/list pages cached with their
  `ttlMs`, time passing, list_changed, tools re-registered, paginated listings): the only STATEFUL kind; the engine
  state is the model's `World` and the monitor's `SeqMon` (`Seq.lean`), reset by `seq cfg`.

What decides whether and which clause is violated is in `Monitor.lean` (bridged to the model by `Bridge.lean`, to the
property by `Sound.lean`).  Here: the token parser, the renderers of the model's observation (the equality test
`impl = model` is on these strings), the clause texts, the fall-back clauses for observations that cannot be read, and
the concrete base64 (Go `StdEncoding`: padding required, CR/LF ignored, non-strict trailing bits).
-/
namespace Preflight
open Proto

/-! ### concrete base64 (Go `base64.StdEncoding`) -/

def b64Alphabet : Array Nat :=
  "ABCDEFGHIJKLMNOPQRSTUVWXYZabcdefghijklmnopqrstuvwxyz0123456789+/".toList.toArray.map Char.toNat

def b64Char (n : Nat) : Nat := b64Alphabet.getD n 61

def b64Val (c : Nat) : Option Nat :=
  if 65 ≤ c && c ≤ 90 then some (c - 65)
  else if 97 ≤ c && c ≤ 122 then some (c - 71)
  else if 48 ≤ c && c ≤ 57 then some (c + 4)
  else if c = 43 then some 62
  else if c = 47 then some 63
  else none

def b64Enc : Bytes → Bytes
  | a :: b :: c :: rest =>
    let n := a * 65536 + b * 256 + c
    b64Char (n / 262144) :: b64Char (n / 4096 % 64) :: b64Char (n / 64 % 64) :: b64Char (n % 64) :: b64Enc rest
  | [a, b] =>
    let n := a * 65536 + b * 256
    [b64Char (n / 262144), b64Char (n / 4096 % 64), b64Char (n / 64 % 64), 61]
  | [a] =>
    let n := a * 65536
    [b64Char (n / 262144), b64Char (n / 4096 % 64), 61, 61]
  | [] => []

def b64DecQ : Bytes → Option Bytes
  | [] => some []
  | [a, b, c, d] =>
    match b64Val a, b64Val b with
    | some x, some y =>
      if c = 61 then (if d = 61 then some [(x * 4 + y / 16) % 256] else none)
      else match b64Val c with
        | none => none
        | some z =>
          if d = 61 then some [(x * 4 + y / 16) % 256, (y * 16 + z / 4) % 256]
          else match b64Val d with
            | none => none
            | some w => some [(x * 4 + y / 16) % 256, (y * 16 + z / 4) % 256, (z * 64 + w) % 256]
    | _, _ => none
  | a :: b :: c :: d :: rest =>
    match b64Val a, b64Val b, b64Val c, b64Val d with
    | some x, some y, some z, some w =>
      (b64DecQ rest).map (fun t => (x * 4 + y / 16) % 256 :: (y * 16 + z / 4) % 256 :: (z * 64 + w) % 256 :: t)
    | _, _, _, _ => none
  | _ => none

def b64Dec (s : Bytes) : Option Bytes := b64DecQ (s.filter (fun c => c != 13 && c != 10))

def std64 : B64 := { enc := b64Enc, dec := b64Dec }

/-! ### token parsing -/

def hexB (s : String) : Option Bytes := (hexToBytes s).map (·.map UInt8.toNat)
def bHex (b : Bytes) : String := bytesToHex (b.map UInt8.ofNat)
def tail1 (s : String) : String := (s.drop 1).toString
def tailN (n : Nat) (s : String) : String := (s.drop n).toString

/-- JSON number text → `±mant·10^exp10`. -/
def parseNumLit (s : String) : Option NumLit :=
  let cs := s.toList.map Char.toNat
  let (neg, cs) := match cs with | 45 :: r => (true, r) | _ => (false, cs)
  let intPart := cs.takeWhile isDigit
  let rest := cs.dropWhile isDigit
  if intPart = [] then none else
  let (frac, rest) := match rest with
    | 46 :: r => (r.takeWhile isDigit, r.dropWhile isDigit)
    | _ => ([], rest)
  let digits := intPart ++ frac
  let mant : Nat := digits.foldl (fun (a : Nat) c => a * 10 + (c - 48)) 0
  match rest with
  | [] => some { neg := neg, mant := mant, exp10 := -(frac.length : Int) }
  | e :: r =>
    if e = 101 || e = 69 then
      let (es, r) : Int × List Nat := match r with | 43 :: t => (1, t) | 45 :: t => (-1, t) | _ => (1, r)
      if r = [] || !r.all isDigit then none
      else
        -- cap absurd exponents (the model decides them without computing the power)
        let ev : Nat := (r.take 8).foldl (fun (a : Nat) c => a * 10 + (c - 48)) 0
        let ev : Nat := if r.length > 8 then 100000000 else ev
        some { neg := neg, mant := mant, exp10 := es * (ev : Int) - (frac.length : Int) }
    else none

mutual
partial def parseJV : List String → Option (JV × List String)
  | [] => none
  | tok :: r =>
    if tok == "z" then some (.null, r)
    else if tok == "t" then some (.bool true, r)
    else if tok == "f" then some (.bool false, r)
    else if tok == "a" then some (.arr, r)
    else if tok == "o{" then (parseFields r []).map (fun (f, r) => (.obj f, r))
    else if tok.startsWith "n" then (parseNumLit (tail1 tok)).map (fun l => (.num l, r))
    else if tok.startsWith "s" then (hexB (tail1 tok)).map (fun b => (.str b, r))
    else none
partial def parseFields : List String → List (Bytes × JV) → Option (List (Bytes × JV) × List String)
  | [], _ => none
  | tok :: r, acc =>
    if tok == "}" then some (acc.reverse, r)
    else if tok.startsWith "k" then
      match hexB (tail1 tok), parseJV r with
      | some k, some (v, r') => parseFields r' ((k, v) :: acc)
      | _, _ => none
    else none
end

partial def parseProps : List String → Option (Props × List String)
  | "p{" :: r => go r
  | _ => none
where
  go : List String → Option (Props × List String)
    | [] => none
    | tok :: r =>
      if tok == "}" then some (.nil, r)
      else match r with
        | y :: x :: r2 =>
          if !(tok.startsWith "k" && y.startsWith "y" && x.startsWith "x") then none else
          let xh : Option XH :=
            if x == "x-" then some .absent else if x == "xz" then some .null else if x == "xo" then some .other
            else if x.startsWith "xs" then (hexB (tailN 2 x)).map XH.str else none
          match hexB (tail1 tok), hexB (tail1 y), xh, parseProps r2 with
          | some name, some ty, some xh, some (ch, r3) =>
            (go r3).map (fun (rest, r4) => (.cons name ty xh ch rest, r4))
          | _, _, _, _ => none
        | _ => none

/-- `params` as the harness tokenises the JSON text: `P-` absent, `Pz` null, `Px` another non-object,
`P o{ k<hex> <value> … }` the members in source order (repeated and case-variant names kept). -/
def parseParams : List String → Option (RawParams × List String)
  | "P-" :: r => some (.absent, r)
  | "Pz" :: r => some (.null, r)
  | "Px" :: r => some (.other, r)
  | "P" :: r =>
    match parseJV r with
    | some (.obj f, r') => some (.obj f, r')
    | _ => none
  | _ => none

/-- The arguments of a call: either already decoded (`AB` / `AM` / `AO <object>`, records of generator epochs ≤ 3) or the
whole `params` member list, which the model decodes itself (`decodeArgs`: exact member names). -/
def parseArgs : List String → Option (Args × List String)
  | "AB" :: r => some (.bad, r)
  | "AM" :: r => some (.missing, r)
  | "AO" :: r =>
    match parseJV r with
    | some (.obj f, r') => some (.obj f, r')
    | _ => none
  | toks => (parseParams toks).map (fun (p, r) => (decodeArgs p, r))

def f31Clause : String :=
  "C12: preflight-F31 repeated `arguments` member: the Mcp-Param headers are validated against the MERGED members, the tool handler receives the last one"

/-- The arguments as the repaired code decodes them, as the pinned tree does (merging repeated members), and whether the
two can differ at all. -/
def parseArgsU (toks : List String) : Option (Args × Args × Bool × List String) :=
  match toks with
  | tok :: _ =>
    if tok.startsWith "P" then
      (parseParams toks).map (fun (p, r) => (decodeArgs p, decodeArgsUnrepaired p, repeatedArguments p, r))
    else (parseArgs toks).map (fun (a, r) => (a, a, false, r))
  | [] => none

def parsePrim (tok : String) : Option Prim :=
  if tok.startsWith "S" then (hexB (tail1 tok)).map Prim.str
  else if tok == "B1" then some (.bool true)
  else if tok == "B0" then some (.bool false)
  else if tok.startsWith "I" then (tail1 tok).toInt?.map Prim.int
  else none

def primTok : Option Prim → String
  | none => "nil"
  | some (.str s) => "S" ++ bHex s
  | some (.bool true) => "B1"
  | some (.bool false) => "B0"
  | some (.int n) => "I" ++ toString n

/-- `H{ k<hex>=v<hex> ... }` -/
def parseHdrs : List String → Option (ParamHdrs × List String)
  | "H{" :: r => go r []
  | _ => none
where
  go : List String → ParamHdrs → Option (ParamHdrs × List String)
    | [], _ => none
    | tok :: r, acc =>
      if tok == "}" then some (acc.reverse, r)
      else match tok.splitOn "=" with
        | [k, v] =>
          match hexB (tail1 k), hexB (tail1 v) with
          | some k, some v => go r ((k, v) :: acc)
          | _, _ => none
        | _ => none

def parseAccept : List String → Option (List Bytes × List String)
  | "ac{" :: r => go r []
  | _ => none
where
  go : List String → List Bytes → Option (List Bytes × List String)
    | [], _ => none
    | tok :: r, acc =>
      if tok == "}" then some (acc.reverse, r)
      else match hexB (tail1 tok) with
        | some v => go r (v :: acc)
        | none => none

def tf (b : Bool) : String := if b then "t" else "f"

def sortStrings (l : List String) : List String := l.mergeSort (fun a b => !(b < a))

def showHdrs (h : ParamHdrs) : String :=
  let items := sortStrings (h.map (fun e => "k" ++ bHex e.1 ++ "=v" ++ bHex e.2))
  if items = [] then "H{ }" else "H{ " ++ " ".intercalate items ++ " }"

def showBindings (bs : List Binding) : List String :=
  sortStrings (bs.map (fun b => ".".intercalate (b.path.map (fun p => "p" ++ bHex p)) ++ "=h" ++ bHex b.header))

def perrTok : PErr → String
  | .unexpected => "unexpected" | .missing => "missing" | .badBase64 => "badb64"
  | .notPrimitive => "notprim" | .mismatch => "mismatch"

/-! ### messages and requests -/

/-- `T{ t<hex> p{ … } t<hex> p{ … } }`: the server's tool table as far as the request can name it. -/
partial def parseTools : List String → List (Bytes × Props) → Option (List (Bytes × Props) × List String)
  | "}" :: r, acc => some (acc.reverse, r)
  | t :: r, acc =>
    if !t.startsWith "t" then none else
    match hexB (tail1 t), parseProps r with
    | some name, some (p, r') => parseTools r' ((name, p) :: acc)
    | _, _ => none
  | [], _ => none

partial def parseMsg : List String → Option (MsgIn × List String)
  | "m{" :: "r0" :: "}" :: r =>
    some ({ raw := { isReq := false, method := [], isCall := false, check := .ok, decodeOk := false, params := .absent, tools := [] },
            implNameOk := false, implName := [], implMeta := [] }, r)
  | "m{" :: "r1" :: c :: q :: m :: v :: n :: nm :: "T{" :: r =>
    let chk : Option CheckRes := if q == "qok" then some .ok else if q == "qnh" then some .notHandled else if q == "qinv" then some .invalid else none
    match chk, hexB (tail1 m), hexB (tail1 v), hexB (tail1 nm), parseTools r [] with
    | some chk, some m, some v, some nm, some (tools, r1) =>
      match parseParams r1 with
      | some (p, "}" :: r2) =>
        some ({ raw := { isReq := true, method := m, isCall := c == "c1", check := chk, decodeOk := n == "n1", params := p, tools := tools },
                implNameOk := n == "n1", implName := nm, implMeta := v }, r2)
      | _ => none
    | _, _, _, _, _ => none
  | _ => none

partial def parseMsgs : List String → List MsgIn → Option (List MsgIn)
  | [], acc => some acc.reverse
  | toks, acc =>
    match parseMsg toks with
    | some (m, r) => parseMsgs r (m :: acc)
    | none => none

def parseReq (toks : List String) : Option (Req × List MsgIn) :=
  match toks with
  | k :: pd :: la :: ll :: hl :: orj :: m :: ct :: rest =>
    match parseAccept rest with
    | some (acc, pv :: ss :: ns :: le :: lim :: len :: dl :: rf :: mm :: mn :: rest2) =>
      match parseHdrs rest2 with
      | some (hdrs, body) =>
        let kind : Option HKind := if k == "Ksl" then some .stateless else if k == "Ksf" then some .stateful else if k == "Ksse" then some .sse else none
        let meth : Option Meth := if m == "MG" then some .get else if m == "MP" then some .post else if m == "MD" then some .delete else if m == "MO" then some .other else none
        let sess : Option SessRef := if ss == "ssn" then some .none else if ss == "ssk" then some .known else if ss == "ssu" then some .unknown else none
        -- the gates see every message decoded from its member list (`RawMsg.decode`)
        let content : Option (Content × List MsgIn) := match body with
          | ["bM"] => some (.malformed, [])
          | "bS" :: r => (parseMsgs r []).map (fun l => (Content.msgs false (l.map (·.raw.decode)), l))
          | "bB" :: r => (parseMsgs r []).map (fun l => (Content.msgs true (l.map (·.raw.decode)), l))
          | _ => none
        -- `dl<n>`: the declared Content-Length, `dl-1` = none (chunked); `rf1`: the body reader ends with an error
        let declared : Option (Option Nat) :=
          if !dl.startsWith "dl" || !(rf == "rf0" || rf == "rf1") || !(ns == "ns0" || ns == "ns1") then none
          else match (tailN 2 dl).toInt? with
            | some d => if d < 0 then some none else some (some d.toNat)
            | none => none
        match declared with
        | none => none
        | some declared =>
        match kind, meth, sess, content, hexB (tailN 2 ct), hexB (tailN 2 pv), (tailN 3 lim).toInt?, (tailN 3 len).toNat?, hexB (tailN 2 mm), hexB (tailN 2 mn) with
        | some kind, some meth, some sess, some (content, ins), some ct, some pv, some lim, some len, some mm, some mn =>
          let req : Req :=
               { kind := kind, protectionDisabled := pd == "pd1", hasLocalAddr := la == "la1", listenerLoopback := ll == "ll1",
                 hostLoopback := hl == "hl1", originRejects := orj == "or1", method := meth, baseMedia := ct, accept := acc,
                 version := pv, sess := sess, noSessionIds := ns == "ns1", lastEventId := le == "le1", limit := lim, bodyLen := len,
                 declared := declared, readFails := rf == "rf1", content := content,
                 mcpMethod := mm, mcpName := mn, paramHdrs := hdrs }
          some (req, ins)
        | _, _, _, _, _, _, _, _, _, _ => none
      | none => none
    | _ => none
  | _ => none

/-! ### observations of the implementation: parsing and rendering -/

def showPath (π : List Bytes) : String := ".".intercalate (π.map bHex)

/-- `p<hex>.p<hex>=h<hex>` items as printed by the harness for `extractParamHeaderAnnotations`. -/
def parseImplBindings (items : List String) : Option (List Binding) :=
  items.mapM (fun it =>
    match it.splitOn "=" with
    | [ps, h] =>
      if !h.startsWith "h" then none else
      match (ps.splitOn ".").mapM (fun seg => if seg.startsWith "p" then hexB (tail1 seg) else none), hexB (tail1 h) with
      | some path, some hd => some { path := path, header := hd }
      | _, _ => none
    | _ => none)

/-- `X=`: the names (hex, comma-separated, sorted) the tool / prompt / resource handlers were run for, `-` none. -/
def parseNames (s : String) : Option (List Bytes) :=
  if s == "-" then some [] else (s.splitOn ",").mapM hexB

def showNames (l : List Bytes) : String :=
  if l.isEmpty then "-" else ",".intercalate (l.map bHex)

def parseHttpObs (s : String) : Option HttpObs :=
  match words s with
  | [st, e, a, r, h, d, x] =>
    match (tailN 2 st).toNat?, (tailN 2 r).toNat?, (tailN 2 h).toNat?, (tailN 2 d).toNat? with
    | some st, some r, some h, some d =>
      let code := if e == "E=-" then none else (tailN 2 e).toInt?
      let allow := if a == "A=-" then none else hexB (tailN 2 a)
      if !x.startsWith "X=" then none else
      (parseNames (tailN 2 x)).map (fun names =>
        { status := st, code := code, allow := allow, reached := r, handled := h, disp := d, names := names })
    | _, _, _, _ => none
  | _ => none

def optInt (c : Option Int) : String := match c with | some c => toString c | none => "-"

def showHttpObs (o : HttpObs) : String :=
  s!"S={o.status} E={optInt o.code} A={match o.allow with | some a => bHex a | none => "-"} R={o.reached} H={o.handled} D={o.disp} X={showNames o.names}"

/-- The implementation's observation when it cannot be read: nothing is echoed into the model's observation. -/
def blankObs : HttpObs := { status := 0, code := none, allow := none, reached := 0, handled := 0, disp := 0, names := [] }

def parseVphObs (s : String) : VphObs :=
  match words s with
  | ["ok"] => .ok
  | ["err"] => .err none
  | ["err", k] =>
    (match [PErr.unexpected, .missing, .badBase64, .notPrimitive, .mismatch].find? (fun e => perrTok e == k) with
     | some e => .err (some e)
     | none => .other)
  | _ => .other

def showVphObs : VphObs → String
  | .ok => "ok"
  | .err none => "err"
  | .err (some e) => "err " ++ perrTok e
  | .other => "?"

def parseE2eObs (s : String) : E2eObs :=
  if s == "ok same" then .okSame
  else if s.startsWith "ok" then .okOther
  else .notOk (s.endsWith "handler=0")

/-! ### clause texts -/

/-- Diagnosis for the name clause: the header equals the value of a member whose name differs from the identifying
member's only in case (a member the case-sensitive dispatcher ignores). -/
def decoyNote (r : Req) (ins : List MsgIn) : String :=
  match ins with
  | [mi] =>
    (match nameMemberOf mi.raw.method, mi.raw.params with
     | some key, .obj ms =>
       (match ms.find? (fun kv => kv.1 != key && lowerBytes kv.1 == lowerBytes key && (match kv.2 with | .str s => s == r.mcpName | _ => false)) with
        | some kv => s!"; Mcp-Name equals the member {bHex kv.1}, whose name differs in case and which the dispatcher ignores"
        | none => "")
     | _, _ => "")
  | _ => ""

/-- The name of a documented precondition, as the clauses print it. -/
def precondText (r : Req) (ins : List MsgIn) (p : Precond) : String :=
  let inArr := if reqIsBatch r then s!" (request inside a JSON array body of {(reqMsgs r).length})" else ""
  match p with
  | .host => "loopback listener with non-loopback Host"
  | .origin => "cross-origin request"
  | .version => "unsupported Mcp-Protocol-Version"
  | .method => "method not POST"
  | .media => "Content-Type not application/json"
  | .accept => "Accept does not admit both response types"
  | .session => "unknown session"
  | .lastEventId => "Last-Event-ID on POST"
  | .size =>
    (match r.declared with
     | some _ => "body larger than the limit"
     | none => "body larger than the limit (no declared length: chunked upload)")
  | .delivered => "request body not delivered completely"
  | .empty => "empty body"
  | .malformed => "malformed body"
  | .batch => "batch under >= 2025-06-18"
  | .check => "checkRequest failed"
  | .statefulNew => "new protocol on a stateful server" ++ inArr
  | .versionMissing => "version header missing for per-request metadata" ++ inArr
  | .metaMissing => "_meta protocolVersion missing" ++ inArr
  | .versionDiffers => "version header differs from _meta" ++ inArr
  | .mcpMethod => "Mcp-Method differs from the method"
  | .mcpName => "Mcp-Name differs from the name that is dispatched (the params member called exactly `name` / `uri`)" ++ decoyNote r ins
  | .mcpParam => "Mcp-Param header differs from the argument"
  | .sseNoSession => "no session id"
  | .sseOneMessage => "body is not one JSON-RPC message"

def optHex (b : Option Bytes) (dflt : String) : String := match b with | some x => bHex x | none => dflt

/-- The text of a clause (`r`, `ins`: the request of an `http` record, for the names of its preconditions). -/
def clauseText (r : Option (Req × List MsgIn)) : Clause → String
  | .acceptsTable => "C12: accepts_table: Accept flags differ from the token table (application/json|application/*|*/* ; text/event-stream|text/*|*/*)"
  | .rtDiffers => "C12: decode_encode_header_value: decode(encode v) differs from the value's string"
  | .rtUndecodable => "C12: decode_encode_header_value: the encoded value does not decode"
  | .peqSafeInt => "C12: primitiveEqual_refl_on_safe_ints: an integer within ±(2^53−1) does not equal its own decimal form"
  | .peqValue => "C12: primitiveEqual: a value does not equal its own string form"
  | .bindPath b => s!"C12: bindings: the binding for header {bHex b.header} has path {showPath b.path}, which does not designate the property annotated with that header (depth {b.path.length})"
  | .bindShared => "C12: bindings: two bindings share one path (sibling annotations alias)"
  | .bindCount got want => s!"C12: bindings: {got} bindings for {want} annotated properties"
  | .genMirror b => s!"C12: client_server_agree: generateParamHeaders: Mcp-Param-{bHex b.header} does not mirror the argument at {showPath b.path} (depth {b.path.length})"
  | .genUnbound => "C12: client_server_agree: generateParamHeaders produces a header that no annotation binds"
  | .f31 => f31Clause
  | .vphF6 => "C12: F6 empty-string argument: validateParamHeaders refuses the empty Mcp-Param header the SDK client sends"
  | .vphAccepts (some b) => s!"C12: dispatch_sound: validateParamHeaders accepts although Mcp-Param-{bHex b.header} differs from the argument at {showPath b.path} (depth {b.path.length})"
  | .vphAccepts none => "C12: dispatch_sound: validateParamHeaders accepts headers that do not mirror the arguments"
  | .vphRefuses => "C12: violation_status: validateParamHeaders refuses headers that mirror the arguments"
  | .nameMirror impl key exact => s!"C12: name_mirror_case_sensitive: extractName yields {bHex impl}; the params member called exactly {optHex key "-"} (what the dispatcher decodes and runs) is {optHex exact "not a string"}"
  | .metaMirror impl exact => s!"C12: meta_mirror_case_sensitive: extractRequestMeta yields protocol version {bHex impl}; the member called exactly _meta carries {bHex exact}"
  | .e2eF6 => "C12: F6 empty-string argument: the SDK server refuses the SDK client's call (-32020 missing header)"
  | .e2eAgree => "C12: client_server_agree: the SDK server refuses or alters a call the SDK client generated for valid arguments"
  | .e2eReached => "C12: refused call reached the tool handler"
  | .seqStaleLook => "C12: preflight-F32 superseded tools/list page: lookupTool answers with a definition the client received earlier although the client has since listed the tool under its current definition (cached pages are consulted in map order, not most recent first)"
  | .seqLostLook => "C12: client_server_agree over time: lookupTool no longer finds (or alters) the definition of a tool the client has listed under its current definition since the server's tools last changed"
  | .seqStaleCall => "C12: preflight-F32 superseded tools/list page: the SDK server refuses a call the SDK client generated for valid arguments — the Mcp-Param headers mirror a definition of the tool the client received earlier, although it has since listed the tool under its current definition"
  | .seqLostCall => "C12: client_server_agree over time: the SDK server refuses or alters a call the SDK client generated for valid arguments — the client sent no Mcp-Param header although it has listed the tool under its current definition since the server's tools last changed"
  | .seqRefusedExact => "C12: client_server_agree over time: the SDK server refuses or alters a call of the SDK client that carries exactly the Mcp-Param headers the tool's CURRENT definition demands (the definition the server has registered and lists; valid arguments) — the server validates the mirror against something else, e.g. the annotations of an earlier registration of the tool"
  | .seqAgree => "C12: client_server_agree over time: the SDK server refuses or alters a call the SDK client generated for valid arguments (tool listed under its current definition since the server's tools last changed)"
  | .unsupportedVersion st code handled => s!"C06+C12: unsupported-version answer: a request whose Mcp-Protocol-Version header and _meta agree on a version this SDK does not implement ({match r with | some (r, _) => bHex r.version | none => "?"}, not older than 2026-07-28) and that meets every other documented precondition was answered {st}/{optInt code}{if handled == 0 then "" else " after a handler ran"} instead of HTTP 400 with JSON-RPC -32022 listing the supported versions (or -32602)"
  | .seqLegacy => "C12: client_server_agree over time: a call on a legacy-protocol session (no Mcp-* mirror applies) is refused or altered"
  | .seqBadListed => "C12: client_server_agree over time: a tools/list result the client fetched and handed on names a tool the server lists with invalid x-mcp-header annotations (filterValidTools must drop it: no Mcp-Param mirror can be derived from it)"
  | .seqBadMirror => "C12: client_server_agree over time: the client sends Mcp-Param headers for a tool the server lists with invalid x-mcp-header annotations, after it handled the list_changed that followed the last change (it has no usable definition of the tool)"
  | .seqBadCall => "C12: client_server_agree over time: a call of a tool the server lists with invalid x-mcp-header annotations (no mirror sent, the server's registered definition demands none for these arguments) is refused or altered — the client must still call such a tool"
  | .seqOtherServer => "C12: client_server_agree over time: the handler refuses or alters a call that carries exactly the Mcp-Param headers demanded by the tool definition of the Server that serves THIS request (getServer chose it by the request's path; the client had just listed that server's tools; valid arguments) — the mirror was validated against something else, e.g. the same-named tool of another Server behind the same handler"
  | .seqStaleList => "C12: client_server_agree over time: after the client handled the list_changed notification that followed the server's last change of its tools, ListTools answers from the client's cache with tool definitions the server no longer has (a tools/list result from before the change was kept or stored) — CallTool takes the Mcp-Param mirror from definitions that are not the server's"
  | .reached st => s!"C12: refused request (status {st}) reached a middleware/handler"
  | .dispatchSound p => s!"C12: dispatch_sound: dispatched although: {match r with | some (r, ins) => precondText r ins p | none => reprStr p}"
  | .httpF6 => "C12: F6 empty-string argument: the server refuses (-32020) the empty Mcp-Param header the SDK client sends"
  | .refusedClean st code => s!"C12: violation_status: request meeting every precondition refused with {st}/{optInt code}"
  | .httpF30 => "C12: preflight-F30 oversize body on a stateful handler without session ids: answered 400 instead of 413"
  | .notMandated st code => s!"C12: violation_status: status {st}/{optInt code} is not mandated by any violated precondition"
  | .handlerName names announced => s!"C12: name_mirror: the handler ran for {showNames names} although Mcp-Name announced {bHex announced}"

/-! ### the engine -/

def bad : Verdict := { model := "bad-op" }

/-- The clause a typed monitor reports, as text. -/
def say (c : Option Clause) : Option String := c.map (clauseText none)

def stepOp (toks : List String) (impl : String) : Verdict :=
  match toks with
  | "accepts" :: r =>
    match parseAccept r with
    | some (vs, []) =>
      let m := streamableAccepts vs
      let flag (s : String) : Option Bool := if s == "t" then some true else if s == "f" then some false else none
      let viol := match (words impl).mapM flag with
        | some [a, b] => say (acceptsMonitor vs (a, b))
        | _ => say (some .acceptsTable)
      { model := tf m.1 ++ " " ++ tf m.2, violated := viol }
    | _ => bad
  | ["rt", p] =>
    match parsePrim p with
    | some v =>
      let s := primToString v
      let e := encodeHeaderValue std64 v
      let model := match decodeHeaderValue std64 e with
        | some d => "r" ++ tf (requiresBase64 s) ++ " e" ++ bHex e ++ " d" ++ bHex d
        | none => "e" ++ bHex e ++ " bad"
      let viol := match words impl with
        | [_, _, d] =>
          (match (if d.startsWith "d" then hexB (tail1 d) else none) with
           | some d => say (rtMonitor v (some d))
           | none => say (some .rtDiffers))
        | _ => say (rtMonitor v none)
      { model := model, violated := viol }
    | none => bad
  | ["dec", h] =>
    match hexB (tail1 h) with
    | some h => { model := match decodeHeaderValue std64 h with | some d => "d" ++ bHex d | none => "bad" }
    | none => bad
  | "unprim" :: r =>
    match parseJV r with
    | some (v, []) => { model := primTok (unmarshalPrimitive v) }
    | _ => bad
  | ["peq", h, p] =>
    match hexB (tail1 h), parsePrim p with
    | some h, some v =>
      -- self-check of the model's shortcut for plain decimal integers
      let consistent := match decInt? h with
        | some _ => parseFloat h == parseFloatGeneral h
        | none => true
      let model := if consistent then tf (primitiveEqual h v) else "model-inconsistent"
      { model := model, violated := say (peqMonitor h v (impl == "t")) }
    | _, _ => bad
  | "annot" :: r =>
    match parseProps r with
    | some (p, []) =>
      let v := if validateAnnotations p then "ok" else "err"
      let viol : Option String :=
        if !namesDistinctB p then none else
        match parseImplBindings ((words impl).drop 1) with
        | none => some "C12: bindings: unreadable binding list"
        | some bs => say (annotMonitor p bs)
      { model := " ".intercalate (v :: showBindings (bindings p)), violated := viol }
    | _ => bad
  | "gen" :: r =>
    match parseProps r with
    | some (p, r1) =>
      match parseArgs r1 with
      | some (a, []) =>
        let viol : Option String :=
          if !(toolValidB p && argsValidB p a) then none else
          match parseHdrs (words impl) with
          | some (h, []) => say (genMonitor std64 p a h)
          | _ => some "C12: client_server_agree: generateParamHeaders output unreadable"
        { model := showHdrs (generateParamHeaders std64 p a), violated := viol }
      | _ => bad
    | none => bad
  | "vph" :: r =>
    match parseProps r with
    | some (p, r1) =>
      match parseArgsU r1 with
      | some (a, au, rep, r2) =>
        match parseHdrs r2 with
        | some (h, []) =>
          { model := showVphObs (vphModel std64 p a h), violated := say (vphMonitor std64 p a au rep h (parseVphObs impl)) }
        | _ => bad
      | none => bad
    | none => bad
  | "params" :: m :: r =>
    -- the implementation's extractors (`extractName`, `extractRequestMeta`) on a params object of a foreign peer against the
    -- model's decoding of the member list: exact member names, a repeated member overwrites (`_meta`: merges)
    match hexB (tail1 m), parseParams r with
    | some method, some (p, []) =>
      -- whether the members other than the identifying one decode is the implementation's word (`n`)
      let implOk := (words impl).head? == some "n1"
      let (ok, name, mv) := paramsModel method p implOk
      let model := s!"n{if ok then 1 else 0} N{bHex name} V{bHex mv}"
      let viol : Option String := match words impl with
        | [_, n, v] =>
          (match hexB (tail1 n), hexB (tail1 v) with
           | some n, some v => say (paramsMonitor method p implOk n v)
           | _, _ => some "C12: name_mirror_case_sensitive: unreadable extractor output")
        | _ => some "C12: name_mirror_case_sensitive: unreadable extractor output"
      { model := model, violated := viol }
    | _, _ => bad
  | "e2e" :: nk :: r =>
    match parseProps r with
    | some (p, r1) =>
      match parseArgs r1 with
      | some (a, []) =>
        let nameOk := nk == "n1"
        -- `extractName` fails on both sides: no Mcp-Name is sent and the server answers -32020
        let model := match e2eModel std64 nameOk p a with
          | .okSame => "ok same"
          | _ => "rej -32020 handler=0"
        { model := model, violated := say (e2eMonitor std64 nameOk p a (parseE2eObs impl)) }
      | _ => bad
    | none => bad
  | "http" :: r =>
    match parseReq r with
    | some (req, ins) =>
      let o := verdict std64 req
      let obs := parseHttpObs impl
      let viol := match obs with
        | some ob => (httpMonitorAllV std64 req ins ob).map (clauseText (some (req, ins)))
        | none => some s!"C12: the handler did not answer ({impl})"
      let model := modelObsV req o (obs.getD blankObs)
      -- self-check of the string layer: the model's observation survives rendering and parsing
      let viol := if parseHttpObs (showHttpObs model) == some model then viol
        else viol.orElse (fun _ => some "LIBDISC render/parse: the model's observation does not survive the string layer")
      { model := showHttpObs model, violated := viol }
    | none => bad
  | _ => bad

/-! ### `seq` records: one session over time (state: the model's world and the monitor's knowledge) -/

partial def showProps : Props → String
  | p => "p{ " ++ go p ++ "}"
where
  go : Props → String
    | .nil => ""
    | .cons name ty xh ch rest =>
      let x := match xh with
        | .absent => "x-" | .null => "xz" | .other => "xo" | .str s => "xs" ++ bHex s
      "k" ++ bHex name ++ " y" ++ bHex ty ++ " " ++ x ++ " " ++ showProps ch ++ " " ++ go rest

def showTools (ts : Tools) : String :=
  "T{ " ++ String.join (ts.map (fun t => "t" ++ bHex t.1 ++ " " ++ showProps t.2 ++ " ")) ++ "}"

def showCursor (k : Bytes) : String := if k = [] then "c-" else "c" ++ bHex k

def parseCursor (tok : String) : Option Bytes :=
  if tok == "c-" then some [] else if tok.startsWith "c" then hexB (tail1 tok) else none

def showCallOut : CallOut → String
  | .okSame => "ok same"
  | .okOther => "ok differs"
  | .notOk (some code) q => s!"rej {code} handler={if q then 0 else 1}"
  | .notOk none q => s!"err handler={if q then 0 else 1}"

def showSeqObs : SeqObs → String
  | .ok => "ok"
  | .sent => "sent"
  | .listed hit tools next => s!"hit{if hit then 1 else 0} {showTools tools} {showCursor next}"
  | .looked defs => "L{ " ++ String.join (defs.map (fun d => (match d with | some p => showProps p | none => "-") ++ " ")) ++ "}"
  | .called hdrs out => showHdrs hdrs ++ " " ++ showCallOut out

partial def parseLooked : List String → List (Option Props) → Option (List (Option Props))
  | ["}"], acc => some acc.reverse
  | "-" :: r, acc => parseLooked r (none :: acc)
  | toks, acc =>
    match parseProps toks with
    | some (p, r) => parseLooked r (some p :: acc)
    | none => none

/-- The implementation's observation of a `seq` record, typed (`none`: unreadable). -/
def parseSeqObs (op : SeqOp) (impl : String) : Option SeqObs :=
  match op, words impl with
  | .list _, h :: "T{" :: r => listed h r
  | .listSend _, h :: "T{" :: r => listed h r
  | .listRecv, h :: "T{" :: r => listed h r
  | .listSend _, ["sent"] => some .sent
  | .look _, "L{" :: r => (parseLooked r []).map SeqObs.looked
  | .callB _ _, toks => called toks
  | .call _ _, toks =>
    (match parseHdrs toks with
     | some (h, ["ok", "same"]) => some (.called h .okSame)
     | some (h, "ok" :: _) => some (.called h .okOther)
     | some (h, ["rej", code, hd]) => code.toInt?.map (fun cd => .called h (.notOk (some cd) (hd == "handler=0")))
     | some (h, [e, hd]) => if e.startsWith "err" then some (.called h (.notOk none (hd == "handler=0"))) else none
     | _ => none)
  | .list _, _ => none
  | .look _, _ => none
  | _, ["ok"] => some .ok
  | _, _ => none
where
  called (toks : List String) : Option SeqObs :=
    match parseHdrs toks with
    | some (h, ["ok", "same"]) => some (.called h .okSame)
    | some (h, "ok" :: _) => some (.called h .okOther)
    | some (h, ["rej", code, hd]) => code.toInt?.map (fun cd => .called h (.notOk (some cd) (hd == "handler=0")))
    | some (h, [e, hd]) => if e.startsWith "err" then some (.called h (.notOk none (hd == "handler=0"))) else none
    | _ => none
  listed (h : String) (r : List String) : Option SeqObs :=
    match parseTools r [] with
    | some (tools, [nx]) =>
      (match parseCursor nx with
       | some k => if h == "hit1" then some (.listed true tools k) else if h == "hit0" then some (.listed false tools k) else none
       | none => none)
    | _ => none

def parseSeqOp : List String → Option SeqOp
  | "set" :: t :: r =>
    (match hexB (tail1 t), parseProps r with
     | some n, some (p, []) => if t.startsWith "t" then some (.setTool n p) else none
     | _, _ => none)
  | ["del", t] => if t.startsWith "t" then (hexB (tail1 t)).map SeqOp.delTool else none
  | ["ttl", v] => v.toInt?.map SeqOp.ttl
  | ["adv", _] => some .adv
  | ["notified"] => some .notified
  | ["list", k] => (parseCursor k).map SeqOp.list
  | "setb" :: t :: r =>
    (match hexB (tail1 t), parseProps r with
     | some n, some (p, []) => if t.startsWith "t" then some (.setToolB n p) else none
     | _, _ => none)
  | ["bad", t] => if t.startsWith "t" then (hexB (tail1 t)).map SeqOp.setBad else none
  | ["unbad", t] => if t.startsWith "t" then (hexB (tail1 t)).map SeqOp.clearBad else none
  | ["delb", t] => if t.startsWith "t" then (hexB (tail1 t)).map SeqOp.delToolB else none
  | "callb" :: t :: r =>
    (match hexB (tail1 t), parseArgs r with
     | some n, some (a, []) => if t.startsWith "t" then some (.callB n a) else none
     | _, _ => none)
  | ["lsend", k] => (parseCursor k).map SeqOp.listSend
  | ["lrecv"] => some .listRecv
  | ["look", t] => if t.startsWith "t" then (hexB (tail1 t)).map SeqOp.look else none
  | "call" :: t :: r =>
    (match hexB (tail1 t), parseArgs r with
     | some n, some (a, []) => if t.startsWith "t" then some (.call n a) else none
     | _, _ => none)
  | _ => none

structure DrvState where
  seq : Option (World × SeqMon) := none

def stepSeq (st : DrvState) (toks : List String) (impl : String) : DrvState × Verdict :=
  match toks with
  | "cfg" :: k :: pv :: ps :: _ =>   -- a fifth token `sub<0|1>` (does the client subscribe to list_changed) is the harness's
    (match (tailN 2 ps).toNat? with
     | some size =>
       let cfg : SeqCfg := { newProto := k == "Ksl" && pv == "pvnew", pageSize := size }
       ({ seq := some (World.init cfg, SeqMon.init cfg) }, { model := "ok" })
     | none => (st, bad))
  | [_, "connect"] =>
    -- the client connects: which protocol the session runs (string layer: the model's state is that of `cfg`)
    (match st.seq with
     | some (w, _) => (st, { model := if w.newProto then "new1" else "new0" })
     | none => (st, bad))
  | t :: r =>
    (match st.seq, (tail1 t).toNat?, parseSeqOp r with
     | some (w, m), some now, some op =>
       let (w', o) := stepW std64 w now op
       (match parseSeqObs op impl with
        | some io =>
          let (m', cl) := seqMonStep std64 m op io
          ({ seq := some (w', m') }, { model := showSeqObs o, violated := say cl })
        | none =>
          ({ seq := some (w', m) }, { model := showSeqObs o, violated := some s!"C12: client_server_agree over time: unreadable observation ({impl})" }))
     | _, _, _ => (st, bad))
  | _ => (st, bad)

def engine : Engine DrvState where
  init := {}
  step st toks impl :=
    let toks := toks.filter (fun t => !t.startsWith "@")
    match toks with
    | ["reset"] => (st, { model := "ok" })
    | "seq" :: r => stepSeq st r impl
    | _ => (st, stepOp toks impl)

end Preflight

def main : IO Unit := Proto.run Preflight.engine
