import McpModel.Preflight.Sound
/-!
# C12 — the bridge between the monitors (`Monitor.lean`) and the model: NO FALSE ALARM

For every kind of record the driver replays, the typed monitor raises no clause on the observation the model allows —
for ALL inputs (requests, header sets, schemas, argument objects, values), not for the generated ones only.  The records
of this engine are independent evaluations and the monitors keep no state, so there is no induction over operation
sequences here: the invariant relating monitor and model is, per record kind, the equivalence between the monitor's
executable test (own constants, own reading of the property) and the model's decision:

* `specAccepts = streamableAccepts`                      (`specAccepts_eq`)
* `bindingMirrors ↔ Mirrors ↔ checkBinding = none`       (`bindingMirrors_iff`, `checkBinding_none_iff`)
* `violations c r = [] ↔ no documented precondition is violated`, and
  `verdict c r = dispatched ⇒ Pre c r ⇒ no precondition is violated`, `verdict c r = reject st code ⇒ some violated
  precondition mandates (st, code)`                        (`pre_not_violates`, `reject_mandated`)

Together with the driver's comparison of the implementation's observation text with the model's (`A` = equal), this
says: on a record the driver answers `A`, the monitor ran on exactly the model's observation and cannot have fired; a `V`
always comes with a `D`.  Trusted remainder: the string layer (token parser, `showHttpObs`/`parseHttpObs` — self-checked
at run time —, clause texts) and the concrete base64 codec of the driver (the theorems assume `dec (enc s) = some s`
where the client's encoding is involved).
-/
namespace Preflight
open Generated.Preflight

/-! ## helper records -/

/-- **accepts.** -/
theorem accepts_monitor_accepts_model (values : List Bytes) :
    acceptsMonitor values (streamableAccepts values) = none := by
  unfold acceptsMonitor
  rw [specAccepts_eq, if_pos rfl]

/-- **rt** (for every codec with `dec (enc s) = some s`). -/
theorem rt_monitor_accepts_model (c : B64) (hc : c.Lawful) (v : Prim) :
    rtMonitor v (decodeHeaderValue c (encodeHeaderValue c v)) = none := by
  rw [decode_encode_header_value c hc v]
  simp [rtMonitor]

/-- **peq.** -/
theorem peq_monitor_accepts_model (h : Bytes) (v : Prim) : peqMonitor h v (primitiveEqual h v) = none := by
  unfold peqMonitor
  cases v with
  | int n =>
    simp only
    split
    · rename_i hc
      exfalso
      simp only [Bool.and_eq_true, beq_iff_eq, decide_eq_true_eq, Bool.not_eq_true'] at hc
      obtain ⟨⟨⟨h1, h2⟩, h3⟩, h4⟩ := hc
      rw [h1, primitiveEqual_refl_on_safe_ints n (by rw [← specMinSafe_eq]; exact h2) (by rw [← specMaxSafe_eq]; exact h3)] at h4
      cases h4
    · rfl
  | str s => simp [primitiveEqual]
  | bool b => simp [primitiveEqual]

/-- The model's `validateParamHeaders` accepts iff the monitor's mirror requirement holds. -/
theorem vphModel_ok_iff (c : B64) (p : Props) (a : Args) (h : ParamHdrs) :
    vphModel c p a h = .ok ↔ vphSpec c p a h = true := by
  have hm : vphModel c p a h = .ok ↔ validateParamHeaders c p a h = none := by
    unfold vphModel
    cases validateParamHeaders c p a h with
    | none => simp
    | some e => simp only [reduceCtorEq, iff_false]; split <;> simp
  rw [hm, vphSpec_iff]
  unfold validateParamHeaders
  cases a with
  | bad => simp [Args.isBad]
  | missing =>
    simp only [Args.isBad, false_or, List.findSome?_eq_none_iff, checkBinding_none_iff]
  | obj f =>
    simp only [Args.isBad, false_or, List.findSome?_eq_none_iff, checkBinding_none_iff]

/-- **vph.** -/
theorem vph_monitor_accepts_model (c : B64) (p : Props) (a au : Args) (rep : Bool) (h : ParamHdrs) :
    vphMonitor c p a au rep h (vphModel c p a h) = none := by
  unfold vphMonitor
  simp only [bne_self_eq_false, Bool.and_false, Bool.false_and, Bool.false_eq_true, if_false]
  rw [if_pos]
  rw [beq_iff_eq, Bool.eq_iff_iff, beq_iff_eq]
  exact vphModel_ok_iff c p a h

/-- **params.** On a record on which the implementation's `n` flag is the model's. -/
theorem params_monitor_accepts_model (method : Bytes) (p : RawParams) (implOk : Bool)
    (hn : (paramsModel method p implOk).1 = implOk) :
    paramsMonitor method p implOk (paramsModel method p implOk).2.1 (paramsModel method p implOk).2.2 = none := by
  unfold paramsModel at hn ⊢
  unfold paramsMonitor
  simp only at hn ⊢
  cases implOk with
  | false => simp
  | true =>
    simp only [Bool.true_and] at hn ⊢
    cases hd : decodeName method p with
    | none => simp [hd] at hn
    | some x => simp

/-- **e2e** (for every codec with `dec (enc s) = some s`). -/
theorem e2e_monitor_accepts_model (c : B64) (hc : c.Lawful) (nameOk : Bool) (p : Props) (a : Args) :
    e2eMonitor c nameOk p a (e2eModel c nameOk p a) = none := by
  unfold e2eMonitor
  simp only
  split
  · rename_i hv
    exfalso
    simp only [Bool.and_eq_true, bne_iff_ne, ne_eq] at hv
    obtain ⟨⟨⟨h1, h2⟩, h3⟩, h4⟩ := hv
    apply h4
    unfold e2eModel
    have ht := (toolValidB_iff p).mp h2
    rw [generated_params_accepted_prim c hc p a ht.2 (argsValidDoc_prim ((argsValidB_iff p a).mp h3))]
    simp [h1]
  · split
    · rename_i hq
      exfalso
      unfold e2eModel at hq
      split at hq
      · simp at hq
      · split at hq <;> simp at hq
    · rfl

/-! ### annot -/

theorem filterMap_toBinding_length (p : Props) : ∀ pre, ((annotated pre p).filterMap toBinding).length = countBound p := by
  induction p with
  | nil => intro pre; rfl
  | cons name ty xh ch rest ih1 ih2 =>
    intro pre
    simp only [annotated, List.filterMap_append, List.length_append, ih1, ih2, countBound]
    congr 1
    congr 1
    cases xh with
    | absent => simp
    | null => simp [toBinding]
    | other => simp [toBinding]
    | str s =>
      by_cases hs : s = []
      · simp [toBinding, hs]
      · simp [toBinding, hs]

/-- As many bindings as annotated properties (read off the tree). -/
theorem bindings_length (p : Props) : (bindings p).length = countBound p := by
  rw [bindings_eq]; exact filterMap_toBinding_length p []

/-- **annot.** The bindings the model computes — in any order: the harness prints them sorted — pass the monitor. -/
theorem annot_monitor_accepts_model (p : Props) (bs : List Binding) (hperm : bs.Perm (bindings p)) :
    annotMonitor p bs = none := by
  unfold annotMonitor
  split
  · rfl
  · rename_i hd
    have hd' : NamesDistinct p := (namesDistinctB_iff p).mp (by simpa using hd)
    have hfind : bs.find? (fun b => !bindingResolves p b) = none := by
      rw [List.find?_eq_none]
      intro b hb
      have hb' : b ∈ bindings p := hperm.mem_iff.mp hb
      have := (bindingResolves_iff p b).mpr (binding_path_resolves p hd' b hb')
      simp [this]
    rw [hfind]
    simp only
    have hnd : nodupPaths (bs.map (·.path)) = true := by
      rw [nodupPaths_iff]
      exact ((hperm.map (·.path)).nodup_iff).mpr (binding_paths_nodup p hd')
    have hlen : bs.length = countBound p := by rw [hperm.length_eq, bindings_length]
    simp [hnd, hlen]

/-! ### gen -/

/-- The header names of a header set are pairwise distinct (it is a map). -/
def KeysNodup (h : ParamHdrs) : Prop := (h.map (·.1)).Nodup

theorem set_keysNodup (h : ParamHdrs) (n v : Bytes) (hk : KeysNodup h) : KeysNodup (h.set n v) := by
  unfold KeysNodup ParamHdrs.set at *
  rw [List.map_cons, List.nodup_cons]
  constructor
  · intro hmem
    obtain ⟨e, he, hek⟩ := List.mem_map.mp hmem
    have := (List.mem_filter.mp he).2
    simp [hek] at this
  · exact (List.filter_sublist.map _).nodup hk

theorem fold_keysNodup (c : B64) (a : Args) (bs : List Binding) (acc : ParamHdrs) (hk : KeysNodup acc) :
    KeysNodup (bs.foldl (genStep c a) acc) := by
  induction bs generalizing acc with
  | nil => exact hk
  | cons x xs ih =>
    simp only [List.foldl_cons]
    apply ih
    unfold genStep
    split
    · exact hk
    · exact set_keysNodup _ _ _ hk

theorem generated_keysNodup (c : B64) (p : Props) (a : Args) : KeysNodup (generateParamHeaders c p a) := by
  unfold generateParamHeaders
  cases a with
  | obj f => exact fold_keysNodup c _ _ [] List.nodup_nil
  | _ => exact List.nodup_nil

theorem fold_keys_bound (c : B64) (a : Args) (bs all : List Binding) (acc : ParamHdrs) (hsub : ∀ b ∈ bs, b ∈ all)
    (hacc : ∀ e ∈ acc, ∃ b ∈ all, lowerBytes b.header = e.1) :
    ∀ e ∈ bs.foldl (genStep c a) acc, ∃ b ∈ all, lowerBytes b.header = e.1 := by
  induction bs generalizing acc with
  | nil => exact hacc
  | cons x xs ih =>
    simp only [List.foldl_cons]
    apply ih _ (fun b hb => hsub b (List.mem_cons_of_mem _ hb))
    unfold genStep
    split
    · exact hacc
    · intro e he
      unfold ParamHdrs.set at he
      rcases List.mem_cons.mp he with rfl | he
      · exact ⟨x, hsub x List.mem_cons_self, rfl⟩
      · exact hacc e (List.mem_filter.mp he).1

/-- Every header the client generates is bound by an annotation. -/
theorem generated_keys_bound (c : B64) (p : Props) (a : Args) :
    ∀ e ∈ generateParamHeaders c p a, ∃ b ∈ bindings p, lowerBytes b.header = e.1 := by
  unfold generateParamHeaders
  cases a with
  | obj f => exact fold_keys_bound c _ _ _ [] (fun _ h => h) (by simp)
  | _ => simp

theorem find?_perm_unique {α : Type} {l l' : List α} (q : α → Bool) (hp : l.Perm l')
    (hu : ∀ x ∈ l, ∀ y ∈ l, q x = true → q y = true → x = y) : l.find? q = l'.find? q := by
  cases h : l.find? q with
  | none =>
    symm
    rw [List.find?_eq_none] at h ⊢
    intro x hx
    exact h x (hp.mem_iff.mpr hx)
  | some x =>
    have hx := List.mem_of_find?_eq_some h
    have hqx := List.find?_some h
    cases h' : l'.find? q with
    | none =>
      rw [List.find?_eq_none] at h'
      exact absurd hqx (h' x (hp.mem_iff.mp hx))
    | some y =>
      have hy := hp.mem_iff.mpr (List.mem_of_find?_eq_some h')
      rw [hu x hx y hy hqx (List.find?_some h')]

theorem nodup_map_inj {α β : Type} (f : α → β) : ∀ {l : List α}, (l.map f).Nodup →
    ∀ x ∈ l, ∀ y ∈ l, f x = f y → x = y := by
  intro l
  induction l with
  | nil => intro _ x hx; cases hx
  | cons a as ih =>
    intro hn x hx y hy hxy
    rw [List.map_cons, List.nodup_cons] at hn
    rcases List.mem_cons.mp hx with hx1 | hx1
    · rcases List.mem_cons.mp hy with hy1 | hy1
      · rw [hx1, hy1]
      · exfalso; apply hn.1; rw [← hx1, hxy]; exact List.mem_map.mpr ⟨y, hy1, rfl⟩
    · rcases List.mem_cons.mp hy with hy1 | hy1
      · exfalso; apply hn.1; rw [← hy1, ← hxy]; exact List.mem_map.mpr ⟨x, hx1, rfl⟩
      · exact ih hn.2 x hx1 y hy1 hxy

/-- `Get` does not depend on the order in which a header map is listed. -/
theorem get_perm {h h' : ParamHdrs} (hp : h.Perm h') (hk : KeysNodup h) (n : Bytes) : h.get n = h'.get n := by
  unfold ParamHdrs.get
  rw [find?_perm_unique _ hp]
  intro x hx y hy hqx hqy
  have hxy : x.1 = y.1 := by
    rw [beq_iff_eq] at hqx hqy; rw [hqx, hqy]
  exact nodup_map_inj _ hk x hx y hy hxy

theorem bindingMirrors_get (c : B64) (a : Args) (h h' : ParamHdrs) (b : Binding) (hg : h.get b.header = h'.get b.header) :
    bindingMirrors c a h b = bindingMirrors c a h' b := by
  unfold bindingMirrors
  rw [hg]

/-- The headers the client generates mirror the arguments, binding by binding (valid annotations, primitive arguments). -/
theorem generated_mirrors (c : B64) (hc : c.Lawful) (p : Props) (a : Args) (hv : validateAnnotations p = true)
    (ha : ArgsPrim p a) (b : Binding) (hb : b ∈ bindings p) :
    bindingMirrors c a (generateParamHeaders c p a) b = true := by
  rw [bindingMirrors_iff, ← checkBinding_none_iff]
  have hacc := generated_params_accepted_prim c hc p a hv ha
  unfold validateParamHeaders at hacc
  cases a with
  | bad => simp [checkBinding, Args.lookup, generateParamHeaders, ParamHdrs.get]
  | missing => exact (List.findSome?_eq_none_iff.mp hacc) b hb
  | obj f => exact (List.findSome?_eq_none_iff.mp hacc) b hb

/-- **gen** (for every codec with `dec (enc s) = some s`).  The headers the model generates — in any order: the harness
prints them sorted — pass the monitor. -/
theorem gen_monitor_accepts_model (c : B64) (hc : c.Lawful) (p : Props) (a : Args) (h : ParamHdrs)
    (hperm : h.Perm (generateParamHeaders c p a)) : genMonitor c p a h = none := by
  unfold genMonitor
  split
  · rfl
  · rename_i hv
    simp only [Bool.not_eq_true', Bool.and_eq_false_iff, not_or, Bool.not_eq_false] at hv
    have ht := (toolValidB_iff p).mp hv.1
    have ha := argsValidDoc_prim ((argsValidB_iff p a).mp hv.2)
    have hk : KeysNodup h := by
      unfold KeysNodup
      exact ((hperm.map (fun e : Bytes × Bytes => e.1)).nodup_iff).mpr (generated_keysNodup c p a)
    have hfind : (bindings p).find? (fun b => !bindingMirrors c a h b) = none := by
      rw [List.find?_eq_none]
      intro b hb
      rw [bindingMirrors_get c a h _ b (get_perm hperm hk b.header), generated_mirrors c hc p a ht.2 ha b hb]
      simp
    rw [hfind]
    simp only
    split
    · rename_i hu
      exfalso
      rw [List.any_eq_true] at hu
      obtain ⟨e, he, hne⟩ := hu
      obtain ⟨b, hb, heq⟩ := generated_keys_bound c p a e (hperm.mem_iff.mp he)
      simp only [Bool.not_eq_true', List.any_eq_false, beq_iff_eq] at hne
      exact hne b hb heq
    · rfl

/-! ## whole requests -/

/-- HTTP framing, which `net/http` enforces on the wire and the harness reproduces when it calls `ServeHTTP` directly: a
body that is delivered completely has the declared length, if one was declared.  (An upload that breaks off delivers
fewer bytes than declared and ends with an error: `readFails`.) -/
def Framed (r : Req) : Prop := r.readFails = false → ∀ d, r.declared = some d → d = r.bodyLen

/-- JSON-RPC: a message is a request iff it has a non-empty `method` (`jsonrpc2.DecodeMessage`). -/
def MethodsNonEmpty (r : Req) : Prop := ∀ m ∈ reqMsgs r, m.isReq = true → m.method ≠ []

theorem reqMsgs_eq (r : Req) : reqMsgs r = contentMsgs r := rfl
theorem reqIsBatch_eq (r : Req) : reqIsBatch r = contentBatch r := rfl
theorem specPv_eq (r : Req) : specPv r = effVersion r.version := by
  unfold specPv effVersion; rw [spec20250326_eq]
theorem specLimit_eq (r : Req) : specLimit r = effLimit r.limit := by
  unfold specLimit effLimit; rw [specDefaultLimit_eq]

theorem metaBinds_metaApplies (r : Req) (m : Msg) :
    MetaBinds r m ↔ metaApplies (effVersion r.version) m.metaVersion = true := by
  unfold MetaBinds metaApplies
  rw [specPv_eq, spec20260728_eq]
  simp

theorem soleMsg_mem {r : Req} {m : Msg} (h : soleMsg r = some m) : reqMsgs r = [m] := by
  unfold soleMsg at h
  unfold reqMsgs
  split at h
  · rename_i m' hc; cases h; rw [hc]
  · cases h

/-- Under a protocol ≥ 2026-07-28 the standard-header mirror is not skipped. -/
theorem newProto_not_skipped {r : Req} (h : specNewProto r = true) : standardHeadersSkipped r.version = false := by
  unfold specNewProto specPv at h
  unfold standardHeadersSkipped
  by_cases hv : r.version = []
  · rw [if_pos hv] at h; exact absurd h (by decide)
  · rw [if_neg hv] at h
    rw [spec20260728_eq_min] at h
    unfold bLe at h
    simp only [Bool.not_eq_true'] at h
    simp [hv, h]

theorem newProto_of_not_skipped {r : Req} (h : standardHeadersSkipped r.version = false) : specNewProto r = true := by
  unfold standardHeadersSkipped at h
  simp only [Bool.or_eq_false_iff, beq_eq_false_iff_ne, ne_eq] at h
  unfold specNewProto specPv
  rw [if_neg h.1, spec20260728_eq_min]
  unfold bLe
  simp [h.2]

/-- **The documented preconditions, as the model's theorem `dispatch_sound` states them (`Pre`), leave nothing for the
monitor to name** — streamable handlers. -/
theorem pre_not_violates {c : B64} {r : Req} (hpre : Pre c r) (hk : r.kind ≠ .sse) (hf : Framed r) :
    ∀ p ∈ precondsOf r.kind, ¬ Violates c r p := by
  intro p hp hv
  have hko : r.kind = .stateless ∨ r.kind = .stateful := by
    cases h : r.kind <;> simp_all
  cases p
  case host =>
    obtain ⟨h1, h2, h3, h4⟩ := hv
    rcases hpre.host with h | h | h | h <;> simp_all
  case origin => exact absurd hpre.origin (by rw [show r.originRejects = true from hv]; simp)
  case version =>
    obtain ⟨h1, h2, h3⟩ := hv
    rw [specSupported_eq] at h2
    rw [spec20260728_eq] at h3
    rcases hpre.version with h | h | h
    · exact h1 h
    · exact h2 h
    · rw [h] at h3; cases h3
  case method => exact hv hpre.method
  case media => exact hv (by rw [specJson_eq]; exact hpre.media)
  case accept =>
    apply hv
    have h := hpre.accept
    rw [← specAccepts_eq] at h
    unfold specAccepts at h
    simp only [List.any_eq_true, List.contains_iff_mem] at h
    exact h
  case session =>
    rcases hko with h | h
    · exact hv.1 h
    · exact hpre.session h hv.2
  case lastEventId =>
    have h : r.lastEventId = true := hv
    rw [hpre.noLastEventId] at h; cases h
  case size =>
    obtain ⟨h1, h2⟩ := hv
    rw [specLimit_eq] at h1 h2
    have ht := hpre.size.1
    unfold tooLarge at ht
    have hle : ¬ ((r.bodyLen : Int) > effLimit r.limit) := by
      intro hgt
      simp [h1, hgt] at ht
    rcases h2 with h2 | ⟨d, hd, h2⟩
    · exact hle h2
    · rw [hf hpre.delivered d hd] at h2
      exact hle h2
  case delivered =>
    have h : r.readFails = true := hv
    rw [hpre.delivered] at h; cases h
  case empty => exact hpre.size.2 hv
  case malformed =>
    have := hpre.wellFormed
    unfold contentMalformed at this
    cases hc : r.content <;> simp_all [Violates]
  case batch =>
    obtain ⟨h1, h2⟩ := hv
    have := hpre.noBatch
    rw [← reqIsBatch_eq, ← specPv_eq] at this
    unfold batchGateRejects at this
    rw [← spec20250618_eq, h1, h2] at this
    cases this
  case check =>
    obtain ⟨m, hm, hr, hc⟩ := hv
    exact hc (hpre.perMessage m hm hr).1
  case statefulNew =>
    obtain ⟨m, hm, hr, hb, h1, h2⟩ := hv
    obtain ⟨h3, _⟩ := (hpre.perMessage m hm hr).2 ((metaBinds_metaApplies r m).mp hb)
    rcases h3 with h3 | h3
    · exact h1 h3
    · exact h2 (by rw [specDiscover_eq]; exact h3)
  case versionMissing =>
    obtain ⟨m, hm, hr, hb, h1⟩ := hv
    exact ((hpre.perMessage m hm hr).2 ((metaBinds_metaApplies r m).mp hb)).2.1 h1
  case metaMissing =>
    obtain ⟨m, hm, hr, hb, h1⟩ := hv
    exact ((hpre.perMessage m hm hr).2 ((metaBinds_metaApplies r m).mp hb)).2.2.1 h1
  case versionDiffers =>
    obtain ⟨m, hm, hr, hb, _, _, h1⟩ := hv
    exact h1 ((hpre.perMessage m hm hr).2 ((metaBinds_metaApplies r m).mp hb)).2.2.2
  case mcpMethod =>
    obtain ⟨m, hs, hn, hr, h1⟩ := hv
    exact h1 (hpre.mirror m hs hr (newProto_not_skipped hn)).1
  case mcpName =>
    obtain ⟨m, hs, hn, hr, hnamed, h1⟩ := hv
    have hc : namedMethods.contains m.method = true := by
      rw [← specNamed_eq]; exact List.contains_iff_mem.mpr hnamed
    obtain ⟨g1, g2, g3⟩ := (hpre.mirror m hs hr (newProto_not_skipped hn)).2.2.1 hc
    rcases h1 with h1 | h1 | h1
    · rw [g1] at h1; cases h1
    · exact g3 h1
    · exact h1 g2
  case mcpParam =>
    obtain ⟨m, q, hs, hn, hr, ht, hmeth, _, hbad, b, hb, hnm⟩ := hv
    refine hnm ((hpre.mirror m hs hr (newProto_not_skipped hn)).2.2.2 (by rw [← specToolsCall_eq]; exact hmeth) q ht ?_ b hb)
    intro h; rw [h] at hbad; exact hbad
  case sseNoSession => rcases hko with h | h <;> simp [precondsOf, h] at hp
  case sseOneMessage => rcases hko with h | h <;> simp [precondsOf, h] at hp

/-- … and so do the preconditions of the SSE handler (`dispatch_sound_sse`). -/
theorem sse_not_violates {c : B64} {r : Req} {b : Bool} (hk : r.kind = .sse) (h : verdict c r = .dispatched b) :
    ∀ p ∈ precondsOf r.kind, ¬ Violates c r p := by
  obtain ⟨g1, g2, g3, g4, g5, m, g6, g7⟩ := dispatch_sound_sse c r hk b h
  intro p hp hv
  rw [hk] at hp
  cases p
  case host =>
    obtain ⟨h1, h2, h3, h4⟩ := hv
    rcases g1 with h | h | h | h <;> simp_all
  case method => exact hv g2
  case media => exact hv (by rw [specJson_eq]; exact g3)
  case sseNoSession =>
    have h' : r.sess = .none := hv
    rw [g4] at h'; cases h'
  case session =>
    have h' := hv.2
    rw [g4] at h'; cases h'
  case delivered =>
    have h' : r.readFails = true := hv
    rw [g5] at h'; cases h'
  case sseOneMessage =>
    have h' : soleMsg r = none := hv
    rw [g6] at h'; cases h'
  case check =>
    obtain ⟨m', hm', hr, hc⟩ := hv
    rw [soleMsg_mem g6] at hm'
    simp only [List.mem_singleton] at hm'
    subst hm'
    exact hc (g7 hr)
  all_goals simp [precondsOf] at hp

/-! ### a refusal is mandated by a violated precondition -/

/-- The answer `o`, if it is a refusal, is one mandated for a documented precondition that `r` violates. -/
def Mand (c : B64) (r : Req) : Outcome → Prop
  | .reject st code _ => ∃ p ∈ precondsOf r.kind, Violates c r p ∧ (st, code) ∈ mandated r.kind p
  | _ => True

theorem mand_firstViolation {c : B64} {r : Req} (g : List (Bool × Outcome)) (d : Outcome)
    (hg : ∀ x ∈ g, x.1 = true → Mand c r x.2) (hd : Mand c r d) : Mand c r (firstViolation g d) := by
  induction g with
  | nil => exact hd
  | cons x xs ih =>
    obtain ⟨cnd, o⟩ := x
    rw [firstViolation_cons]
    split
    · rename_i hc; exact hg (cnd, o) List.mem_cons_self hc
    · exact ih (fun y hy => hg y (List.mem_cons_of_mem _ hy))

/-- One message of the body refused by the loop of `servePOST`: `checkRequest`, or one of the per-request-metadata rules. -/
theorem mand_msgGate {c : B64} {r : Req} {m : Msg} {isBatch : Bool} {o : Outcome} (hk : r.kind ≠ .sse)
    (hm : m ∈ reqMsgs r) (h : msgGate (r.kind == .stateless) isBatch r.version m = some o) : Mand c r o := by
  have hpre : ∀ q, q ∈ [Precond.check, .statefulNew, .versionMissing, .metaMissing, .versionDiffers] → q ∈ precondsOf r.kind := by
    intro q hq
    cases hkk : r.kind <;> simp_all [precondsOf] <;> rcases hq with rfl | rfl | rfl | rfl | rfl <;> simp
  have hcheckM : ∀ st code, (st, code) ∈ [((400 : Nat), (none : Option Int)), (404, some (-32601))] →
      (st, code) ∈ mandated r.kind .check := by
    intro st code hsc
    simp only [mandated, if_neg hk]; exact hsc
  unfold msgGate at h
  split at h
  · cases h
  · rename_i hr
    have hr' : m.isReq = true := by simpa using hr
    simp only at h
    split at h
    · rename_i hc
      have hv : Violates c r .check := ⟨m, hm, hr', by rw [hc]; simp⟩
      split at h <;> cases h
      · exact ⟨.check, hpre _ (by simp), hv, hcheckM _ _ (by simp [codeMethodNotFound])⟩
      · exact ⟨.check, hpre _ (by simp), hv, hcheckM _ _ (by simp)⟩
    · rename_i hc
      cases h
      exact ⟨.check, hpre _ (by simp), ⟨m, hm, hr', by rw [hc]; simp⟩, hcheckM _ _ (by simp)⟩
    · rename_i hc
      split at h
      · rename_i happ
        rw [meta_gate_ignores_batch, ← metaBinds_metaApplies] at happ
        split at h
        · rename_i h1
          cases h
          simp only [Bool.and_eq_true, Bool.not_eq_true', beq_eq_false_iff_ne, ne_eq, decide_eq_true_eq] at h1
          exact ⟨.statefulNew, hpre _ (by simp), ⟨m, hm, hr', happ, h1.1, by rw [specDiscover_eq]; exact h1.2⟩,
            by simp [mandated, codeUnsupportedProtocolVersion]⟩
        · split at h
          · rename_i h2
            cases h
            exact ⟨.versionMissing, hpre _ (by simp), ⟨m, hm, hr', happ, h2⟩, by simp [mandated, codeHeaderMismatch]⟩
          · rename_i h2
            split at h
            · rename_i h3
              cases h
              exact ⟨.metaMissing, hpre _ (by simp), ⟨m, hm, hr', happ, h3⟩, by simp [mandated, codeInvalidParams]⟩
            · rename_i h3
              split at h
              · rename_i h4
                cases h
                exact ⟨.versionDiffers, hpre _ (by simp), ⟨m, hm, hr', happ, h2, h3, h4⟩,
                  by simp [mandated, codeHeaderMismatch]⟩
              · cases h
      · cases h

def streamablePreconds : List Precond :=
  [.host, .origin, .version, .method, .media, .accept, .session, .lastEventId, .size, .delivered, .empty,
   .malformed, .batch, .check, .statefulNew, .versionMissing, .metaMissing, .versionDiffers,
   .mcpMethod, .mcpName, .mcpParam]

theorem precondsOf_streamable {r : Req} (hk : r.kind ≠ .sse) : precondsOf r.kind = streamablePreconds := by
  cases h : r.kind <;> simp_all [precondsOf, streamablePreconds]

/-- A refusal with `st` (no JSON-RPC code), named by the precondition `p`. -/
theorem mand_rej {c : B64} {r : Req} {st : Nat} (p : Precond) (hp : p ∈ precondsOf r.kind) (hv : Violates c r p)
    (hm : (st, none) ∈ mandated r.kind p) : Mand c r (rej st) := ⟨p, hp, hv, hm⟩

theorem violates_size {c : B64} {r : Req} (h : tooLarge r = true) : Violates c r .size := by
  unfold tooLarge at h
  simp only [Bool.and_eq_true, decide_eq_true_eq] at h
  refine ⟨by rw [specLimit_eq]; exact h.1, Or.inl (by rw [specLimit_eq]; exact h.2)⟩

theorem mand_hdr_of {c : B64} {r : Req} (hk : r.kind ≠ .sse) (p : Precond)
    (hp : p = .mcpMethod ∨ p = .mcpName ∨ p = .mcpParam) (hv : Violates c r p) :
    Mand c r (rejRpc 400 codeHeaderMismatch) := by
  refine ⟨p, ?_, hv, ?_⟩
  · rw [precondsOf_streamable hk]; rcases hp with rfl | rfl | rfl <;> simp [streamablePreconds]
  · rcases hp with rfl | rfl | rfl <;> simp [mandated, codeHeaderMismatch]

/-- The standard-header mirror (`validateMcpHeaders`) refuses: one of Mcp-Method / Mcp-Name / Mcp-Param-* is violated. -/
theorem mand_header {c : B64} {r : Req} (hk : r.kind ≠ .sse) (hne : MethodsNonEmpty r) (h : headerMismatch c r = true) :
    Mand c r (rejRpc 400 codeHeaderMismatch) := by
  have hP := precondsOf_streamable hk
  unfold headerMismatch at h
  cases hs : soleMsg r with
  | none => simp [hs] at h
  | some m =>
    simp only [hs] at h
    cases hv : validateMcpHeaders c r.version r.mcpMethod r.mcpName r.paramHdrs m with
    | none => simp [hv] at h
    | some e =>
      have hmem : m ∈ reqMsgs r := by rw [soleMsg_mem hs]; simp
      unfold validateMcpHeaders at hv
      split at hv
      · cases hv
      · rename_i hskip
        have hnew := newProto_of_not_skipped (by simpa using hskip)
        split at hv
        · cases hv
        · rename_i hr
          have hr' : m.isReq = true := by simpa using hr
          have hmne := hne m hmem hr'
          have mk : ∀ p, (p = Precond.mcpMethod ∨ p = .mcpName ∨ p = .mcpParam) → Violates c r p →
              Mand c r (rejRpc 400 codeHeaderMismatch) := fun p hp hvio => mand_hdr_of hk p hp hvio
          split at hv
          · rename_i h0
            exact mk .mcpMethod (by simp) ⟨m, hs, hnew, hr', by rw [h0]; exact fun h' => hmne h'.symm⟩
          · split at hv
            · rename_i h1
              exact mk .mcpMethod (by simp) ⟨m, hs, hnew, hr', h1⟩
            · rename_i h0 h1
              have hmeth : r.mcpMethod = m.method := by simpa using h1
              simp only at hv
              split at hv
              · rename_i h2
                simp only [Bool.and_eq_true, decide_eq_true_eq] at h2
                exact mk .mcpName (by simp) ⟨m, hs, hnew, hr', by rw [specNamed_eq]; exact List.contains_iff_mem.mp h2.1,
                  Or.inr (Or.inl h2.2)⟩
              · split at hv
                · rename_i h3
                  simp only [Bool.and_eq_true, Bool.not_eq_true'] at h3
                  exact mk .mcpName (by simp) ⟨m, hs, hnew, hr', by rw [specNamed_eq]; exact List.contains_iff_mem.mp h3.1,
                    Or.inl h3.2⟩
                · rename_i h2 h3
                  split at hv
                  · rename_i h4
                    simp only [Bool.and_eq_true, decide_eq_true_eq] at h4
                    exact mk .mcpName (by simp) ⟨m, hs, hnew, hr', by rw [specNamed_eq]; exact List.contains_iff_mem.mp h4.1,
                      Or.inr (Or.inr h4.2)⟩
                  · split at hv
                    · rename_i h5
                      -- tools/call: a named method, so the name was extractable
                      have hnamed : namedMethods.contains m.method = true := by rw [h5]; decide
                      have hok : m.nameOk = true := by
                        cases hno : m.nameOk with
                        | true => rfl
                        | false => exact absurd (by rw [hnamed, hno]; rfl) h3
                      cases ht : m.tool with
                      | none => simp [ht] at hv
                      | some q =>
                        simp only [ht] at hv
                        cases hvp : validateParamHeaders c q m.args r.paramHdrs with
                        | none => simp [hvp] at hv
                        | some pe =>
                          unfold validateParamHeaders at hvp
                          have hbad : (match m.args with | .bad => False | _ => True) := by
                            cases ha : m.args <;> simp_all
                          have hfs : (bindings q).findSome? (checkBinding c m.args r.paramHdrs) = some pe := by
                            cases ha : m.args <;> simp_all
                          obtain ⟨b, hb, hcb⟩ := List.exists_of_findSome?_eq_some hfs
                          refine mk .mcpParam (by simp) ⟨m, q, hs, hnew, hr', ht, by rw [specToolsCall_eq]; exact h5, hok, hbad,
                            b, hb, ?_⟩
                          rw [← checkBinding_none_iff, hcb]
                          simp
                    · cases hv

theorem mem_streamable {r : Req} (hk : r.kind ≠ .sse) (p : Precond) (hp : p ∈ streamablePreconds) :
    p ∈ precondsOf r.kind := by rw [precondsOf_streamable hk]; exact hp

/-- `servePOST`: whatever it refuses with is mandated by a violated precondition. -/
theorem mand_postChecks {c : B64} {r : Req} (hk : r.kind ≠ .sse) (hne : MethodsNonEmpty r) (br : Bool) (d : Outcome)
    (hd : Mand c r d) : Mand c r (firstViolation (postChecks c (r.kind == .stateless) br r) d) := by
  unfold postChecks
  rw [firstViolation_append, firstViolation_append]
  apply mand_firstViolation
  · intro x hx hc
    simp only [List.mem_cons, List.not_mem_nil, or_false] at hx
    rcases hx with rfl | rfl | rfl | rfl | rfl | rfl
    · exact mand_rej .lastEventId (mem_streamable hk _ (by decide)) hc (by simp [mandated])
    · simp only [Bool.and_eq_true] at hc
      exact mand_rej .size (mem_streamable hk _ (by decide)) (violates_size hc.2) (by simp [mandated])
    · simp only [Bool.and_eq_true] at hc
      exact mand_rej .delivered (mem_streamable hk _ (by decide)) hc.2 (by simp [mandated])
    · exact mand_rej .empty (mem_streamable hk _ (by decide)) (by show r.bodyLen = 0; simpa using hc) (by simp [mandated])
    · refine mand_rej .malformed (mem_streamable hk _ (by decide)) ?_ (by simp [mandated])
      simp only [contentMalformed] at hc
      simp only [Violates]
      cases hcc : r.content <;> simp_all
    · refine mand_rej .batch (mem_streamable hk _ (by decide)) ?_ (by simp [mandated])
      simp only [batchGateRejects, Bool.and_eq_true] at hc
      exact ⟨hc.1, by rw [specPv_eq, spec20250618_eq]; exact hc.2⟩
  · rw [firstViolation_flatMap (r.kind == .stateless) (contentBatch r)]
    cases hf : (contentMsgs r).findSome? (msgGate (r.kind == .stateless) (contentBatch r) r.version) with
    | some o =>
      obtain ⟨m, hm, hg⟩ := List.exists_of_findSome?_eq_some hf
      exact mand_msgGate hk hm hg
    | none =>
      simp only
      apply mand_firstViolation _ _ _ hd
      intro x hx hc
      simp only [List.mem_cons, List.not_mem_nil, or_false] at hx
      subst hx
      exact mand_header hk hne hc

theorem mand_cons {c : B64} {r : Req} (cnd : Bool) (o : Outcome) (t : List (Bool × Outcome)) (d : Outcome)
    (h1 : cnd = true → Mand c r o) (h2 : Mand c r (firstViolation t d)) :
    Mand c r (firstViolation ((cnd, o) :: t) d) := by
  rw [firstViolation_cons]
  split
  · rename_i hc; exact h1 hc
  · exact h2

/-- **A refusal is mandated.** Whenever the model refuses a POST, some documented precondition of the handler is violated
and mandates exactly that status and JSON-RPC code — for every request (whose requests have a method). -/
theorem reject_mandated (c : B64) (r : Req) (hpost : r.method = .post) (hne : MethodsNonEmpty r) :
    Mand c r (verdict c r) := by
  rw [violation_status]
  have hhost : hostGateRejects r = true → Violates c r .host := by
    intro h
    unfold hostGateRejects at h
    simp only [Bool.and_eq_true, Bool.not_eq_true'] at h
    exact ⟨h.1.1.1, h.1.1.2, h.1.2, h.2⟩
  unfold checks
  cases hkind : r.kind with
  | sse =>
    have hmem : ∀ p, p ∈ [Precond.host, .method, .media, .sseNoSession, .session, .delivered, .sseOneMessage, .check] →
        p ∈ precondsOf r.kind := by intro p hp; rw [hkind]; exact hp
    simp only [hpost, List.cons_append, List.nil_append, decide_true, Bool.true_and]
    apply mand_firstViolation
    · intro x hx hc
      simp only [List.mem_cons, List.not_mem_nil, or_false] at hx
      rcases hx with rfl | rfl | rfl | rfl | rfl | rfl | rfl
      · exact mand_rej .host (hmem _ (by decide)) (hhost hc) (by simp [mandated])
      · exact mand_rej .media (hmem _ (by decide)) (by rw [Violates, specJson_eq]; simpa using hc) (by simp [mandated])
      · exact mand_rej .sseNoSession (hmem _ (by decide)) (by show r.sess = .none; simpa using hc) (by simp [mandated])
      · exact mand_rej .session (hmem _ (by decide)) ⟨by rw [hkind]; simp, by simpa using hc⟩ (by simp [mandated])
      · exact mand_rej .delivered (hmem _ (by decide)) hc (by simp [mandated])
      · exact mand_rej .sseOneMessage (hmem _ (by decide)) (by show soleMsg r = none; simpa using hc) (by simp [mandated])
      · refine mand_rej .check (hmem _ (by decide)) ?_ (by simp [mandated, hkind])
        cases hs : soleMsg r with
        | none => simp [hs] at hc
        | some m =>
          simp only [hs, Bool.and_eq_true, decide_eq_true_eq] at hc
          exact ⟨m, by rw [soleMsg_mem hs]; simp, hc.1, hc.2⟩
    · simp [pass, hkind, hpost, Mand]
  | stateless =>
    have hk : r.kind ≠ .sse := by rw [hkind]; simp
    have hst : (r.kind == .stateless) = true := by rw [hkind]; rfl
    simp only [if_true, List.cons_append, List.nil_append]
    apply mand_cons _ _ _ _ (fun h => mand_rej .host (mem_streamable hk _ (by decide)) (hhost h) (by simp [mandated]))
    apply mand_cons _ _ _ _ (fun h => mand_rej .origin (mem_streamable hk _ (by decide)) h (by simp [mandated]))
    apply mand_cons _ _ _ _ (fun h => mand_rej .version (mem_streamable hk _ (by decide))
      (by unfold versionGateRejects at h; simp only [Bool.and_eq_true, bne_iff_ne, ne_eq, Bool.not_eq_true'] at h
          exact ⟨h.1.1, by rw [specSupported_eq]; simpa using h.1.2, by rw [spec20260728_eq]; exact h.2⟩) (by simp [mandated]))
    apply mand_cons _ _ _ _ (fun h => absurd hpost (by simpa using h))
    apply mand_cons _ _ _ _ (fun h => mand_rej .media (mem_streamable hk _ (by decide))
      (by rw [Violates, specJson_eq]; simpa using h) (by simp [mandated]))
    apply mand_cons _ _ _ _ (fun h => mand_rej .accept (mem_streamable hk _ (by decide))
      (by rw [← violatesB_iff]; simp only [violatesB, specAccepts_eq]; exact h) (by simp [mandated]))
    apply mand_cons _ _ _ _ (fun h => mand_rej .size (mem_streamable hk _ (by decide)) (violates_size h) (by simp [mandated]))
    apply mand_cons _ _ _ _ (fun h => mand_rej .delivered (mem_streamable hk _ (by decide)) h (by simp [mandated]))
    have hd : Mand c r (pass r) := by simp [pass, hkind, Mand]
    have := mand_postChecks hk hne true _ hd
    rw [hst] at this
    exact this
  | stateful =>
    have hk : r.kind ≠ .sse := by rw [hkind]; simp
    have hst : (r.kind == .stateless) = false := by rw [hkind]; rfl
    simp only [reduceCtorEq, if_false, hpost, List.cons_append, List.nil_append]
    apply mand_cons _ _ _ _ (fun h => mand_rej .host (mem_streamable hk _ (by decide)) (hhost h) (by simp [mandated]))
    apply mand_cons _ _ _ _ (fun h => mand_rej .origin (mem_streamable hk _ (by decide)) h (by simp [mandated]))
    apply mand_cons _ _ _ _ (fun h => mand_rej .version (mem_streamable hk _ (by decide))
      (by unfold versionGateRejects at h; simp only [Bool.and_eq_true, bne_iff_ne, ne_eq, Bool.not_eq_true'] at h
          exact ⟨h.1.1, by rw [specSupported_eq]; simpa using h.1.2, by rw [spec20260728_eq]; exact h.2⟩) (by simp [mandated]))
    apply mand_cons _ _ _ _ (fun h => mand_rej .media (mem_streamable hk _ (by decide))
      (by rw [Violates, specJson_eq]; simpa using h) (by simp [mandated]))
    apply mand_cons _ _ _ _ (fun h => mand_rej .accept (mem_streamable hk _ (by decide))
      (by rw [← violatesB_iff]; simp only [violatesB, specAccepts_eq]; exact h) (by simp [mandated]))
    apply mand_cons _ _ _ _ (fun h => mand_rej .session (mem_streamable hk _ (by decide))
      ⟨by rw [hkind]; simp, by simpa using h⟩ (by simp [mandated]))
    have hd : Mand c r (pass r) := by simp [pass, hkind, hpost, Mand]
    split
    · apply mand_cons _ _ _ _ (fun h => mand_rej .size (mem_streamable hk _ (by decide)) (violates_size h) (by simp [mandated]))
      apply mand_cons _ _ _ _ (fun h => mand_rej .delivered (mem_streamable hk _ (by decide)) h (by simp [mandated]))
      have := mand_postChecks hk hne true _ hd
      rw [hst] at this
      exact this
    · have := mand_postChecks hk hne false _ hd
      rw [hst] at this
      exact this

/-! ### the model never serves a POST without dispatching it -/

/-- Every entry of a check table answers with a refusal. -/
def AllReject (g : List (Bool × Outcome)) : Prop := ∀ x ∈ g, ∃ st code allow, x.2 = .reject st code allow

theorem allReject_nil : AllReject [] := by intro x hx; cases hx

theorem allReject_cons (cnd : Bool) (st : Nat) (co : Option Int) (al : Option Bytes) {g : List (Bool × Outcome)}
    (h : AllReject g) : AllReject ((cnd, .reject st co al) :: g) := by
  intro x hx
  rcases List.mem_cons.mp hx with rfl | hx
  · exact ⟨st, co, al, rfl⟩
  · exact h x hx

theorem allReject_append {g g' : List (Bool × Outcome)} (h : AllReject g) (h' : AllReject g') : AllReject (g ++ g') := by
  intro x hx
  rcases List.mem_append.mp hx with hx | hx
  · exact h x hx
  · exact h' x hx

theorem allReject_flatMap {α : Type} (l : List α) (f : α → List (Bool × Outcome)) (h : ∀ a, AllReject (f a)) :
    AllReject (l.flatMap f) := by
  intro x hx
  obtain ⟨a, _, ha⟩ := List.mem_flatMap.mp hx
  exact h a x ha

theorem msgChecks_allReject (s : Bool) (v : Bytes) (m : Msg) : AllReject (msgChecks s v m) := by
  unfold msgChecks
  split
  · exact allReject_nil
  · repeat (first | exact allReject_nil | apply allReject_cons)

theorem postChecks_allReject (c : B64) (s br : Bool) (r : Req) : AllReject (postChecks c s br r) := by
  unfold postChecks
  refine allReject_append (allReject_append ?_ (allReject_flatMap _ _ (msgChecks_allReject s r.version))) ?_
  · repeat (first | exact allReject_nil | apply allReject_cons)
  · repeat (first | exact allReject_nil | apply allReject_cons)

theorem checks_allReject (c : B64) (r : Req) : AllReject (checks c r) := by
  unfold checks
  cases hk : r.kind <;> cases hm : r.method <;> simp only [reduceCtorEq, if_false, if_true]
  all_goals
    repeat (first
      | exact allReject_nil
      | exact postChecks_allReject c _ _ r
      | apply allReject_cons
      | apply allReject_append
      | split)

theorem firstViolation_mem_or {g : List (Bool × Outcome)} {d : Outcome} :
    firstViolation g d = d ∨ ∃ x ∈ g, firstViolation g d = x.2 := by
  induction g with
  | nil => exact Or.inl rfl
  | cons x xs ih =>
    obtain ⟨cnd, o⟩ := x
    rw [firstViolation_cons]
    split
    · exact Or.inr ⟨(cnd, o), List.mem_cons_self, rfl⟩
    · rcases ih with h | ⟨y, hy, h⟩
      · exact Or.inl h
      · exact Or.inr ⟨y, List.mem_cons_of_mem _ hy, h⟩

/-- A POST is refused or dispatched, never "served" (that is what a GET stream / a DELETE is). -/
theorem post_not_served (c : B64) (r : Req) (hpost : r.method = .post) (st : Nat) : verdict c r ≠ .served st := by
  rw [violation_status]
  intro h
  rcases firstViolation_mem_or (g := checks c r) (d := pass r) with hd | ⟨x, hx, hd⟩
  · rw [hd] at h
    unfold pass at h
    rw [hpost] at h
    cases hk : r.kind <;> simp [hk] at h
  · rw [hd] at h
    obtain ⟨a, b, e, hrej⟩ := checks_allReject c r x hx
    rw [hrej] at h
    cases h

/-- Under a version header ≥ 2026-07-28 the standard-header mirror is not skipped. -/
theorem version_new_not_skipped {v : Bytes} (h : bLe spec20260728 v = true) : standardHeadersSkipped v = false := by
  unfold standardHeadersSkipped
  have hv : v ≠ [] := by
    intro h0; rw [h0] at h; exact absurd h (by decide)
  rw [spec20260728_eq_min] at h
  unfold bLe at h
  simp only [Bool.not_eq_true'] at h
  simp [hv, h]

/-- **http: no false alarm.** For every abstract request (HTTP-framed, its requests carrying a method), every base64
codec and every implementation observation `ob` whose counters the model echoes: the monitors of a whole request raise no
clause on the observation the model allows. -/
theorem http_monitor_accepts_model (c : B64) (r : Req) (ins : List MsgIn) (ob : HttpObs)
    (hf : Framed r) (hne : MethodsNonEmpty r) :
    httpMonitorAll c r ins (modelObs r (verdict c r) ob) = none := by
  -- a dispatched request violates nothing
  have hclean : ∀ b, verdict c r = .dispatched b → violations c r = [] := by
    intro b hb
    rw [violations_nil_iff]
    by_cases hk : r.kind = .sse
    · exact sse_not_violates hk hb
    · exact pre_not_violates (dispatch_sound c r hk b hb) hk hf
  have h1 : httpMonitor c r (modelObs r (verdict c r) ob) = none := by
    cases hv : verdict c r with
    | reject st code allow =>
      unfold httpMonitor modelObs
      simp only [beq_self_eq_true, bne_self_eq_false, Bool.or_self, Bool.and_false, Bool.false_eq_true, if_false]
      split
      · rfl
      · rename_i hcar
        have hpost : r.method = .post := by simpa using hcar
        have hm := reject_mandated c r hpost hne
        rw [hv] at hm
        obtain ⟨p, hp, hvio, hmand⟩ := hm
        have hmem := (mem_violations c r p _).mpr ⟨hp, hvio, rfl⟩
        rw [if_neg (by decide)]
        split
        · rename_i hnil; rw [hnil] at hmem; cases hmem
        · rw [if_pos]
          rw [List.any_eq_true]
          exact ⟨_, hmem, by simpa using hmand⟩
    | served st =>
      unfold httpMonitor modelObs
      simp only [beq_self_eq_true, bne_self_eq_false, Bool.or_self, Bool.and_false, Bool.false_eq_true, if_false]
      split
      · rfl
      · rename_i hcar
        exact absurd hv (post_not_served c r (by simpa using hcar) st)
    | dispatched b =>
      have hd : (modelObs r (.dispatched b) ob).disp = 1 := by
        unfold modelObs; simp only; split
        · rfl
        · split <;> rfl
      unfold httpMonitor
      simp only [hd, beq_self_eq_true, Bool.not_true, Bool.false_and, Bool.false_eq_true, if_false, if_true,
        hclean b hv]
      split <;> rfl
  have h2 : handlerNameMonitor r (modelObs r (verdict c r) ob) = none := by
    unfold handlerNameMonitor
    split
    · rfl
    · rename_i k ct m hct hk
      split
      · rename_i hc
        exfalso
        simp only [Bool.and_eq_true, beq_iff_eq, bne_iff_ne, ne_eq, List.contains_iff_mem] at hc
        obtain ⟨⟨⟨⟨⟨⟨g1, g2⟩, g3⟩, g4⟩, g5⟩, g6⟩, g7⟩ := hc
        have hsole : soleMsg r = some m := by unfold soleMsg; rw [hct]
        cases hv : verdict c r with
        | reject st code allow => rw [hv] at g1; simp [modelObs] at g1
        | served st => rw [hv] at g1; simp [modelObs] at g1
        | dispatched b =>
          rw [hv] at g2 g7
          have hh : ob.handled = 1 := by
            unfold modelObs at g2; simp only at g2
            split at g2
            · exact g2
            · split at g2 <;> exact g2
          have hn : (modelObs r (.dispatched b) ob).names = [m.name] := by
            unfold modelObs
            simp only [hsole, hh, g3, beq_self_eq_true, Bool.and_self, if_true]
            split
            · rfl
            · split <;> rfl
          have hpre := dispatch_sound c r hk b hv
          obtain ⟨_, _, hname, _⟩ := hpre.mirror m hsole g3 (version_new_not_skipped g4)
          have hc : namedMethods.contains m.method = true := by
            rw [← specNamed_eq]; exact List.contains_iff_mem.mpr g5
          apply g7
          rw [hn, (hname hc).2.1]
      · rfl
    · rfl
  unfold httpMonitorAll
  rw [h1, h2]
  rfl

/-! ### non-vacuity, and why the two hypotheses are there -/

def wObs : HttpObs := { status := 200, code := none, allow := none, reached := 1, handled := 1, disp := 1, names := [wTool] }

theorem wReq_framed (k : HKind) : Framed (wReq k) := by
  intro _ d hd
  have : (wReq k).declared = some 100 := rfl
  rw [this] at hd
  cases hd; rfl

theorem wReq_methods (k : HKind) : MethodsNonEmpty (wReq k) := by
  intro m hm _
  have : reqMsgs (wReq k) = [wMsg] := rfl
  rw [this] at hm
  simp only [List.mem_singleton] at hm
  subst hm
  decide

/-- The hypotheses are satisfiable: a dispatched call (the model echoes the counters) and a refused one. -/
example : httpMonitorAll idCodec (wReq .stateless) [] (modelObs (wReq .stateless) (verdict idCodec (wReq .stateless)) wObs) = none :=
  http_monitor_accepts_model idCodec _ [] wObs (wReq_framed _) (wReq_methods _)
example : modelObs (wReq .stateless) (verdict idCodec (wReq .stateless)) wObs = wObs := by decide
example : modelObs (wReq .stateful) (verdict idCodec (wReq .stateful)) wObs =
    { status := 400, code := some (-32022), allow := none, reached := 0, handled := 0, disp := 0, names := [] } := by decide

/-- Without HTTP framing the monitor is stricter than the model: a body of 100 bytes delivered completely under a
declared length above the limit — which no HTTP peer can produce — is dispatched by the model (the code never looks at
the declared length: `body_limit_ignores_declared_length`) and named "body larger than the limit" by the monitor, whose
reading of the property counts a declared length above the limit as a violation.  Hence the hypothesis `Framed`. -/
def wUnframed : Req := { wReq .stateless with declared := some 5000000 }
example : ¬ Framed wUnframed := by
  intro h
  have := h rfl 5000000 rfl
  cases this
example : verdict idCodec wUnframed = .dispatched true ∧
    httpMonitor idCodec wUnframed (modelObs wUnframed (verdict idCodec wUnframed) wObs) = some (.dispatchSound .size) := by
  decide

/-- A "request" with an empty method (JSON-RPC decoding makes such a message a response) under 2026-07-28 with an empty
`Mcp-Method`: the code refuses the empty header, the monitor sees header = body.  Hence the hypothesis `MethodsNonEmpty`. -/
def wNoMethod : Req :=
  { wReq .stateless with mcpMethod := [], content := .msgs false [{ wMsg with method := [], tool := none }] }
example : verdict idCodec wNoMethod = rejRpc 400 codeHeaderMismatch ∧
    httpMonitor idCodec wNoMethod (modelObs wNoMethod (verdict idCodec wNoMethod) wObs) =
      some (.refusedClean 400 (some (-32020))) := by
  decide

/-! ## Defects found while proving the bridge (both repaired; the old machinery and a witness for each are kept) -/

/-- The model's observation as it was: for a request served without carrying a message (GET stream attached, DELETE) the
implementation's counters were echoed. -/
def modelObsOld (r : Req) (o : Outcome) (ob : HttpObs) : HttpObs :=
  match o with
  | .served st => { status := st, code := none, allow := none, reached := ob.reached, handled := ob.handled, disp := 0, names := ob.names }
  | _ => modelObs r o ob

/-- Witness: a GET on a known session of the stateful handler is served 200; if the implementation reported that a
middleware saw a message, the old model agreed (echo) and the monitor fired "refused request reached a middleware" — a
clause raised on an observation the model allowed.  The clause is right (nothing is handed over by a request that carries
no message); the model was repaired: a served request reaches nothing (`modelObs`). -/
def wGet : Req := { wReq .stateful with method := .get, sess := .known }
example : verdict idCodec wGet = .served 200 ∧
    httpMonitor idCodec wGet (modelObsOld wGet (verdict idCodec wGet) { wObs with disp := 0 }) = some (.reached 200) ∧
    httpMonitor idCodec wGet (modelObs wGet (verdict idCodec wGet) { wObs with disp := 0 }) = none := by
  decide

/-- The end-to-end monitor as it was: validity of the call did not include validity of the tool's annotations. -/
def e2eMonitorOld (c : B64) (nameOk : Bool) (p : Props) (a : Args) (impl : E2eObs) : Option Clause :=
  let valid := nameOk && argsValidB p a
  if valid && impl != .okSame then
    (if f6Like c p a (generateParamHeaders c p a) then some .e2eF6 else some .e2eAgree)
  else if impl == .notOk false then some .e2eReached
  else none

/-- Witness: two properties annotated with header names that differ only in case (`X` / `x`; the SDK's
`validateParamHeaderAnnotations` rejects such a tool) and the arguments `{"a":"1","b":"2"}`.  The client's second `Set`
overwrites the first, the server finds `1 ≠ 2`: the model refuses, and the old monitor reported `client_server_agree` on
the model's own observation.  The property speaks of tools "with valid x-mcp-header annotations": the monitor was
repaired (`toolValidB`), the clause is unchanged. -/
def wDupProps : Props := .cons [97] wString (.str [88]) .nil (.cons [98] wString (.str [120]) .nil .nil)
def wDupArgs : Args := .obj [([97], .str [49]), ([98], .str [50])]
example : validateAnnotations wDupProps = false ∧ e2eModel idCodec true wDupProps wDupArgs = .notOk true ∧
    e2eMonitorOld idCodec true wDupProps wDupArgs (e2eModel idCodec true wDupProps wDupArgs) = some .e2eAgree ∧
    e2eMonitor idCodec true wDupProps wDupArgs (e2eModel idCodec true wDupProps wDupArgs) = none := by
  decide

/-! ### the unsupported-version answer: no false alarm, with the model's exact observation -/

theorem dispatched_clean (c : B64) (r : Req) (hf : Framed r) {b : Bool} (hb : verdict c r = .dispatched b) :
    violations c r = [] := by
  rw [violations_nil_iff]
  by_cases hk : r.kind = .sse
  · exact sse_not_violates hk hb
  · exact pre_not_violates (dispatch_sound c r hk b hb) hk hf

theorem unsupportedNew_post {r : Req} (h : unsupportedNew r = true) : r.method = .post := by
  unfold unsupportedNew at h
  simp only [Bool.and_eq_true, beq_iff_eq] at h
  exact h.1.1

theorem uvMonitor_accepts_model (c : B64) (r : Req) (ob : HttpObs) (hf : Framed r) (hne : MethodsNonEmpty r) :
    uvMonitor c r (modelObsV r (verdict c r) ob) = none := by
  unfold uvMonitor
  split
  · rename_i hc
    exfalso
    simp only [Bool.and_eq_true, List.isEmpty_iff, Bool.not_eq_true', Bool.and_eq_false_iff, beq_eq_false_iff_ne, ne_eq] at hc
    obtain ⟨⟨hu, hv⟩, hn⟩ := hc
    have hpost := unsupportedNew_post hu
    cases hver : verdict c r with
    | dispatched b =>
      rw [hver] at hn
      simp only [modelObsV, hu, if_true] at hn
      by_cases hcont : uvAllowed.contains (ob.status, ob.code) = true
      · rw [if_pos hcont, if_pos hcont] at hn
        exact hn.elim (fun h => by rw [hcont] at h; cases h) (fun h => h trivial)
      · rw [if_neg hcont, if_neg hcont] at hn
        exact hn.elim (fun h => absurd h (by decide)) (fun h => h trivial)
    | reject st code allow =>
      have hm := reject_mandated c r hpost hne
      rw [hver] at hm
      obtain ⟨p, hp, hvio, _⟩ := hm
      have hmem := (mem_violations c r p _).mpr ⟨hp, hvio, rfl⟩
      rw [hv] at hmem
      cases hmem
    | served st => exact absurd hver (post_not_served c r hpost st)
  · rfl

/-- **http, all monitors incl. the unsupported-version clause**, on the model's exact observation `modelObsV`. -/
theorem http_monitorV_accepts_model (c : B64) (r : Req) (ins : List MsgIn) (ob : HttpObs)
    (hf : Framed r) (hne : MethodsNonEmpty r) :
    httpMonitorAllV c r ins (modelObsV r (verdict c r) ob) = none := by
  unfold httpMonitorAllV
  rw [uvMonitor_accepts_model c r ob hf hne]
  simp only [Option.orElse]
  cases hver : verdict c r with
  | dispatched b =>
    by_cases hu : unsupportedNew r = true
    · have hclean := dispatched_clean c r hf hver
      have hpost := unsupportedNew_post hu
      simp only [modelObsV, hu, if_true]
      have h1 : ∀ o : HttpObs, o.disp = 1 → httpMonitor c r o = none := by
        intro o hd
        unfold httpMonitor
        simp only [hd, beq_self_eq_true, Bool.not_true, Bool.false_and, Bool.false_eq_true, if_false, hpost, if_true, hclean]
      have h2 : ∀ o : HttpObs, o.handled = 0 → handlerNameMonitor r o = none := by
        intro o hh
        unfold handlerNameMonitor
        split
        · rfl
        · simp [hh]
        · rfl
      unfold httpMonitorAll
      rw [h1 _ rfl, h2 _ rfl]
      rfl
    · have := http_monitor_accepts_model c r ins ob hf hne
      rw [hver] at this
      simp only [modelObsV, hu, Bool.false_eq_true, if_false]
      exact this
  | reject st code allow =>
    have := http_monitor_accepts_model c r ins ob hf hne
    rw [hver] at this
    exact this
  | served st =>
    have := http_monitor_accepts_model c r ins ob hf hne
    rw [hver] at this
    exact this

/-! ### seq: one session over time (induction over operation sequences)

Unlike the other kinds the `seq` records of a case depend on each other: the monitor carries what an observer knows
(`SeqMon`), the model the client's cache.  The invariant relating the two is `SeqInv` (SeqProps.lean): every name the
observer has seen the server give the client since the table last changed lies in a cached page received since then, such
pages are what the server would answer now, and they are the most recent ones. -/

theorem badListed_clientPage {w : World} {m : SeqMon} (h : SeqInv w m) (hit : Bool) (k : Bytes) :
    badListed m hit (clientPage w k).1 = none := by
  unfold badListed
  split
  · rename_i hcnd
    simp only [Bool.and_eq_true, List.any_eq_true] at hcnd
    obtain ⟨_, t, ht, hb⟩ := hcnd
    have := (List.mem_filter.mp ht).2
    rw [h.bad] at hb
    rw [hb] at this
    cases this
  · rfl

theorem list_fetched_no_clause (c : B64) {w : World} {m : SeqMon} (h : SeqInv w m) (k next : Bytes) :
    (seqMonStep c m (.list k) (.listed false (clientPage w k).1 next)).2 = none := by
  simp only [seqMonStep]
  split
  · exact badListed_clientPage h false k
  · rw [badListed_clientPage h false k]
    simp [Option.orElse, staleHit]

theorem list_hit_no_clause (c : B64) {w : World} {m : SeqMon} (h : SeqInv w m) {k : Bytes} {pg : Page}
    (hf : w.cache.find? (fun pg => pg.key == k) = some pg) :
    (seqMonStep c m (.list k) (.listed true pg.tools pg.next)).2 = none := by
  simp only [seqMonStep, Bool.not_true, Bool.and_false, Bool.false_eq_true, if_false]
  have : badListed m true pg.tools = none := by simp [badListed]
  rw [this]
  simp only [Option.orElse]
  exact staleHit_cached h hf true

/-- On the model, a tool listed with invalid annotations raises neither `seqBadMirror` nor `seqBadCall`. -/
theorem badCall_model (c : B64) (hc : c.Lawful) {w : World} {m : SeqMon} (h : SeqInv w m) (n : Bytes) (a : Args) :
    badCall c m n a (callModel c w n a).1 (callModel c w n a).2 = none := by
  unfold badCall
  split
  · rename_i hcnd
    simp only [Bool.and_eq_true] at hcnd
    obtain ⟨⟨hp, hf⟩, hb⟩ := hcnd
    rw [h.bad] at hb
    rw [h.proto] at hp
    have hl := lookup_bad_none h hf hb
    have hcm : callModel c w n a = callWith c w none n a := by unfold callModel; rw [hl]
    rw [hcm, h.server]
    cases hs : toolDef w.server n with
    | none => simp [callWith, hp, hs]
    | some ps =>
      have h1 : (callWith c w none n a).1 = [] := by
        simp only [callWith, hp, if_true, hs]
        cases validateParamHeaders c ps a [] <;> rfl
      simp only [h1, List.isEmpty_nil, Bool.not_true, Bool.false_eq_true, if_false]
      split
      · rename_i hc2
        exfalso
        simp only [Bool.and_eq_true, List.isEmpty_iff, bne_iff_ne, ne_eq] at hc2
        obtain ⟨⟨⟨htv, hav⟩, hg⟩, hne⟩ := hc2
        apply hne
        have hacc := generated_params_accepted_prim c hc ps a ((toolValidB_iff ps).mp htv).2
          (argsValidDoc_prim ((argsValidB_iff ps a).mp hav))
        rw [hg] at hacc
        simp [callWith, hp, hs, hacc]
      · rfl
  · rfl

/-- No clause on the model's observation of any step taken from a state satisfying the invariant. -/
theorem seq_step_no_clause (c : B64) (hc : c.Lawful) {w : World} {m : SeqMon} (h : SeqInv w m) (now : Nat) (op : SeqOp) :
    (seqMonStep c m op (stepW c w now op).2).2 = none := by
  cases op with
  | setTool n p => rfl
  | delTool n => rfl
  | ttl v => rfl
  | adv => rfl
  | notified => rfl
  | setBad n => rfl
  | clearBad n => rfl
  | list k =>
    simp only [stepW]
    split
    · exact list_fetched_no_clause c h k _
    · split
      · rename_i pg hf
        split
        · exact list_hit_no_clause c h hf
        · exact list_fetched_no_clause c h k _
      · exact list_fetched_no_clause c h k _
  | listSend k =>
    have hsent : (seqMonStep c m (.listSend k) (sendList w k).2).2 = none := by
      simp only [sendList, seqMonStep]
    simp only [stepW]
    cases hw : w.pend with
    | some q => rfl
    | none =>
      simp only []
      split
      · exact hsent
      · split
        · rename_i pg hf
          split
          · simp only [seqMonStep]
            exact staleHit_cached h hf true
          · exact hsent
        · exact hsent
  | listRecv =>
    simp only [stepW]
    cases hw : w.pend with
    | none => rfl
    | some p =>
      have hmpend : m.pend = some (!p.cur, p.gen != w.gen) := by rw [h.pendEq, hw]; rfl
      simp only [recvList, seqMonStep, hmpend]
      cases hcur : p.cur with
      | false => rfl
      | true =>
        simp only [Bool.not_true]
        rw [h.pendCur p hw hcur]
        exact badListed_clientPage h false p.key
  | look n =>
    simp only [stepW, seqMonStep]
    split
    · rename_i hcnd
      simp only [Bool.and_eq_true, List.contains_iff_mem] at hcnd
      obtain ⟨d, hd, hsd⟩ := h.lookup hcnd.2
      rw [h.server, hsd, hd]
      simp
    · rfl
  | call n a =>
    simp only [stepW, seqMonStep]
    rw [badCall_model c hc h n a]
    simp only [Option.orElse, callClause]
    rw [h.server, h.proto]
    rcases callWith_quiet c w (clientLookup w n) n a with hq | ⟨code, hq⟩
    all_goals
      cases hs : toolDef w.server n with
      | none =>
        simp only [callModel, hq]
      | some ps =>
        simp only []
        cases hp : w.newProto with
        | false =>
          have : callModel c w n a = ([], .okSame) := legacy_call_accepted c w hp hs a
          simp [this]
        | true =>
          simp only [if_true]
          split
          · rename_i hcnd
            simp only [Bool.and_eq_true, List.contains_iff_mem] at hcnd
            obtain ⟨⟨hl, htv⟩, hav⟩ := hcnd
            obtain ⟨d, hd, hsd⟩ := h.lookup hl
            rw [hs] at hsd
            cases hsd
            have hcall : callModel c w n a = (generateParamHeaders c ps a, .okSame) := by
              unfold callModel
              rw [hd]
              exact callWith_own_def c hc w hp hs a ((toolValidB_iff ps).mp htv).2
                (argsValidDoc_prim ((argsValidB_iff ps a).mp hav))
            rw [hcall]
            simp only [bne_self_eq_false, Bool.false_eq_true, if_false]
            rw [gen_monitor_accepts_model c hc ps a _ (List.Perm.refl _)]
          · simp only [callModel, hq]

  | setToolB n p => rfl
  | delToolB n => rfl
  | callB n a =>
    simp only [stepW, seqMonStep]
    rw [h.serverB, h.proto]
    rcases callWith_quiet c { w with server := w.serverB } (toolDef w.serverB n) n a with hq | ⟨code, hq⟩
    all_goals
      cases hs : toolDef w.serverB n with
      | none =>
        simp only [callModelB, hs] at hq ⊢
        simp only [hq]
      | some ps =>
        simp only []
        cases hp : w.newProto with
        | false =>
          have : callModelB c w n a = ([], .okSame) := by
            unfold callModelB callWith
            simp [hp, hs]
          simp [this]
        | true =>
          simp only [if_true]
          split
          · rename_i hcnd
            simp only [Bool.and_eq_true] at hcnd
            obtain ⟨htv, hav⟩ := hcnd
            have hcall : callModelB c w n a = (generateParamHeaders c ps a, .okSame) :=
              other_server_call_agrees c hc w hp hs a ((toolValidB_iff ps).mp htv).2
                (argsValidDoc_prim ((argsValidB_iff ps a).mp hav))
            rw [hcall]
            simp only [bne_self_eq_false, Bool.false_eq_true, if_false]
            rw [gen_monitor_accepts_model c hc ps a _ (List.Perm.refl _)]
          · simp only [callModelB, hs] at hq ⊢
            simp only [hq]

/-- **seq.**  For every lawful codec, every configuration and EVERY list of operations with arbitrary clocks, the monitor
run in lockstep on the model's observations raises no clause. -/
theorem seq_run_no_clause (c : B64) (hc : c.Lawful) (ops : List (Nat × SeqOp)) :
    ∀ {w : World} {m : SeqMon}, SeqInv w m → (runSeq c w m ops).2.2 = [] := by
  induction ops with
  | nil => intro w m _; rfl
  | cons x rest ih =>
    intro w m h
    obtain ⟨now, op⟩ := x
    simp only [runSeq, seq_step_no_clause c hc h now op, List.nil_append]
    exact ih (seqInv_step c h now op)

theorem seq_monitor_accepts_model (c : B64) (hc : c.Lawful) (cfg : SeqCfg) (ops : List (Nat × SeqOp)) :
    (runSeq c (World.init cfg) (SeqMon.init cfg) ops).2.2 = [] :=
  seq_run_no_clause c hc ops (seqInv_init cfg)

end Preflight
