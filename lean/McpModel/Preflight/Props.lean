import McpModel.Preflight.Lemmas
/-!
# C12 — property theorems for the HTTP precondition gates and the header mirror (model: `Preflight.verdict`)

Every theorem quantifies over ALL abstract requests / header values / schemas / argument objects; base64 is
any codec with `dec (enc s) = some s`.  Constants and tables come from `Generated/PreflightGen.lean`
(regenerated from /repo on every run): a changed table re-opens these proofs.
-/
namespace Preflight
open Generated.Preflight

/-! ## accepts_table -/

def tJson : List Nat := [97, 112, 112, 108, 105, 99, 97, 116, 105, 111, 110, 47, 106, 115, 111, 110]   -- application/json
def tAppStar : List Nat := [97, 112, 112, 108, 105, 99, 97, 116, 105, 111, 110, 47, 42]               -- application/*
def tStream : List Nat := [116, 101, 120, 116, 47, 101, 118, 101, 110, 116, 45, 115, 116, 114, 101, 97, 109] -- text/event-stream
def tTextStar : List Nat := [116, 101, 120, 116, 47, 42]                                               -- text/*
def tAny : List Nat := [42, 47, 42]                                                                    -- */*

/-- The regenerated `switch` of `streamableAccepts` is exactly the documented token table. -/
theorem accept_flags_table (t : List Nat) :
    acceptFlags acceptTable t =
      (decide (t = tJson ∨ t = tAppStar ∨ t = tAny), decide (t = tStream ∨ t = tTextStar ∨ t = tAny)) := by
  unfold acceptFlags acceptTable
  simp only [List.find?_cons, List.find?_nil]
  by_cases h1 : t = tJson
  · subst h1; decide
  by_cases h2 : t = tAppStar
  · subst h2; decide
  by_cases h3 : t = tStream
  · subst h3; decide
  by_cases h4 : t = tTextStar
  · subst h4; decide
  by_cases h5 : t = tAny
  · subst h5; decide
  have e1 : ((tJson == t) = false) := by rw [beq_eq_false_iff_ne]; exact fun h => h1 h.symm
  have e2 : ((tAppStar == t) = false) := by rw [beq_eq_false_iff_ne]; exact fun h => h2 h.symm
  have e3 : ((tStream == t) = false) := by rw [beq_eq_false_iff_ne]; exact fun h => h3 h.symm
  have e4 : ((tTextStar == t) = false) := by rw [beq_eq_false_iff_ne]; exact fun h => h4 h.symm
  have e5 : ((tAny == t) = false) := by rw [beq_eq_false_iff_ne]; exact fun h => h5 h.symm
  simp only [tJson, tAppStar, tStream, tTextStar, tAny] at e1 e2 e3 e4 e5 h1 h2 h3 h4 h5
  simp [e1, e2, e3, e4, e5, h1, h2, h3, h4, h5, tJson, tAppStar, tStream, tTextStar, tAny]

/-- **accepts_table.** `streamableAccepts` reports `jsonOK` iff some normalised token of some `Accept` value is
`application/json`, `application/*` or `*/*`, and `streamOK` iff some token is `text/event-stream`, `text/*` or `*/*` —
for every list of header values. -/
theorem accepts_table (values : List Bytes) :
    streamableAccepts values =
      ((acceptTokens values).any (fun t => decide (t = tJson ∨ t = tAppStar ∨ t = tAny)),
       (acceptTokens values).any (fun t => decide (t = tStream ∨ t = tTextStar ∨ t = tAny))) := by
  unfold streamableAccepts streamableAcceptsWith acceptTokens
  have inner : ∀ (acc : Bool × Bool) (value : Bytes),
      (splitOn 0x2C value).foldl (fun acc raw => orPair acc (acceptFlags acceptTable (normToken raw))) acc =
        orPair acc (((splitOn 0x2C value).map normToken).any (fun t => (acceptFlags acceptTable t).1),
                    ((splitOn 0x2C value).map normToken).any (fun t => (acceptFlags acceptTable t).2)) := by
    intro acc value
    rw [foldl_orPair (fun raw => acceptFlags acceptTable (normToken raw))]
    simp [List.any_map, Function.comp_def]
  simp only [inner]
  rw [foldl_orPair (fun value =>
    (((splitOn 0x2C value).map normToken).any (fun t => (acceptFlags acceptTable t).1),
     ((splitOn 0x2C value).map normToken).any (fun t => (acceptFlags acceptTable t).2)))]
  simp only [orPair, Bool.false_or, List.any_flatMap, accept_flags_table]

example : streamableAccepts [[42, 47, 42]] = (true, true) := by decide

/-! ## decode_encode_header_value -/

theorem base64Prefix_ne_nil : base64Prefix ≠ [] := by decide

/-- **decode_encode_header_value.** For every primitive value (any string — empty, padded, non-ASCII, control
characters, sentinel-looking —, any boolean, any integer) and every base64 codec with `dec (enc s) = some s`:
`decodeHeaderValue (encodeHeaderValue v) = toString v`. -/
theorem decode_encode_header_value (c : B64) (hc : c.Lawful) (v : Prim) :
    decodeHeaderValue c (encodeHeaderValue c v) = some (primToString v) := by
  unfold encodeHeaderValue
  generalize primToString v = s
  simp only
  split
  · -- base64 form
    unfold decodeHeaderValue encodeBase64
    have hne : base64Prefix ++ c.enc s ++ base64Suffix ≠ [] := by
      intro h
      have := congrArg List.length h
      simp at this
      exact base64Prefix_ne_nil this.1
    rw [if_neg hne, List.append_assoc]
    simp only [cutPrefix_append, cutSuffix_append]
    exact hc s
  · next hreq =>
    unfold decodeHeaderValue
    split
    · next h => simp [h]
    · next hne =>
      split
      · next rest hrest =>
        split
        · next e he =>
          -- both cuts succeed: then `s` has the sentinel shape and would have required base64
          exfalso
          obtain ⟨hp, hr⟩ := cutPrefix_some hrest
          have hs := cutSuffix_some he
          have hs' : base64Suffix.isSuffixOf s = true := by
            rw [List.isSuffixOf_iff_suffix] at hs ⊢
            rw [hr] at hs
            exact hs.trans (List.drop_suffix _ _)
          apply hreq
          unfold requiresBase64
          cases s with
          | nil => exact absurd rfl hne
          | cons a as => simp [hp, hs']
        · rfl
      · rfl

/-! ## primitiveEqual_refl_on_safe_ints -/

theorem maxSafe_lt_pow2_53 : maxSafeInteger < (pow2_53 : Int) := by decide
theorem minSafe_gt_neg_pow2_53 : -(pow2_53 : Int) < minSafeInteger := by decide

/-- **primitiveEqual_refl_on_safe_ints.** Every integer in the interoperable range `[minSafeInteger, maxSafeInteger]`
(= ±(2^53−1), regenerated) equals its own decimal rendering under the server's float-based comparison. -/
theorem primitiveEqual_refl_on_safe_ints (n : Int) (h1 : minSafeInteger ≤ n) (h2 : n ≤ maxSafeInteger) :
    primitiveEqual (intToDec n) (.int n) = true := by
  have hlt : n.natAbs < pow2_53 := by
    have a := maxSafe_lt_pow2_53
    have b := minSafe_gt_neg_pow2_53
    omega
  unfold primitiveEqual parseFloat
  rw [decInt?_intToDec]
  simp only [hlt, if_true]
  unfold safeIntOfF64
  simp only [Nat.mod_one, Nat.div_one]
  by_cases hn : n < 0
  · have : (-(n.natAbs : Int)) = n := by omega
    simp [hn, this]
    rw [if_neg (by omega)]
    simp
  · have : ((n.natAbs : Nat) : Int) = n := by omega
    simp [hn, this]
    rw [if_neg (by omega)]
    simp

example : primitiveEqual (intToDec 9007199254740991) (.int 9007199254740991) = true :=
  primitiveEqual_refl_on_safe_ints _ (by decide) (by decide)

/-! ## client_server_agree -/

/-- The documented mirror requirement for one `x-mcp-header` binding: an absent or `null` argument has no header;
a present argument is a primitive whose canonical string the (decoded) header equals — the empty string may travel as
an empty or absent header (fix F06). -/
def Mirrors (c : B64) (a : Args) (h : ParamHdrs) (b : Binding) : Prop :=
  match a.lookup b.path with
  | none => h.get b.header = []
  | some .null => h.get b.header = []
  | some v => ∃ pr, unmarshalPrimitive v = some pr ∧
      ((h.get b.header = [] ∧ pr = .str []) ∨
       (h.get b.header ≠ [] ∧ ∃ d, decodeHeaderValue c (h.get b.header) = some d ∧ primitiveEqual d pr = true))

theorem checkBinding_none_iff (c : B64) (a : Args) (h : ParamHdrs) (b : Binding) :
    checkBinding c a h b = none ↔ Mirrors c a h b := by
  unfold checkBinding Mirrors
  cases hl : a.lookup b.path with
  | none => simp
  | some v =>
    cases v with
    | null => simp
    | _ =>
      all_goals
        simp only
        by_cases hh : h.get b.header = []
        · simp [hh]
        · simp only [hh, if_false, false_and, false_or, ne_eq, not_false_eq_true, true_and]
          cases hd : decodeHeaderValue c (h.get b.header) with
          | none => simp
          | some d =>
            generalize unmarshalPrimitive _ = u
            cases u with
            | none => simp
            | some pr => simp

/-- A schema-valid value for an annotated (primitive-typed) parameter: `null`, any string, any boolean, or an integer
literal of magnitude ≤ 2^53−1. -/
inductive ValidArg : JV → Prop where
  | null : ValidArg .null
  | str (s : Bytes) : ValidArg (.str s)
  | bool (b : Bool) : ValidArg (.bool b)
  | int (neg : Bool) (mant : Nat) (h : (mant : Int) ≤ maxSafeInteger) : ValidArg (.num { neg := neg, mant := mant, exp10 := 0 })

theorem validArg_prim {v : JV} (hv : ValidArg v) : v = .null ∨ ∃ pr, unmarshalPrimitive v = some pr := by
  cases hv with
  | null => exact Or.inl rfl
  | str s => exact Or.inr ⟨_, rfl⟩
  | bool b => exact Or.inr ⟨_, rfl⟩
  | int neg mant h =>
    right
    have hlt : mant < pow2_53 := by
      have := maxSafe_lt_pow2_53; omega
    have hmin : minSafeInteger = -maxSafeInteger := by decide
    simp only [unmarshalPrimitive, f64OfDec]
    by_cases h0 : mant = 0
    · subst h0
      refine ⟨.int 0, ?_⟩
      cases neg <;> simp [safeIntOfF64] <;> decide
    · have e1 : ¬ ((0 : Int) > 400) := by omega
      have e2 : ¬ ((0 : Int) + (numDigits mant : Int) < -400) := by omega
      simp only [h0, if_false, e1, e2, ge_iff_le, Int.le_refl, if_true, Int.toNat_zero, Nat.pow_zero, Nat.mul_one, hlt]
      cases neg
      · refine ⟨.int mant, ?_⟩
        simp [safeIntOfF64]
        omega
      · refine ⟨.int (-(mant : Int)), ?_⟩
        simp [safeIntOfF64]
        omega

/-- Arguments valid for the tool: every bound parameter that is present is a `ValidArg`. -/
def ArgsValid (p : Props) (a : Args) : Prop :=
  ∀ b ∈ bindings p, ∀ v, a.lookup b.path = some v → ValidArg v

/-- Every bound parameter that is present is `null` or decodes (`unmarshalPrimitive`) to a string, a boolean or an integer
of the interoperable range — what `ArgsValid` guarantees, for any spelling of the number (`5`, `5.0`, `5e0`). -/
def ArgsPrim (p : Props) (a : Args) : Prop :=
  ∀ b ∈ bindings p, ∀ v, a.lookup b.path = some v → v = .null ∨ ∃ pr, unmarshalPrimitive v = some pr

theorem argsValid_prim {p : Props} {a : Args} (h : ArgsValid p a) : ArgsPrim p a :=
  fun b hb v hv => validArg_prim (h b hb v hv)

theorem genValue_checks (c : B64) (hc : c.Lawful) (p : Props) (a : Args)
    (ha : ArgsPrim p a) (h : ParamHdrs)
    (hget : ∀ b ∈ bindings p, h.get b.header = (match genValue c a b with | some v => v | none => []))
    (b : Binding) (hb : b ∈ bindings p) : checkBinding c a h b = none := by
  rw [checkBinding_none_iff]
  unfold Mirrors
  have hg := hget b hb
  unfold genValue at hg
  cases hl : a.lookup b.path with
  | none => simpa [hl] using hg
  | some v =>
    rcases ha b hb v hl with hnull | ⟨pr, hpr⟩
    · subst hnull; simpa [hl] using hg
    · have hv' : v ≠ .null := by
        intro h0; subst h0; simp [unmarshalPrimitive] at hpr
      have hg' : h.get b.header = encodeHeaderValue c pr := by
        cases v <;> simp_all
      cases v with
      | null => exact absurd rfl hv'
      | _ =>
        all_goals
          refine ⟨pr, hpr, ?_⟩
          by_cases he : h.get b.header = []
          · left
            exact ⟨he, encode_nil c (hg' ▸ he)⟩
          · right
            refine ⟨he, primToString pr, ?_, ?_⟩
            · rw [hg']; exact decode_encode_header_value c hc pr
            · cases pr with
              | str s => simp [primitiveEqual, primToString]
              | bool x => simp [primitiveEqual, primToString]
              | int n =>
                obtain ⟨r1, r2⟩ := unmarshalPrimitive_int_range hpr
                exact primitiveEqual_refl_on_safe_ints n r1 r2

/-- The param headers the client generates pass the server's `validateParamHeaders` (arguments: any spelling). -/
theorem generated_params_accepted_prim (c : B64) (hc : c.Lawful) (p : Props) (a : Args)
    (hv : validateAnnotations p = true) (ha : ArgsPrim p a) :
    validateParamHeaders c p a (generateParamHeaders c p a) = none := by
  unfold validateParamHeaders
  cases a with
  | bad => rfl
  | missing =>
    simp only [generateParamHeaders]
    rw [List.findSome?_eq_none_iff]
    intro b hb
    exact genValue_checks c hc p .missing ha [] (by
      intro b' _
      simp [genValue, Args.lookup, ParamHdrs.get]) b hb
  | obj f =>
    simp only [generateParamHeaders]
    rw [List.findSome?_eq_none_iff]
    intro b hb
    refine genValue_checks c hc p (.obj f) ha _ ?_ b hb
    intro b' hb'
    rw [fold_get_mem c (.obj f) (bindings p) [] (bindings_distinct p hv) b' hb']
    cases genValue c (.obj f) b' <;> simp [ParamHdrs.get]

/-- The param headers the client generates pass the server's `validateParamHeaders`. -/
theorem generated_params_accepted (c : B64) (hc : c.Lawful) (p : Props) (a : Args)
    (hv : validateAnnotations p = true) (ha : ArgsValid p a) :
    validateParamHeaders c p a (generateParamHeaders c p a) = none :=
  generated_params_accepted_prim c hc p a hv (argsValid_prim ha)

/-- **client_server_agree.** For every base64 codec with `dec (enc s) = some s`, every protocol version, every tool
whose annotations pass `validateParamHeaderAnnotations` (annotations at any depth), and every request whose method is
non-empty, whose name (for the three named methods) is extractable and non-empty, and whose bound arguments are
`null`, strings (empty, padded, non-ASCII, control characters, sentinel-looking, "true", digit strings …), booleans
or integers with |n| ≤ 2^53−1: the headers produced by `setStandardHeaders`/`generateParamHeaders` make
`validateMcpHeaders` accept the same body.  (The client holds the tool definition the server has, or the server does
not know the tool.)  No `v ≠ ""` hypothesis: this is the REPAIRED behaviour (fix F06). -/
theorem client_server_agree (c : B64) (hc : c.Lawful) (pv : Bytes) (m : Msg) (p : Props)
    (hm : m.method ≠ [])
    (hname : namedMethods.contains m.method = true → m.nameOk = true ∧ m.name ≠ [])
    (htool : m.tool = some p ∨ m.tool = none)
    (hv : validateAnnotations p = true) (ha : ArgsValid p m.args) :
    validateMcpHeaders c pv
      ((setStandardHeaders c pv m (some p)).1.getD [])
      ((setStandardHeaders c pv m (some p)).2.1.getD [])
      (setStandardHeaders c pv m (some p)).2.2 m = none := by
  unfold validateMcpHeaders setStandardHeaders
  by_cases hs : standardHeadersSkipped pv = true
  · simp [hs]
  · by_cases hr : m.isReq = true
    · simp only [hs, hr, Bool.not_true, Bool.false_eq_true, if_false, Option.getD_some]
      rw [if_neg hm]
      simp only [ne_eq, not_true_eq_false, if_false]
      by_cases hn : namedMethods.contains m.method = true
      · obtain ⟨h1, h2⟩ := hname hn
        simp only [hn, h1, Bool.true_and, if_true, Option.getD_some, Bool.not_true, Bool.false_eq_true, if_false,
          not_true_eq_false, decide_false, Bool.and_false, h2, decide_eq_true_eq]
        split
        · next hcall =>
          rcases htool with ht | ht
          · simp [ht, generated_params_accepted c hc p m.args hv ha]
          · simp [ht]
        · rfl
      · have hn' : namedMethods.contains m.method = false := by simpa using hn
        simp only [hn', Bool.false_and, Bool.false_eq_true, if_false]
        split
        · next hcall =>
          rcases htool with ht | ht
          · simp [ht, generated_params_accepted c hc p m.args hv ha]
          · simp [ht]
        · rfl
    · simp [hs, hr]

/-! ## The bindings are the annotated properties, each under its own path (any depth, any width) -/

/-- **binding_path_resolves.** Every binding the walk produces designates, read from the root of the schema, a
property whose `x-mcp-header` is that (non-empty) header name — for schemas of any depth and width. -/
theorem binding_path_resolves (p : Props) (hd : NamesDistinct p) (b : Binding) (hb : b ∈ bindings p) :
    b.header ≠ [] ∧ ∃ ty, propAt p b.path = some (ty, .str b.header) := by
  rw [bindings_eq, List.mem_filterMap] at hb
  obtain ⟨a, ha, hab⟩ := hb
  obtain ⟨π, h1, _, h3, _⟩ := annotated_resolves p hd [] a ha
  unfold toBinding at hab
  cases hx : a.xh with
  | str s =>
    simp only [hx] at hab
    by_cases hs : s = []
    · simp [hs] at hab
    · simp only [hs, if_false, Option.some.injEq] at hab
      subst hab
      refine ⟨hs, a.ty, ?_⟩
      simp only [List.nil_append] at h1
      rw [h1, h3, hx]
  | absent => simp [hx] at hab
  | null => simp [hx] at hab
  | other => simp [hx] at hab

/-- **bindings_complete.** Every property that a path designates and that is annotated with a non-empty header name
has its binding, under exactly that path. -/
theorem bindings_complete (p : Props) (π : List Bytes) (ty h : Bytes)
    (hp : propAt p π = some (ty, .str h)) (hh : h ≠ []) : ({ path := π, header := h } : Binding) ∈ bindings p := by
  rw [bindings_eq, List.mem_filterMap]
  refine ⟨{ path := π, ty := ty, xh := .str h }, ?_, by simp [toBinding, hh]⟩
  simpa using annotated_complete p [] π ty (.str h) hp (by simp)

/-- **binding_paths_nodup.** No two bindings share a path: sibling (and cousin) annotations never alias, however deep
they sit. -/
theorem binding_paths_nodup (p : Props) (hd : NamesDistinct p) : ((bindings p).map (·.path)).Nodup := by
  rw [bindings_eq]
  exact List.Nodup.sublist (filterMap_paths_sublist _) (annotated_paths_nodup p hd [])


def wString : Bytes := [115, 116, 114, 105, 110, 103]            -- "string"

/-- The shape `filter.scope.target.{region,tenant}`: two annotated siblings four levels below `arguments`. -/
def wDeep : Props :=
  .cons [102] [111] .absent
    (.cons [115] [111] .absent
      (.cons [116] [111] .absent
        (.cons [114] wString (.str [82]) .nil (.cons [110] wString (.str [84]) .nil .nil)) .nil) .nil) .nil

example : NamesDistinct wDeep := (namesDistinctB_iff wDeep).mp (by decide)
example : bindings wDeep =
    [{ path := [[102], [115], [116], [114]], header := [82] }, { path := [[102], [115], [116], [110]], header := [84] }] := by
  decide
example : propAt wDeep [[102], [115], [116], [110]] = some (wString, .str [84]) := by decide

/-! ## violation_status — the gate chain as an ordered table -/

/-- First violated check ↦ its answer; no violated check ↦ `d`. -/
def firstViolation (g : List (Bool × Outcome)) (d : Outcome) : Outcome :=
  match g.find? (fun x => x.1) with
  | some x => x.2
  | none => d

@[simp] theorem firstViolation_nil (d : Outcome) : firstViolation [] d = d := rfl

@[simp] theorem firstViolation_cons (c : Bool) (o : Outcome) (t : List (Bool × Outcome)) (d : Outcome) :
    firstViolation ((c, o) :: t) d = if c = true then o else firstViolation t d := by
  cases c <;> simp [firstViolation, List.find?_cons]

theorem firstViolation_append (a b : List (Bool × Outcome)) (d : Outcome) :
    firstViolation (a ++ b) d = firstViolation a (firstViolation b d) := by
  induction a with
  | nil => rfl
  | cons x xs ih =>
    obtain ⟨c, o⟩ := x
    simp only [List.cons_append, firstViolation_cons, ih]

/-- SEP-2575 as the property states it: the per-request-metadata rules (stateful servers refuse; the version header is
required, `_meta` carries a version, and the two are equal) apply to a request iff the version header names a protocol
≥ 2026-07-28 or the request carries a `_meta` protocol version.  Nothing else about the body enters — in particular
not whether the body is a JSON array (`readBatch`'s `isBatch`). -/
def metaApplies (pv mv : Bytes) : Bool := bLe protocolVersion20260728 pv || mv != []

/-- **meta_gate_ignores_batch.** The condition under which `servePOST` runs the SEP-2575 block for a request (regenerated
from the source, with `isBatch` in scope) is `metaApplies`: it does not depend on the body being an array. -/
theorem meta_gate_ignores_batch (isBatch : Bool) (pv mv : Bytes) :
    perRequestMetaApplies isBatch pv mv = metaApplies pv mv := by
  cases isBatch <;> rfl

/-- The checks of one message in the loop of `servePOST`, in the code's order, with the mandated answers. -/
def msgChecks (stateless : Bool) (version : Bytes) (m : Msg) : List (Bool × Outcome) :=
  if !m.isReq then [] else
  let pv := effVersion version
  let app := metaApplies pv m.metaVersion
  [ (decide (m.check = .notHandled) && methodNotFoundAs404 pv && m.isCall, rejRpc 404 codeMethodNotFound),
    (decide (m.check ≠ .ok), rej 400),
    (app && !stateless && decide (m.method ≠ methodDiscover), rejRpc 400 codeUnsupportedProtocolVersion),
    (app && decide (version = []), rejRpc 400 codeHeaderMismatch),
    (app && decide (m.metaVersion = []), rejRpc 400 codeInvalidParams),
    (app && decide (version ≠ m.metaVersion), rejRpc 400 codeHeaderMismatch) ]

theorem msgGate_table (stateless isBatch : Bool) (version : Bytes) (m : Msg) (d : Outcome) :
    firstViolation (msgChecks stateless version m) d =
      (match msgGate stateless isBatch version m with | some o => o | none => d) := by
  unfold msgChecks msgGate
  simp only [meta_gate_ignores_batch]
  by_cases hr : m.isReq = true
  · simp only [hr, Bool.not_true, Bool.false_eq_true, if_false, firstViolation_cons, firstViolation_nil]
    cases hc : m.check with
    | notHandled => simp [hc]; split <;> simp_all
    | invalid => simp [hc]
    | ok =>
      simp only [hc, reduceCtorEq, decide_false, Bool.false_and, Bool.false_eq_true, if_false, ne_eq, not_true_eq_false]
      by_cases happ : metaApplies (effVersion version) m.metaVersion = true
      · simp only [happ, Bool.true_and, if_true]
        by_cases h1 : stateless = false ∧ ¬m.method = methodDiscover
        · simp [h1]
        · by_cases h2 : version = []
          · simp [h1, h2]
          · by_cases h3 : m.metaVersion = []
            · simp [h1, h2, h3]
            · by_cases h4 : version = m.metaVersion <;> simp [h1, h2, h3, h4]
      · simp [happ]
  · simp [hr]

theorem firstViolation_flatMap (stateless isBatch : Bool) (version : Bytes) (l : List Msg) (d : Outcome) :
    firstViolation (l.flatMap (msgChecks stateless version)) d =
      (match l.findSome? (msgGate stateless isBatch version) with | some o => o | none => d) := by
  induction l with
  | nil => rfl
  | cons m ms ih =>
    rw [List.flatMap_cons, firstViolation_append, msgGate_table stateless isBatch, ih, List.findSome?_cons]
    cases msgGate stateless isBatch version m <;> rfl

def contentMsgs (r : Req) : List Msg := match r.content with | .msgs _ l => l | .malformed => []
def contentBatch (r : Req) : Bool := match r.content with | .msgs b _ => b | .malformed => false
def contentMalformed (r : Req) : Bool := match r.content with | .malformed => true | _ => false

def headerMismatch (c : B64) (r : Req) : Bool :=
  match soleMsg r with
  | some m => (validateMcpHeaders c r.version r.mcpMethod r.mcpName r.paramHdrs m).isSome
  | none => false

def hasCalls (r : Req) : Bool := (contentMsgs r).any (fun m => m.isReq && m.isCall)

/-- `servePOST`: its checks in the code's order. -/
def postChecks (c : B64) (stateless bodyRead : Bool) (r : Req) : List (Bool × Outcome) :=
  [ (r.lastEventId, rej 400),
    (!bodyRead && tooLarge r, rej 413),
    (!bodyRead && r.readFails, rej 400),
    (decide (r.bodyLen = 0), rej 400),
    (contentMalformed r, rej 400),
    (batchGateRejects (contentBatch r) (effVersion r.version), rej 400) ] ++
  (contentMsgs r).flatMap (msgChecks stateless r.version) ++
  [ (headerMismatch c r, rejRpc 400 codeHeaderMismatch) ]

theorem servePOST_table (c : B64) (stateless bodyRead : Bool) (r : Req) :
    servePOST c stateless bodyRead r = firstViolation (postChecks c stateless bodyRead r) (.dispatched (hasCalls r)) := by
  unfold servePOST postChecks
  simp only [List.cons_append, List.nil_append, firstViolation_cons, firstViolation_append, firstViolation_nil]
  split
  · rfl
  have hbg : (if bodyRead = true then none else bodyGate r) =
      (if (!bodyRead && tooLarge r) = true then some (rej 413)
       else if (!bodyRead && r.readFails) = true then some (rej 400) else none) := by
    cases bodyRead <;> simp [bodyGate]
  rw [hbg]
  by_cases h1 : (!bodyRead && tooLarge r) = true
  · simp only [h1, if_true]
  by_cases h2 : (!bodyRead && r.readFails) = true
  · simp [h1, h2]
  simp only [h1, h2, Bool.false_eq_true, if_false]
  split
  · next h => simp [h]
  next h =>
  simp only [h, decide_false, Bool.false_eq_true, if_false]
  cases hc : r.content with
  | malformed => simp [contentMalformed, hc]
  | msgs isBatch l =>
    simp only [contentMalformed, contentBatch, contentMsgs, hc, Bool.false_eq_true, if_false]
    split
    · rfl
    rw [firstViolation_flatMap stateless isBatch]
    cases hf : l.findSome? (msgGate stateless isBatch r.version) with
    | some o => rfl
    | none =>
      simp only [headerMismatch, hasCalls, contentMsgs, hc]
      cases soleMsg r with
      | none => simp
      | some m => simp only; split <;> next hx => simp [hx]

theorem gateThen_bodyGate (r : Req) (k : Outcome) :
    gateThen (bodyGate r) k = if tooLarge r = true then rej 413 else if r.readFails = true then rej 400 else k := by
  unfold gateThen bodyGate
  split <;> rename_i h <;> split at h <;> simp_all

def acceptsBoth (r : Req) : Bool := (streamableAccepts r.accept).1 && (streamableAccepts r.accept).2

/-- **The table.** Every check of the handler of kind `r.kind`, in the code's order, each with the answer the code
mandates when it is the first one violated: 403 (loopback listener with a non-loopback Host; cross-origin),
400 (unsupported version header), 405 + `Allow`, 415, 400 (Accept), 404 (unknown session), 413, 400 (Last-Event-ID,
empty, malformed, batch), per message 404 with -32601 · 400 · 400 with -32022 · 400 with -32020 · 400 with -32602 ·
400 with -32020, and 400 with -32020 for an `Mcp-Method` / `Mcp-Name` / `Mcp-Param-*` mismatch. -/
def checks (c : B64) (r : Req) : List (Bool × Outcome) :=
  match r.kind with
  | .sse =>
    [ (hostGateRejects r, rej 403),
      (decide (r.method = .post) && decide (r.baseMedia ≠ appJson), rej 415) ] ++
    (match r.method with
     | .post =>
       [ (decide (r.sess = .none), rej 400),
         (decide (r.sess = .unknown), rej 404),
         (r.readFails, rej 400),
         ((soleMsg r).isNone, rej 400),
         ((match soleMsg r with | some m => m.isReq && decide (m.check ≠ .ok) | none => false), rej 400) ]
     | .get => []
     | _ => [ (true, .reject 405 none (some allowGetPost)) ])
  | k =>
    [ (hostGateRejects r, rej 403),
      (r.originRejects, rej 403),
      (versionGateRejects r.version, rej 400) ] ++
    (if k = .stateless then
      [ (decide (r.method ≠ .post), .reject 405 none (some allowPost)),
        (decide (r.baseMedia ≠ appJson), rej 415),
        (!acceptsBoth r, rej 400),
        (tooLarge r, rej 413),
        (r.readFails, rej 400) ] ++ postChecks c true true r
     else match r.method with
      | .get =>
        [ (!(streamableAccepts r.accept).2, rej 400),
          (decide (r.sess = .none), rej 400),
          (decide (r.sess = .unknown), rej 404) ]
      | .delete =>
        [ (decide (r.sess = .none), rej 400),
          (decide (r.sess = .unknown), rej 404) ]
      | .post =>
        [ (decide (r.baseMedia ≠ appJson), rej 415),
          (!acceptsBoth r, rej 400),
          (decide (r.sess = .unknown), rej 404) ] ++
        (if r.sess = .none ∧ r.noSessionIds = true then
          [ (tooLarge r, rej 413), (r.readFails, rej 400) ] ++ postChecks c false true r
         else postChecks c false false r)
      | .other => [ (true, .reject 405 none (some allowGetPostDelete)) ])

/-- What the handler does when no check is violated. -/
def pass (r : Req) : Outcome :=
  match r.kind, r.method with
  | .sse, .post => .dispatched false
  | .sse, _ => .served 200
  | .stateful, .get => .served 200
  | .stateful, .delete => .served 204
  | _, _ => .dispatched (hasCalls r)

/-- **violation_status.** For every abstract request and every handler kind, the answer is that of the FIRST violated
check in the code's order (table `checks`), and only a request violating none is dispatched / served. -/
theorem violation_status (c : B64) (r : Req) : verdict c r = firstViolation (checks c r) (pass r) := by
  unfold verdict checks pass
  cases hk : r.kind with
  | sse =>
    simp only [serveSSE, List.cons_append, List.nil_append, firstViolation_cons]
    split
    · rfl
    cases hm : r.method with
    | post =>
      simp only [decide_true, Bool.true_and, true_and, decide_eq_true_eq, firstViolation_cons, firstViolation_nil]
      split
      · rfl
      cases hs : r.sess with
      | none => simp
      | unknown => simp
      | known =>
        cases soleMsg r with
        | none => simp
        | some m => simp
    | get => simp
    | delete => simp
    | other => simp
  | stateless =>
    simp only [serveStreamable, hk, serveStateless, bodyGate, servePOST_table, List.cons_append, List.nil_append,
      firstViolation_cons, firstViolation_append, if_true, acceptsBoth]
    repeat' split
    all_goals simp_all
  | stateful =>
    simp only [serveStreamable, hk, serveStateful, gateThen_bodyGate, servePOST_table, List.cons_append, List.nil_append,
      firstViolation_cons, firstViolation_append, acceptsBoth, reduceCtorEq, if_false]
    cases hm : r.method <;> cases hs : r.sess <;> simp only [firstViolation_cons, firstViolation_nil, firstViolation_append]
    all_goals repeat' split
    all_goals simp_all

/-! ## dispatch_sound -/

theorem firstViolation_pass {g : List (Bool × Outcome)} {d o : Outcome}
    (hne : ∀ x ∈ g, x.2 ≠ o) (h : firstViolation g d = o) : (∀ x ∈ g, x.1 = false) ∧ d = o := by
  induction g with
  | nil => exact ⟨by simp, h⟩
  | cons x xs ih =>
    obtain ⟨c, o'⟩ := x
    rw [firstViolation_cons] at h
    cases c with
    | true =>
      simp at h
      exact absurd h (hne (true, o') (by simp))
    | false =>
      simp at h
      obtain ⟨h1, h2⟩ := ih (fun y hy => hne y (List.mem_cons_of_mem _ hy)) h
      refine ⟨?_, h2⟩
      intro y hy
      rcases List.mem_cons.mp hy with rfl | hy
      · rfl
      · exact h1 y hy

/-- No entry of a check table answers "dispatched". -/
def NoDispatch (g : List (Bool × Outcome)) : Prop := ∀ x ∈ g, ∀ b, x.2 ≠ .dispatched b

theorem noDispatch_nil : NoDispatch [] := by intro x hx; cases hx

theorem noDispatch_cons (c : Bool) (st : Nat) (co : Option Int) (al : Option Bytes) {g : List (Bool × Outcome)}
    (h : NoDispatch g) : NoDispatch ((c, .reject st co al) :: g) := by
  intro x hx b
  rcases List.mem_cons.mp hx with rfl | hx
  · simp
  · exact h x hx b

theorem noDispatch_append {g g' : List (Bool × Outcome)} (h : NoDispatch g) (h' : NoDispatch g') :
    NoDispatch (g ++ g') := by
  intro x hx b
  rcases List.mem_append.mp hx with hx | hx
  · exact h x hx b
  · exact h' x hx b

theorem noDispatch_flatMap {α : Type} (l : List α) (f : α → List (Bool × Outcome)) (h : ∀ a, NoDispatch (f a)) :
    NoDispatch (l.flatMap f) := by
  intro x hx b
  obtain ⟨a, _, ha⟩ := List.mem_flatMap.mp hx
  exact h a x ha b

theorem msgChecks_noDispatch (s : Bool) (v : Bytes) (m : Msg) : NoDispatch (msgChecks s v m) := by
  unfold msgChecks
  split
  · exact noDispatch_nil
  · repeat (first | exact noDispatch_nil | apply noDispatch_cons)

theorem postChecks_noDispatch (c : B64) (s br : Bool) (r : Req) : NoDispatch (postChecks c s br r) := by
  unfold postChecks
  refine noDispatch_append (noDispatch_append ?_ (noDispatch_flatMap _ _ (msgChecks_noDispatch s r.version))) ?_
  · repeat (first | exact noDispatch_nil | apply noDispatch_cons)
  · repeat (first | exact noDispatch_nil | apply noDispatch_cons)

theorem checks_noDispatch (c : B64) (r : Req) : NoDispatch (checks c r) := by
  unfold checks
  cases hk : r.kind <;> cases hm : r.method <;> simp only [reduceCtorEq, if_false, if_true]
  all_goals
    repeat (first
      | exact noDispatch_nil
      | exact postChecks_noDispatch c _ _ r
      | apply noDispatch_cons
      | apply noDispatch_append
      | split)

theorem checks_reject (c : B64) (r : Req) (b : Bool) : ∀ x ∈ checks c r, x.2 ≠ .dispatched b :=
  fun x hx => checks_noDispatch c r x hx b

/-- Every documented precondition of a message-carrying request to the streamable handler. -/
structure Pre (c : B64) (r : Req) : Prop where
  /-- DNS rebinding: the listener is not loopback, or `Host` is loopback, or the protection is disabled. -/
  host : r.protectionDisabled = true ∨ r.hasLocalAddr = false ∨ r.listenerLoopback = false ∨ r.hostLoopback = true
  origin : r.originRejects = false
  /-- a declared version is supported, or is ≥ 2026-07-28 (then it is checked against `_meta`, below) -/
  version : r.version = [] ∨ r.version ∈ supportedProtocolVersions ∨ bLt r.version protocolVersion20260728 = false
  method : r.method = .post
  media : r.baseMedia = appJson
  accept : (streamableAccepts r.accept).1 = true ∧ (streamableAccepts r.accept).2 = true
  session : r.kind = .stateful → r.sess ≠ .unknown
  noLastEventId : r.lastEventId = false
  /-- no more than the limit is delivered — whether or not a length was declared — and the body is not empty -/
  size : tooLarge r = false ∧ r.bodyLen ≠ 0
  /-- the body was delivered completely (the reader ended with EOF, not with an error) -/
  delivered : r.readFails = false
  wellFormed : contentMalformed r = false
  noBatch : batchGateRejects (contentBatch r) (effVersion r.version) = false
  perMessage : ∀ m ∈ contentMsgs r, m.isReq = true →
    m.check = .ok ∧
    (metaApplies (effVersion r.version) m.metaVersion = true →
      (r.kind = .stateless ∨ m.method = methodDiscover) ∧ r.version ≠ [] ∧ m.metaVersion ≠ [] ∧ r.version = m.metaVersion)
  /-- under 2026-07-28 the standard headers mirror the (single) request -/
  mirror : ∀ m, soleMsg r = some m → m.isReq = true → standardHeadersSkipped r.version = false →
    r.mcpMethod = m.method ∧ r.mcpMethod ≠ [] ∧
    (namedMethods.contains m.method = true → m.nameOk = true ∧ r.mcpName = m.name ∧ r.mcpName ≠ []) ∧
    (m.method = methodCallTool → ∀ p, m.tool = some p → m.args ≠ .bad →
      ∀ b ∈ bindings p, Mirrors c m.args r.paramHdrs b)

theorem msgChecks_false {s : Bool} {v : Bytes} {m : Msg} (hr : m.isReq = true)
    (h : ∀ x ∈ msgChecks s v m, x.1 = false) :
    m.check = .ok ∧
    (metaApplies (effVersion v) m.metaVersion = true →
      (s = true ∨ m.method = methodDiscover) ∧ v ≠ [] ∧ m.metaVersion ≠ [] ∧ v = m.metaVersion) := by
  unfold msgChecks at h
  simp only [hr, Bool.not_true, Bool.false_eq_true, if_false, List.forall_mem_cons, List.not_mem_nil,
    false_imp_iff, implies_true, and_true] at h
  obtain ⟨_, h2, h3, h4, h5, h6⟩ := h
  have hok : m.check = .ok := by simpa using h2
  refine ⟨hok, ?_⟩
  intro happ
  simp only [happ, Bool.true_and] at h3 h4 h5 h6
  refine ⟨?_, by simpa using h4, by simpa using h5, by simpa using h6⟩
  cases s with
  | true => exact Or.inl rfl
  | false => right; simpa using h3

theorem validateMcpHeaders_none {c : B64} {pv mm mn : Bytes} {ph : ParamHdrs} {m : Msg}
    (h : validateMcpHeaders c pv mm mn ph m = none) (hr : m.isReq = true) (hs : standardHeadersSkipped pv = false) :
    mm = m.method ∧ mm ≠ [] ∧
    (namedMethods.contains m.method = true → m.nameOk = true ∧ mn = m.name ∧ mn ≠ []) ∧
    (m.method = methodCallTool → ∀ p, m.tool = some p → m.args ≠ .bad →
      ∀ b ∈ bindings p, Mirrors c m.args ph b) := by
  unfold validateMcpHeaders at h
  simp only [hs, Bool.false_eq_true, if_false, hr, Bool.not_true] at h
  split at h
  · simp at h
  next h1 =>
  split at h
  · simp at h
  next h2 =>
  have h2' : mm = m.method := by simpa using h2
  split at h
  · simp at h
  next h3 =>
  split at h
  · simp at h
  next h4 =>
  split at h
  · simp at h
  next h5 =>
  refine ⟨h2', h1, ?_, ?_⟩
  · intro hn
    simp only [hn, Bool.true_and, decide_eq_true_eq, Bool.not_eq_true', ne_eq] at h3 h4 h5
    refine ⟨by simpa using h4, by simpa using h5, h3⟩
  · intro hcall p hp hbad b hb
    simp only [hcall, if_true, hp] at h
    have hv : validateParamHeaders c p m.args ph = none := by
      cases hx : validateParamHeaders c p m.args ph with
      | none => rfl
      | some e => simp [hx] at h
    unfold validateParamHeaders at hv
    cases ha : m.args with
    | bad => exact absurd ha hbad
    | missing =>
      simp only [ha] at hv
      exact (checkBinding_none_iff c _ ph b).mp ((List.findSome?_eq_none_iff.mp hv) b hb)
    | obj f =>
      simp only [ha] at hv
      exact (checkBinding_none_iff c _ ph b).mp ((List.findSome?_eq_none_iff.mp hv) b hb)

theorem postChecks_false {c : B64} {s br : Bool} {r : Req} (h : ∀ x ∈ postChecks c s br r, x.1 = false) :
    r.lastEventId = false ∧ (!br && tooLarge r) = false ∧ (!br && r.readFails) = false ∧ r.bodyLen ≠ 0 ∧
    contentMalformed r = false ∧
    batchGateRejects (contentBatch r) (effVersion r.version) = false ∧
    (∀ m ∈ contentMsgs r, ∀ x ∈ msgChecks s r.version m, x.1 = false) ∧ headerMismatch c r = false := by
  unfold postChecks at h
  simp only [List.forall_mem_append, List.forall_mem_cons, List.not_mem_nil, false_imp_iff, implies_true, and_true,
    List.mem_flatMap, forall_exists_index, and_imp] at h
  obtain ⟨⟨⟨h1, h2, h2', h3, h4, h5⟩, h6⟩, h7⟩ := h
  exact ⟨h1, h2, h2', by simpa using h3, h4, h5, fun m hm x hx => h6 x m hm hx, h7⟩

/-- The body part of the stateful POST table (session-bound / new session, or the ephemeral session of a server that
issues no session ids): nothing violated means within the limit, delivered completely, and the rest of `postChecks`. -/
theorem statefulBody_false {c : B64} {r : Req}
    (gp : ∀ x ∈ (if r.sess = .none ∧ r.noSessionIds = true then
            [ (tooLarge r, rej 413), (r.readFails, rej 400) ] ++ postChecks c false true r
          else postChecks c false false r), x.1 = false) :
    tooLarge r = false ∧ r.readFails = false ∧ ∃ br, ∀ x ∈ postChecks c false br r, x.1 = false := by
  split at gp
  · simp only [List.cons_append, List.nil_append, List.forall_mem_cons] at gp
    exact ⟨gp.1, gp.2.1, true, gp.2.2⟩
  · obtain ⟨_, p2, p2', _⟩ := postChecks_false gp
    exact ⟨by simpa using p2, by simpa using p2', false, gp⟩

theorem versionGate_false {v : Bytes} (h : versionGateRejects v = false) :
    v = [] ∨ v ∈ supportedProtocolVersions ∨ bLt v protocolVersion20260728 = false := by
  unfold versionGateRejects at h
  by_cases h1 : v = []
  · exact Or.inl h1
  · by_cases h2 : v ∈ supportedProtocolVersions
    · exact Or.inr (Or.inl h2)
    · right; right
      have h3 : ¬v ∈ supportedProtocolVersions → bLt v protocolVersion20260728 = false := by simpa [h1] using h
      exact h3 h2

theorem hostGate_false {r : Req} (h : hostGateRejects r = false) :
    r.protectionDisabled = true ∨ r.hasLocalAddr = false ∨ r.listenerLoopback = false ∨ r.hostLoopback = true := by
  unfold hostGateRejects at h
  generalize r.protectionDisabled = a at *
  generalize r.hasLocalAddr = b at *
  generalize r.listenerLoopback = c at *
  generalize r.hostLoopback = d at *
  cases a <;> cases b <;> cases c <;> cases d <;> simp_all

theorem mirror_of_headerMismatch {c : B64} {r : Req} (h : headerMismatch c r = false) :
    ∀ m, soleMsg r = some m → m.isReq = true → standardHeadersSkipped r.version = false →
    r.mcpMethod = m.method ∧ r.mcpMethod ≠ [] ∧
    (namedMethods.contains m.method = true → m.nameOk = true ∧ r.mcpName = m.name ∧ r.mcpName ≠ []) ∧
    (m.method = methodCallTool → ∀ p, m.tool = some p → m.args ≠ .bad →
      ∀ b ∈ bindings p, Mirrors c m.args r.paramHdrs b) := by
  intro m hm hr hs
  unfold headerMismatch at h
  simp only [hm] at h
  have hv : validateMcpHeaders c r.version r.mcpMethod r.mcpName r.paramHdrs m = none := by
    cases hx : validateMcpHeaders c r.version r.mcpMethod r.mcpName r.paramHdrs m with
    | none => rfl
    | some e => simp [hx] at h
  exact validateMcpHeaders_none hv hr hs

/-- **dispatch_sound.** If the streamable handler (stateless or stateful) hands the messages of a request to the MCP
server, the request meets every documented precondition — for every abstract request, every base64 codec. -/
theorem dispatch_sound (c : B64) (r : Req) (hk : r.kind ≠ .sse) (b : Bool)
    (h : verdict c r = .dispatched b) : Pre c r := by
  rw [violation_status] at h
  obtain ⟨hall, hpass⟩ := firstViolation_pass (checks_reject c r b) h
  unfold checks at hall
  unfold pass at hpass
  cases hkind : r.kind with
  | sse => exact absurd hkind hk
  | stateless =>
    simp only [hkind, if_true, List.forall_mem_append, List.forall_mem_cons, List.not_mem_nil, false_imp_iff,
      implies_true, and_true] at hall
    obtain ⟨⟨g1, g2, g3⟩, ⟨g4, g5, g6, g7, g7'⟩, gp⟩ := hall
    obtain ⟨p1, _, _, p3, p4, p5, p6, p7⟩ := postChecks_false gp
    have hacc : acceptsBoth r = true := by simpa using g6
    unfold acceptsBoth at hacc
    simp only [Bool.and_eq_true] at hacc
    exact {
      host := hostGate_false g1, origin := g2, version := versionGate_false g3,
      method := (by simpa using g4), media := (by simpa using g5), accept := hacc,
      session := (by intro hs; rw [hkind] at hs; cases hs),
      noLastEventId := p1, size := ⟨g7, p3⟩, delivered := g7', wellFormed := p4, noBatch := p5,
      perMessage := (by
        intro m hm hr
        have := msgChecks_false hr (p6 m hm)
        exact ⟨this.1, fun happ => by
          obtain ⟨q1, q2, q3, q4⟩ := this.2 happ
          exact ⟨Or.inl hkind, q2, q3, q4⟩⟩),
      mirror := mirror_of_headerMismatch p7 }
  | stateful =>
    cases hm : r.method with
    | get => simp [hkind, hm] at hpass
    | delete => simp [hkind, hm] at hpass
    | other =>
      simp only [hkind, hm, reduceCtorEq, if_false, List.forall_mem_append, List.forall_mem_cons] at hall
      simp at hall
    | post =>
      simp only [hkind, hm, reduceCtorEq, if_false, List.forall_mem_append, List.forall_mem_cons, List.not_mem_nil,
        false_imp_iff, implies_true, and_true] at hall
      obtain ⟨⟨g1, g2, g3⟩, ⟨g5, g6, g8⟩, gp⟩ := hall
      obtain ⟨p2, p2', br, gp'⟩ := statefulBody_false gp
      obtain ⟨p1, _, _, p3, p4, p5, p6, p7⟩ := postChecks_false gp'
      have hacc : acceptsBoth r = true := by simpa using g6
      unfold acceptsBoth at hacc
      simp only [Bool.and_eq_true] at hacc
      exact {
        host := hostGate_false g1, origin := g2, version := versionGate_false g3,
        method := hm, media := (by simpa using g5), accept := hacc,
        session := (by intro _; simpa using g8),
        noLastEventId := p1, size := ⟨p2, p3⟩, delivered := p2',
        wellFormed := p4, noBatch := p5,
        perMessage := (by
          intro m hm' hr
          have := msgChecks_false hr (p6 m hm')
          exact ⟨this.1, fun happ => by
            obtain ⟨q1, q2, q3, q4⟩ := this.2 happ
            refine ⟨?_, q2, q3, q4⟩
            rcases q1 with q1 | q1
            · cases q1
            · exact Or.inr q1⟩),
        mirror := mirror_of_headerMismatch p7 }

/-- **dispatch_sound (SSE handler).** A message is queued only for a POST with media type `application/json`, a known
session, a loopback-consistent Host, and a body that is one message passing `checkRequest`. -/
theorem dispatch_sound_sse (c : B64) (r : Req) (hk : r.kind = .sse) (b : Bool)
    (h : verdict c r = .dispatched b) :
    (r.protectionDisabled = true ∨ r.hasLocalAddr = false ∨ r.listenerLoopback = false ∨ r.hostLoopback = true) ∧
    r.method = .post ∧ r.baseMedia = appJson ∧ r.sess = .known ∧ r.readFails = false ∧
    ∃ m, soleMsg r = some m ∧ (m.isReq = true → m.check = .ok) := by
  rw [violation_status] at h
  obtain ⟨hall, hpass⟩ := firstViolation_pass (checks_reject c r b) h
  unfold checks at hall
  unfold pass at hpass
  cases hm : r.method with
  | get => simp [hk, hm] at hpass
  | delete => simp [hk, hm] at hpass
  | other => simp [hk, hm] at hall
  | post =>
    simp only [hk, hm, List.forall_mem_append, List.forall_mem_cons, List.not_mem_nil, false_imp_iff, implies_true,
      and_true, decide_true, Bool.true_and] at hall
    obtain ⟨⟨g1, g2⟩, g3, g4, g4', g5, g6⟩ := hall
    refine ⟨hostGate_false g1, rfl, by simpa using g2, ?_, g4', ?_⟩
    · cases hs : r.sess <;> simp_all
    · cases hsm : soleMsg r with
      | none => simp [hsm] at g5
      | some m =>
        refine ⟨m, rfl, ?_⟩
        intro hr
        simpa [hsm, hr] using g6

/-! ## stateful_rejects_new_protocol -/

/-- **stateful_rejects_new_protocol.** A stateful streamable handler never hands over a request that carries the
2026-07-28 per-request metadata (version header ≥ 2026-07-28, or a `_meta` protocol version) unless it is
`server/discover` — whatever the other headers and the rest of the body are. -/
theorem stateful_rejects_new_protocol (c : B64) (r : Req) (hk : r.kind = .stateful)
    (m : Msg) (hm : m ∈ contentMsgs r) (hr : m.isReq = true)
    (hnew : metaApplies (effVersion r.version) m.metaVersion = true)
    (hd : m.method ≠ methodDiscover) (b : Bool) : verdict c r ≠ .dispatched b := by
  intro h
  have hp := dispatch_sound c r (by rw [hk]; simp) b h
  obtain ⟨_, h2⟩ := hp.perMessage m hm hr
  obtain ⟨h3, _⟩ := h2 hnew
  rcases h3 with h3 | h3
  · rw [hk] at h3; cases h3
  · exact hd h3

/-! ## The SEP-2575 gates do not depend on the body being a JSON array

`readBatch` yields the messages of the body and the flag `isBatch` (the body is a JSON array, of 1 or more elements).
The flag is consulted twice in `servePOST`: by the batch gate (arrays are refused when the header version is
≥ 2025-06-18) and by the standard-header mirror (`!isBatch && len(incoming) == 1`).  Everything the per-message loop
decides — in particular that a request carrying a `_meta` protocol version needs an equal `Mcp-Protocol-Version` header —
is the same for a message inside an array (header absent or naming a version under which arrays are legal) as for the
message alone. -/

/-- **msgGate_ignores_batch.** The per-message gates of `servePOST` answer the same whether or not the body is an array. -/
theorem msgGate_ignores_batch (s b : Bool) (v : Bytes) (m : Msg) : msgGate s b v m = msgGate s false v m := by
  unfold msgGate
  simp only [meta_gate_ignores_batch]

/-- **batched_meta_needs_matching_header.** Whatever the shape of the body (a single message, or an array of any
length: no hypothesis on `contentBatch r`) and whatever else the request carries: if some request of the body has a
`_meta` protocol version and the `Mcp-Protocol-Version` header is absent or differs from it, nothing is handed to the
server — by the stateless and by the stateful handler. -/
theorem batched_meta_needs_matching_header (c : B64) (r : Req) (hk : r.kind ≠ .sse)
    (m : Msg) (hm : m ∈ contentMsgs r) (hr : m.isReq = true) (hmv : m.metaVersion ≠ [])
    (hne : r.version ≠ m.metaVersion) (b : Bool) : verdict c r ≠ .dispatched b := by
  intro h
  have hp := dispatch_sound c r hk b h
  obtain ⟨_, h2⟩ := hp.perMessage m hm hr
  have happ : metaApplies (effVersion r.version) m.metaVersion = true := by simp [metaApplies, hmv]
  exact hne (h2 happ).2.2.2

/-- **meta_mismatch_answer.** The answer of the (stateless) per-message gate to a well-formed request whose `_meta`
protocol version is not mirrored by the header (absent, or different): 400 with `-32020` — inside an array or not. -/
theorem meta_mismatch_answer (b : Bool) (v : Bytes) (m : Msg) (hr : m.isReq = true) (hc : m.check = .ok)
    (hmv : m.metaVersion ≠ []) (hne : v ≠ m.metaVersion) :
    msgGate true b v m = some (rejRpc 400 codeHeaderMismatch) := by
  rw [msgGate_ignores_batch]
  unfold msgGate
  have happ : perRequestMetaApplies false (effVersion v) m.metaVersion = true := by
    rw [meta_gate_ignores_batch]; simp [metaApplies, hmv]
  simp only [hr, Bool.not_true, Bool.false_eq_true, if_false, hc, happ, if_true, Bool.false_and, hmv]
  by_cases hv : v = []
  · simp [hv]
  · simp [hv, hne]

/-- **stateful_meta_answer.** The answer of a stateful handler's per-message gate to a well-formed request under the
per-request metadata rules (other than `server/discover`): 400 with `-32022` — inside an array or not. -/
theorem stateful_meta_answer (b : Bool) (v : Bytes) (m : Msg) (hr : m.isReq = true) (hc : m.check = .ok)
    (happ : metaApplies (effVersion v) m.metaVersion = true) (hd : m.method ≠ methodDiscover) :
    msgGate false b v m = some (rejRpc 400 codeUnsupportedProtocolVersion) := by
  rw [msgGate_ignores_batch]
  unfold msgGate
  have happ' : perRequestMetaApplies false (effVersion v) m.metaVersion = true := by
    rw [meta_gate_ignores_batch]; exact happ
  simp [hr, hc, happ', hd]

/-- Go's `<` on strings is transitive. -/
theorem bLt_trans : ∀ (a b c : Bytes), bLt a b = true → bLt b c = true → bLt a c = true
  | [], [], _, h, _ => by simp [bLt] at h
  | [], _ :: _, [], _, h => by simp [bLt] at h
  | [], _ :: _, _ :: _, _, _ => by simp [bLt]
  | _ :: _, [], _, h, _ => by simp [bLt] at h
  | _ :: _, _ :: _, [], _, h => by simp [bLt] at h
  | x :: xs, y :: ys, z :: zs, h1, h2 => by
    simp only [bLt, Bool.or_eq_true, decide_eq_true_eq, Bool.and_eq_true, beq_iff_eq] at h1 h2 ⊢
    rcases h1 with h1 | ⟨h1, h1'⟩ <;> rcases h2 with h2 | ⟨h2, h2'⟩
    · left; omega
    · left; omega
    · left; omega
    · right; exact ⟨by omega, bLt_trans xs ys zs h1' h2'⟩

/-- Where an array body is legal (header absent, or a version before 2025-06-18) the standard-header mirror
(`Mcp-Method` / `Mcp-Name` / `Mcp-Param-*`) is not in force. -/
theorem legal_batch_skips_standard_headers (v : Bytes) (hb : batchGateRejects true (effVersion v) = false) :
    standardHeadersSkipped v = true := by
  unfold standardHeadersSkipped
  by_cases hv : v = []
  · simp [hv]
  · have he : effVersion v = v := by simp [effVersion, hv]
    rw [he] at hb
    have h1 : bLt v protocolVersion20250618 = true := by simpa [batchGateRejects, bLe] using hb
    have h2 : bLt protocolVersion20250618 minVersionForStandardHeaders = true := by decide
    simp [bLt_trans _ _ _ h1 h2]

theorem validateMcpHeaders_skipped (c : B64) {pv : Bytes} (mm mn : Bytes) (ph : ParamHdrs) (m : Msg)
    (hs : standardHeadersSkipped pv = true) : validateMcpHeaders c pv mm mn ph m = none := by
  simp [validateMcpHeaders, hs]

theorem servePOST_array_transparent (c : B64) (s br : Bool) (r : Req) (l : List Msg)
    (hb : batchGateRejects true (effVersion r.version) = false) :
    servePOST c s br { r with content := .msgs true l } = servePOST c s br { r with content := .msgs false l } := by
  have hs := legal_batch_skips_standard_headers r.version hb
  have hb' : batchGateRejects false (effVersion r.version) = false := by simp [batchGateRejects]
  have hg : msgGate s true r.version = msgGate s false r.version := by
    funext m; exact msgGate_ignores_batch s true r.version m
  have hbg : ∀ x, bodyGate { r with content := x } = bodyGate r := fun _ => rfl
  unfold servePOST
  simp only [hbg, hb, hb', hg, soleMsg, Bool.false_eq_true, if_false]
  rcases l with _ | ⟨m, _ | ⟨m', t⟩⟩ <;> simp only [validateMcpHeaders_skipped c _ _ _ _ hs]

/-- Two requests that differ at most in what `servePOST` looks at beyond the outer gates get the same answer from the
streamable handlers as soon as `servePOST` answers them alike. -/
theorem verdict_congr_servePOST (c : B64) (r r1 : Req) (hk' : r.kind ≠ .sse)
    (hk : r1.kind = r.kind) (ho : r1.originRejects = r.originRejects) (hv : r1.version = r.version)
    (hm : r1.method = r.method) (hbm : r1.baseMedia = r.baseMedia) (hacc : r1.accept = r.accept)
    (hs : r1.sess = r.sess) (hn : r1.noSessionIds = r.noSessionIds)
    (hh : hostGateRejects r1 = hostGateRejects r) (hb : bodyGate r1 = bodyGate r)
    (hp : ∀ s br, servePOST c s br r1 = servePOST c s br r) : verdict c r1 = verdict c r := by
  unfold verdict
  rw [hk]
  cases hkind : r.kind with
  | sse => exact absurd hkind hk'
  | stateless =>
    simp only [serveStreamable, serveStateless, hk, ho, hv, hm, hbm, hacc, hh, hb, hp, hkind, if_true]
  | stateful =>
    simp only [serveStreamable, serveStateful, hk, ho, hv, hm, hbm, hacc, hs, hn, hh, hb, hp, hkind, reduceCtorEq, if_false]

/-- **array_wrapping_transparent.** Where an array body is legal — the version header is absent or names a protocol
before 2025-06-18 — the streamable handlers (stateless, stateful, ephemeral sessions) answer a body `[m₁, …, mₙ]`
exactly as they would answer the same messages not wrapped in an array: wrapping cannot take a request past the
header / `_meta` version agreement, nor past any other gate. (For n = 1 the right-hand side is the single message.) -/
theorem array_wrapping_transparent (c : B64) (r : Req) (hk : r.kind ≠ .sse) (l : List Msg)
    (hb : batchGateRejects true (effVersion r.version) = false) :
    verdict c { r with content := .msgs true l } = verdict c { r with content := .msgs false l } :=
  verdict_congr_servePOST c { r with content := .msgs false l } { r with content := .msgs true l } hk
    rfl rfl rfl rfl rfl rfl rfl rfl rfl rfl (fun s br => servePOST_array_transparent c s br r l hb)

/-! ## Body delivery: the limit counts delivered bytes; a declared length plays no role -/

/-- **body_limit_ignores_declared_length.** The answer of every handler is the same whatever `Content-Length` the
request declares, and whether it declares one at all (chunked upload, HTTP/2 stream): the size gate is
`http.MaxBytesReader`, which counts the bytes that arrive. -/
theorem body_limit_ignores_declared_length (c : B64) (r : Req) (d : Option Nat) :
    verdict c { r with declared := d } = verdict c r := rfl

/-- **oversize_never_dispatched.** A body of which more than the (effective, positive) limit is delivered is never handed
to the MCP server by the streamable handler (stateless, stateful with or without a session) — for every declared
length including none, every header combination and every content. -/
theorem oversize_never_dispatched (c : B64) (r : Req) (hk : r.kind ≠ .sse) (h : tooLarge r = true) (b : Bool) :
    verdict c r ≠ .dispatched b := by
  intro hd
  have := (dispatch_sound c r hk b hd).size.1
  rw [h] at this
  cases this

/-- **aborted_never_dispatched.** A body whose delivery ends with an error (aborted upload, broken chunk framing,
fewer bytes than declared) is never handed to the MCP server — by any of the three handlers. -/
theorem aborted_never_dispatched (c : B64) (r : Req) (h : r.readFails = true) (b : Bool) :
    verdict c r ≠ .dispatched b := by
  intro hd
  by_cases hk : r.kind = .sse
  · have := (dispatch_sound_sse c r hk b hd).2.2.2.2.1
    rw [h] at this
    cases this
  · have := (dispatch_sound c r hk b hd).delivered
    rw [h] at this
    cases this

/-- **oversize_status.** When the body gate is the first one violated — i.e. the request passes the host, origin,
version, method, media-type, Accept, session and Last-Event-ID gates — an oversize body is answered 413, declared
length or not. -/
theorem oversize_status (c : B64) (r : Req) (hk : r.kind ≠ .sse)
    (hhost : hostGateRejects r = false) (horigin : r.originRejects = false)
    (hver : versionGateRejects r.version = false) (hmeth : r.method = .post) (hmedia : r.baseMedia = appJson)
    (hacc : acceptsBoth r = true) (hsess : r.sess ≠ .unknown) (hle : r.lastEventId = false)
    (h : tooLarge r = true) : verdict c r = rej 413 := by
  unfold acceptsBoth at hacc
  unfold verdict
  cases hkind : r.kind with
  | sse => exact absurd hkind hk
  | stateless =>
    simp [serveStreamable, hhost, horigin, hver, hkind, serveStateless, hmeth, hmedia, hacc, bodyGate, h]
  | stateful =>
    cases hs : r.sess with
    | unknown => exact absurd hs hsess
    | none =>
      simp [serveStreamable, hhost, horigin, hver, hkind, serveStateful, hmeth, hmedia, hacc, hs, servePOST, hle,
        bodyGate, gateThen, h]
    | known =>
      simp [serveStreamable, hhost, horigin, hver, hkind, serveStateful, hmeth, hmedia, hacc, hs, servePOST, hle,
        bodyGate, h]

/-! ## the SDK client's request is dispatched (corollary; also the non-vacuity witness of `dispatch_sound`) -/

/-- `"application/json, text/event-stream"`: the `Accept` value `streamableClientConn.Write` sets. -/
def clientAccept : Bytes :=
  [97, 112, 112, 108, 105, 99, 97, 116, 105, 111, 110, 47, 106, 115, 111, 110, 44, 32,
   116, 101, 120, 116, 47, 101, 118, 101, 110, 116, 45, 115, 116, 114, 101, 97, 109]

theorem clientAccept_ok : streamableAccepts [clientAccept] = (true, true) := by decide

/-- **client_request_dispatched.** What `streamableClientConn.Write` produces under 2026-07-28 for a call with valid
arguments — POST, `application/json`, `Accept: application/json, text/event-stream`, version header = `_meta` version,
the standard headers of `setStandardHeaders` — is handed to the server by the stateless handler whenever the transport
facts hold (Host consistent with the listener, origin accepted, body within the limit and delivered completely —
with or without a declared length —, method known). -/
theorem client_request_dispatched (c : B64) (hc : c.Lawful) (r : Req) (m : Msg) (p : Props)
    (hkind : r.kind = .stateless) (hhost : hostGateRejects r = false) (horigin : r.originRejects = false)
    (hmeth : r.method = .post) (hmedia : r.baseMedia = appJson) (haccept : r.accept = [clientAccept])
    (hver : r.version = protocolVersion20260728) (hle : r.lastEventId = false)
    (hsize : tooLarge r = false) (hread : r.readFails = false) (hlen : r.bodyLen ≠ 0)
    (hbody : r.content = .msgs false [m]) (hreq : m.isReq = true) (hcheck : m.check = .ok)
    (hmeta : m.metaVersion = r.version)
    (hm : m.method ≠ [])
    (hname : namedMethods.contains m.method = true → m.nameOk = true ∧ m.name ≠ [])
    (htool : m.tool = some p ∨ m.tool = none)
    (hv : validateAnnotations p = true) (ha : ArgsValid p m.args)
    (h1 : r.mcpMethod = (setStandardHeaders c r.version m (some p)).1.getD [])
    (h2 : r.mcpName = (setStandardHeaders c r.version m (some p)).2.1.getD [])
    (h3 : r.paramHdrs = (setStandardHeaders c r.version m (some p)).2.2) :
    verdict c r = .dispatched m.isCall := by
  have hagree := client_server_agree c hc r.version m p hm hname htool hv ha
  rw [← h1, ← h2, ← h3] at hagree
  have hsole : soleMsg r = some m := by simp [soleMsg, hbody]
  have hvg : versionGateRejects r.version = false := by rw [hver]; decide
  have hgate : msgGate true false r.version m = none := by
    unfold msgGate
    simp only [hreq, Bool.not_true, Bool.false_eq_true, if_false, hcheck, hmeta]
    rw [hver]
    have e1 : perRequestMetaApplies false (effVersion protocolVersion20260728) protocolVersion20260728 = true := by decide
    have e2 : protocolVersion20260728 ≠ [] := by decide
    simp [e1, e2]
  unfold verdict
  simp only [hkind, serveStreamable, hhost, horigin, hvg, Bool.false_eq_true, if_false, if_true, serveStateless, hmeth,
    ne_eq, not_true_eq_false, hmedia, haccept, clientAccept_ok, Bool.and_self, Bool.not_true, bodyGate, hsize, hread,
    servePOST, hle,
    Bool.and_false, hlen, hbody, batchGateRejects, Bool.false_and, List.findSome?_cons, hgate, List.findSome?_nil, hsole,
    hagree, List.any_cons, hreq, Bool.true_and, List.any_nil, Bool.or_false]

/-! ## `params` is decoded with exact member names (a foreign peer's case-variant and repeated members)

The gates compare the headers with what `RawMsg.decode` reads off the member list of `params`: the value of the member
called exactly `name` / `uri` (the last one if repeated), the `arguments` / `_meta` members called exactly so.  These are
the members the dispatcher (the same decoder, `internal/json`) hands to the handler.  A member whose name differs from
them — in particular one that differs only in case, which `encoding/json` would accept as the same member — has no
influence on any gate. -/

/-- A member with another name (e.g. a case variant) does not change the decoded string field — wherever it stands. -/
theorem strFieldFrom_ignores_other_key (key k' : Bytes) (v : JV) (hne : k' ≠ key) (ms₁ ms₂ : List (Bytes × JV))
    (cur : Bytes) : strFieldFrom key cur (ms₁ ++ (k', v) :: ms₂) = strFieldFrom key cur (ms₁ ++ ms₂) := by
  induction ms₁ generalizing cur with
  | nil => simp [strFieldFrom, hne]
  | cons x xs ih =>
    obtain ⟨k, w⟩ := x
    simp only [List.cons_append, strFieldFrom]
    split
    · cases w <;> simp only [ih]
    · exact ih cur

/-- A member with another name does not change the decoded map field (`arguments`, `_meta`). -/
theorem mapFieldFrom_ignores_other_key (key k' : Bytes) (v : JV) (hne : k' ≠ key) (ms₁ ms₂ : List (Bytes × JV))
    (cur : Option (List (Bytes × JV))) :
    mapFieldFrom key cur (ms₁ ++ (k', v) :: ms₂) = mapFieldFrom key cur (ms₁ ++ ms₂) := by
  induction ms₁ generalizing cur with
  | nil => simp [mapFieldFrom, hne]
  | cons x xs ih =>
    obtain ⟨k, w⟩ := x
    simp only [List.cons_append, mapFieldFrom]
    split
    · cases w <;> simp only [ih]
    · exact ih cur

/-- **name_mirror_case_sensitive.** The value `Mcp-Name` is compared with does not depend on a member of `params` whose
name is not exactly the identifying member's (`name` for tools/call and prompts/get, `uri` for resources/read) — before
or after the real member, whatever its value, in particular a member whose name differs only in case (`"Name"`,
`"NAME"`, `"URI"`). -/
theorem name_mirror_case_sensitive (method key k' : Bytes) (v : JV) (ms₁ ms₂ : List (Bytes × JV))
    (hk : nameMemberOf method = some key) (hne : k' ≠ key) :
    decodeName method (.obj (ms₁ ++ (k', v) :: ms₂)) = decodeName method (.obj (ms₁ ++ ms₂)) := by
  simp only [decodeName, hk]
  exact strFieldFrom_ignores_other_key key k' v hne ms₁ ms₂ []

theorem rawFieldFrom_ignores_other_key (key k' : Bytes) (v : JV) (hne : k' ≠ key) (ms₁ ms₂ : List (Bytes × JV))
    (cur : Option JV) : rawFieldFrom key cur (ms₁ ++ (k', v) :: ms₂) = rawFieldFrom key cur (ms₁ ++ ms₂) := by
  induction ms₁ generalizing cur with
  | nil => simp [rawFieldFrom, hne]
  | cons x xs ih =>
    obtain ⟨k, w⟩ := x
    simp only [List.cons_append, rawFieldFrom]
    split
    · exact ih _
    · exact ih cur

/-- The same for the arguments the `Mcp-Param-*` headers are compared with (`"Arguments"` is not `"arguments"`). -/
theorem args_mirror_case_sensitive (k' : Bytes) (v : JV) (ms₁ ms₂ : List (Bytes × JV)) (hne : k' ≠ memberArguments) :
    decodeArgs (.obj (ms₁ ++ (k', v) :: ms₂)) = decodeArgs (.obj (ms₁ ++ ms₂)) := by
  simp only [decodeArgs, rawFieldFrom_ignores_other_key memberArguments k' v hne]

/-- **args_are_last_member.** The arguments the `Mcp-Param-*` headers are compared with are those of the LAST member
called exactly `arguments` — the member the dispatcher hands to the handler — whatever members (earlier `arguments`
members included) precede it. -/
theorem args_are_last_member (ms₁ ms₂ : List (Bytes × JV)) (v : JV)
    (hlast : ∀ kv ∈ ms₂, kv.1 ≠ memberArguments) :
    decodeArgs (.obj (ms₁ ++ (memberArguments, v) :: ms₂)) = decodeArgs (.obj [(memberArguments, v)]) := by
  have h2 : ∀ cur, rawFieldFrom memberArguments cur ms₂ = cur := by
    induction ms₂ with
    | nil => intro cur; rfl
    | cons x xs ih =>
      intro cur
      obtain ⟨k, w⟩ := x
      have hk : k ≠ memberArguments := hlast (k, w) (by simp)
      simp only [rawFieldFrom, hk, if_false]
      exact ih (fun kv hkv => hlast kv (List.mem_cons_of_mem _ hkv)) cur
  have h1 : ∀ cur, rawFieldFrom memberArguments cur (ms₁ ++ (memberArguments, v) :: ms₂) = some v := by
    induction ms₁ with
    | nil => intro cur; simp [rawFieldFrom, h2]
    | cons x xs ih =>
      intro cur
      obtain ⟨k, w⟩ := x
      simp only [List.cons_append, rawFieldFrom]
      split <;> exact ih _
  simp only [decodeArgs, h1, rawFieldFrom, if_true]

/-- The same for the `_meta` protocol version the version header is compared with (`"_META"` is not `"_meta"`). -/
theorem meta_mirror_case_sensitive (k' : Bytes) (v : JV) (ms₁ ms₂ : List (Bytes × JV)) (hne : k' ≠ memberMeta) :
    decodeMetaVersion (.obj (ms₁ ++ (k', v) :: ms₂)) = decodeMetaVersion (.obj (ms₁ ++ ms₂)) := by
  simp only [decodeMetaVersion, mapFieldFrom_ignores_other_key memberMeta k' v hne]

/-- **decode_ignores_foreign_member.** A member of `params` whose name is none of the identifying member's, `arguments`
and `_meta` leaves everything the gates see of the message unchanged … -/
theorem decode_ignores_foreign_member (m : RawMsg) (k' : Bytes) (v : JV) (ms₁ ms₂ : List (Bytes × JV))
    (hn : ∀ key, nameMemberOf m.method = some key → k' ≠ key) (ha : k' ≠ memberArguments) (hm : k' ≠ memberMeta) :
    ({ m with params := .obj (ms₁ ++ (k', v) :: ms₂) } : RawMsg).decode =
      ({ m with params := .obj (ms₁ ++ ms₂) } : RawMsg).decode := by
  have hname : decodeName m.method (.obj (ms₁ ++ (k', v) :: ms₂)) = decodeName m.method (.obj (ms₁ ++ ms₂)) := by
    cases hk : nameMemberOf m.method with
    | none => simp [decodeName, hk]
    | some key => exact name_mirror_case_sensitive m.method key k' v ms₁ ms₂ hk (hn key hk)
  simp only [RawMsg.decode, hname, args_mirror_case_sensitive k' v ms₁ ms₂ ha, meta_mirror_case_sensitive k' v ms₁ ms₂ hm]

/-- … and therefore the answer of every handler to a body containing the message: the decoy member cannot take a request
past (or make it fail) any gate. -/
theorem verdict_ignores_foreign_member (c : B64) (r : Req) (isBatch : Bool) (pre post : List Msg) (m : RawMsg)
    (k' : Bytes) (v : JV) (ms₁ ms₂ : List (Bytes × JV))
    (hn : ∀ key, nameMemberOf m.method = some key → k' ≠ key) (ha : k' ≠ memberArguments) (hm : k' ≠ memberMeta) :
    verdict c { r with content := .msgs isBatch (pre ++ ({ m with params := .obj (ms₁ ++ (k', v) :: ms₂) } : RawMsg).decode :: post) } =
      verdict c { r with content := .msgs isBatch (pre ++ ({ m with params := .obj (ms₁ ++ ms₂) } : RawMsg).decode :: post) } := by
  rw [decode_ignores_foreign_member m k' v ms₁ ms₂ hn ha hm]

/-- An entry of an object under another name does not change what is found under `k` (`fieldGet`: entries of `_meta`, of
`arguments`, of a nested argument object). -/
theorem fieldGet_ignores_other_key (k k' : Bytes) (v : JV) (hne : k' ≠ k) (f₁ f₂ : List (Bytes × JV)) :
    fieldGet k (f₁ ++ (k', v) :: f₂) = fieldGet k (f₁ ++ f₂) := by
  induction f₁ with
  | nil =>
    simp only [List.nil_append, fieldGet]
    cases fieldGet k f₂ <;> simp [hne]
  | cons x xs ih =>
    obtain ⟨k₀, w⟩ := x
    simp only [List.cons_append, fieldGet, ih]

/-- **arg_member_case_sensitive.** The argument a binding's path designates does not depend on a member (of `arguments`,
or of a nested argument object on the path) whose name is not exactly the path's next name — e.g. `"Region"` next to the
bound `"region"`: `Mcp-Param-*` mirrors the member called exactly as the schema says. -/
theorem arg_member_case_sensitive (k k' : Bytes) (v : JV) (hne : k' ≠ k) (f₁ f₂ : List (Bytes × JV)) (rest : List Bytes) :
    lookupArgument (f₁ ++ (k', v) :: f₂) (k :: rest) = lookupArgument (f₁ ++ f₂) (k :: rest) := by
  cases rest with
  | nil => simp only [lookupArgument, fieldGet_ignores_other_key k k' v hne]
  | cons k₂ rest => simp only [lookupArgument, fieldGet_ignores_other_key k k' v hne]

theorem fieldGet_append (k : Bytes) (a f : List (Bytes × JV)) :
    fieldGet k (a ++ f) = (match fieldGet k f with | some x => some x | none => fieldGet k a) := by
  induction a with
  | nil => cases h : fieldGet k f <;> simp [fieldGet, h]
  | cons x xs ih =>
    obtain ⟨k₀, w⟩ := x
    simp only [List.cons_append, fieldGet, ih]
    cases fieldGet k f <;> simp

/-- Two runs of the map decoding whose maps so far agree under `k` end alike: both fail, or both succeed with maps that
agree under `k`. -/
theorem mapFieldFrom_agree (key k : Bytes) (ms : List (Bytes × JV)) (c₁ c₂ : Option (List (Bytes × JV)))
    (h : fieldGet k (c₁.getD []) = fieldGet k (c₂.getD [])) :
    (mapFieldFrom key c₁ ms).map (fun o => fieldGet k (o.getD [])) =
      (mapFieldFrom key c₂ ms).map (fun o => fieldGet k (o.getD [])) := by
  induction ms generalizing c₁ c₂ with
  | nil => simp [mapFieldFrom, h]
  | cons x xs ih =>
    obtain ⟨k₀, w⟩ := x
    simp only [mapFieldFrom]
    split
    · cases w with
      | obj f =>
        apply ih
        simp only [Option.getD_some, fieldGet_append, h]
      | null => exact ih none none rfl
      | bool b => rfl
      | num l => rfl
      | str t => rfl
      | arr => rfl
    · exact ih c₁ c₂ h

theorem decodeMetaVersion_eq (ms : List (Bytes × JV)) :
    decodeMetaVersion (.obj ms) =
      (match (mapFieldFrom memberMeta none ms).map (fun o => fieldGet metaKeyProtocolVersion (o.getD [])) with
       | some (some (.str s)) => s
       | _ => []) := by
  simp only [decodeMetaVersion]
  cases h : mapFieldFrom memberMeta none ms with
  | none => simp
  | some o =>
    cases o with
    | none => simp [fieldGet]
    | some f =>
      simp only [Option.map_some, Option.getD_some]
      cases fieldGet metaKeyProtocolVersion f with
      | none => rfl
      | some w => cases w <;> rfl

/-- **meta_key_case_sensitive.** The `_meta` protocol version the header is compared with does not depend on an entry of
`_meta` whose key is not exactly `io.modelcontextprotocol/protocolVersion` (e.g. a key differing only in case) —
whichever `_meta` member carries it and whatever else `params` contains (repeated `_meta` members are merged). -/
theorem meta_key_case_sensitive (k' : Bytes) (v : JV) (hne : k' ≠ metaKeyProtocolVersion)
    (ms₁ ms₂ f₁ f₂ : List (Bytes × JV)) :
    decodeMetaVersion (.obj (ms₁ ++ (memberMeta, .obj (f₁ ++ (k', v) :: f₂)) :: ms₂)) =
      decodeMetaVersion (.obj (ms₁ ++ (memberMeta, .obj (f₁ ++ f₂)) :: ms₂)) := by
  rw [decodeMetaVersion_eq, decodeMetaVersion_eq]
  have key : ∀ c : Option (List (Bytes × JV)),
      (mapFieldFrom memberMeta c (ms₁ ++ (memberMeta, .obj (f₁ ++ (k', v) :: f₂)) :: ms₂)).map
          (fun o => fieldGet metaKeyProtocolVersion (o.getD [])) =
        (mapFieldFrom memberMeta c (ms₁ ++ (memberMeta, .obj (f₁ ++ f₂)) :: ms₂)).map
          (fun o => fieldGet metaKeyProtocolVersion (o.getD [])) := by
    induction ms₁ with
    | nil =>
      intro c
      simp only [List.nil_append, mapFieldFrom, if_true]
      apply mapFieldFrom_agree
      simp only [Option.getD_some, ← List.append_assoc]
      exact fieldGet_ignores_other_key _ _ v hne _ _
    | cons x xs ih =>
      intro c
      obtain ⟨k₀, w⟩ := x
      simp only [List.cons_append, mapFieldFrom]
      split
      · cases w <;> simp only [ih]
      · exact ih c
  rw [key none]

/-- The string values of the members called exactly `key`, in source order. -/
def exactStrings (key : Bytes) (ms : List (Bytes × JV)) : List Bytes :=
  ms.filterMap (fun kv => if kv.1 = key then (match kv.2 with | .str s => some s | _ => none) else none)

theorem strFieldFrom_last (key : Bytes) (ms : List (Bytes × JV)) (cur s : Bytes)
    (h : strFieldFrom key cur ms = some s) : s = ((exactStrings key ms).getLast?).getD cur := by
  induction ms generalizing cur with
  | nil => simpa [strFieldFrom, exactStrings] using h.symm
  | cons x xs ih =>
    obtain ⟨k, w⟩ := x
    simp only [strFieldFrom] at h
    by_cases hk : k = key
    · simp only [hk, if_true] at h
      cases w with
      | str t =>
        have := ih t h
        simp only [exactStrings, List.filterMap_cons, hk, if_true] at this ⊢
        rw [List.getLast?_cons]
        simpa using this
      | null =>
        have := ih cur h
        simpa [exactStrings, List.filterMap_cons, hk] using this
      | bool b => simp at h
      | num l => simp at h
      | arr => simp at h
      | obj f => simp at h
    · simp only [hk, if_false] at h
      have := ih cur h
      simpa [exactStrings, List.filterMap_cons, hk] using this

/-- **dispatched_name_is_exact_member.** Whenever the streamable handler hands over the single request of a body under
≥ 2026-07-28 and the method is one of the named ones, `params` is an object and `Mcp-Name` is non-empty and equal to the
string value of the LAST member called exactly `name` / `uri` — the value the dispatcher decodes and runs the tool /
prompt / resource for — whatever other members (any casing, any value) the object carries. -/
theorem dispatched_name_is_exact_member (c : B64) (r : Req) (hk : r.kind ≠ .sse) (b : Bool)
    (h : verdict c r = .dispatched b) (m : RawMsg) (hs : soleMsg r = some m.decode) (hr : m.isReq = true)
    (hv : standardHeadersSkipped r.version = false) (hn : namedMethods.contains m.method = true) :
    ∃ key ms, nameMemberOf m.method = some key ∧ m.params = .obj ms ∧ r.mcpName ≠ [] ∧
      (exactStrings key ms).getLast? = some r.mcpName := by
  obtain ⟨_, _, hnm, _⟩ := (dispatch_sound c r hk b h).mirror m.decode hs hr hv
  obtain ⟨hok, hname, hne⟩ := hnm hn
  simp only [RawMsg.decode, Bool.and_eq_true] at hok hname
  obtain ⟨_, hsome⟩ := hok
  obtain ⟨s, hs'⟩ := Option.isSome_iff_exists.mp hsome
  have hs'' : s = r.mcpName := by rw [hname, hs']; rfl
  subst hs''
  unfold decodeName at hs'
  cases hkey : nameMemberOf m.method with
  | none => simp [hkey] at hs'
  | some key =>
    simp only [hkey] at hs'
    cases hp : m.params with
    | absent => simp [hp] at hs'
    | other => simp [hp] at hs'
    | null =>
      simp only [hp, Option.some.injEq] at hs'
      exact absurd hs'.symm hne
    | obj ms =>
      simp only [hp] at hs'
      refine ⟨key, ms, rfl, rfl, hne, ?_⟩
      have hl := strFieldFrom_last key ms [] r.mcpName hs'
      cases hg : (exactStrings key ms).getLast? with
      | none => rw [hg] at hl; exact absurd hl hne
      | some t => rw [hg] at hl; simp at hl; rw [hl]

/-! ## Witnesses (non-vacuity) and the F6 counter-example for the unrepaired code -/

/-- A lawful toy codec (identity) for the concrete witnesses. -/
def idCodec : B64 := { enc := id, dec := some }
theorem idCodec_lawful : idCodec.Lawful := fun _ => rfl

def wRegion : Bytes := [114, 101, 103, 105, 111, 110]            -- "region"
def wHeader : Bytes := [82, 101, 103, 105, 111, 110]             -- "Region"
def wTool : Bytes := [116]                                        -- "t"
/-- `{"region": {"type":"string","x-mcp-header":"Region"}}` -/
def wProps : Props := .cons wRegion wString (.str wHeader) .nil .nil
/-- `tools/call` of `t` with `{"region": ""}` under 2026-07-28. -/
def wMsg : Msg :=
  { isReq := true, method := methodCallTool, isCall := true, check := .ok, metaVersion := protocolVersion20260728,
    nameOk := true, name := wTool, args := .obj [(wRegion, .str [])], tool := some wProps }

example : validateAnnotations wProps = true := by decide
example : ArgsValid wProps wMsg.args := by
  intro b _ v hv
  have : bindings wProps = [{ path := [wRegion], header := wHeader }] := by decide
  simp_all [wMsg, Args.lookup, lookupArgument, fieldGet]
  subst hv; exact ValidArg.str []

/-- The empty-string call: the client sends `Mcp-Param-Region:` (empty) and the REPAIRED server accepts it. -/
example : validateMcpHeaders idCodec protocolVersion20260728
    ((setStandardHeaders idCodec protocolVersion20260728 wMsg (some wProps)).1.getD [])
    ((setStandardHeaders idCodec protocolVersion20260728 wMsg (some wProps)).2.1.getD [])
    (setStandardHeaders idCodec protocolVersion20260728 wMsg (some wProps)).2.2 wMsg = none := by decide

/-- The loop body of `validateParamHeaders` as it is in the pinned tree (before fix F06). -/
def checkBindingUnrepaired (c : B64) (a : Args) (h : ParamHdrs) (b : Binding) : Option PErr :=
  let hv := h.get b.header
  match a.lookup b.path with
  | none => if hv != [] then some .unexpected else none
  | some .null => if hv != [] then some .unexpected else none
  | some v =>
    if hv = [] then some .missing
    else match decodeHeaderValue c hv with
      | none => some .badBase64
      | some d =>
        match unmarshalPrimitive v with
        | none => some .notPrimitive
        | some pv => if primitiveEqual d pv then none else some .mismatch

/-- **F6 (counter-example for the unrepaired code).** For the schema-valid argument `""` the header the client
generates is refused as "missing" by the unrepaired loop body: `client_server_agree` is false there. -/
theorem f6_unrepaired_rejects :
    checkBindingUnrepaired idCodec wMsg.args (generateParamHeaders idCodec wProps wMsg.args)
      { path := [wRegion], header := wHeader } = some .missing := by decide

/-- The ephemeral branch of `serveStatefulPOST` as it is in the pinned tree (before fix preflight-F30): every error of
`ephemeralConnectOpts`, `*http.MaxBytesError` included, is answered 400. -/
def ephemeralGateUnrepaired (r : Req) : Option Outcome :=
  if tooLarge r || r.readFails then some (rej 400) else none

/-- A dispatched request exists (so `dispatch_sound` is not vacuous), and a stateful handler refuses the same body. -/
def wReq (k : HKind) : Req :=
  { kind := k, protectionDisabled := false, hasLocalAddr := true, listenerLoopback := true, hostLoopback := true,
    originRejects := false, method := .post, baseMedia := appJson, accept := [clientAccept],
    version := protocolVersion20260728, sess := .none, noSessionIds := false, lastEventId := false, limit := 0, bodyLen := 100,
    declared := some 100, readFails := false, content := .msgs false [wMsg], mcpMethod := methodCallTool, mcpName := wTool, paramHdrs := [] }

example : verdict idCodec (wReq .stateless) = .dispatched true := by decide
example : verdict idCodec (wReq .stateful) = rejRpc 400 codeUnsupportedProtocolVersion := by decide
example : verdict idCodec { wReq .stateless with hostLoopback := false } = rej 403 := by decide
example : verdict idCodec { wReq .stateless with bodyLen := 4194305 } = rej 413 := by decide
/-- the same oversize body uploaded without a declared length (chunked), stateless and on a stateful handler's new session -/
example : verdict idCodec { wReq .stateless with bodyLen := 4194305, declared := none } = rej 413 := by decide
example : verdict idCodec { wReq .stateful with bodyLen := 4194305, declared := none } = rej 413 := by decide
/-- a stateful handler whose server issues no session ids serves the POST on an ephemeral session: 413 there too
(REPAIRED behaviour, fix preflight-F30) -/
example : verdict idCodec { wReq .stateful with noSessionIds := true, bodyLen := 4194305, declared := none } = rej 413 := by
  decide
/-- an upload that breaks off after 100 of 4000 declared bytes -/
example : verdict idCodec { wReq .stateless with declared := some 4000, readFails := true } = rej 400 := by decide
/-- a chunked body within the limit is dispatched -/
example : verdict idCodec { wReq .stateless with declared := none } = .dispatched true := by decide
example : verdict idCodec { wReq .stateless with mcpName := [] } = rejRpc 400 codeHeaderMismatch := by decide

/-! ### array bodies (`isBatch`) under every kind of version header -/

/-- `ping` with an id, no `_meta`. -/
def wPing : Msg :=
  { isReq := true, method := [112, 105, 110, 103], isCall := true, check := .ok, metaVersion := [],
    nameOk := false, name := [], args := .missing, tool := none }

/-- arrays are legal when the header is absent or names 2025-03-26 / 2024-11-05 (hypothesis of
`array_wrapping_transparent` is satisfiable), and only then among the supported versions -/
example : batchGateRejects true (effVersion []) = false ∧ batchGateRejects true (effVersion protocolVersion20250326) = false ∧
    batchGateRejects true (effVersion protocolVersion20241105) = false ∧
    batchGateRejects true (effVersion protocolVersion20250618) = true ∧
    batchGateRejects true (effVersion protocolVersion20251125) = true ∧
    batchGateRejects true (effVersion protocolVersion20260728) = true := by decide
/-- header absent, array of one request carrying `_meta` 2026-07-28: 400 / -32020 (header required) -/
example : verdict idCodec { wReq .stateless with version := [], content := .msgs true [wMsg] } =
    rejRpc 400 codeHeaderMismatch := by decide
/-- header 2025-03-26, array `[ping, call with _meta 2026-07-28]`: 400 / -32020 (header differs from `_meta`) -/
example : verdict idCodec { wReq .stateless with version := protocolVersion20250326, content := .msgs true [wPing, wMsg] } =
    rejRpc 400 codeHeaderMismatch := by decide
/-- the same array to a stateful handler: 400 / -32022 -/
example : verdict idCodec { wReq .stateful with version := protocolVersion20241105, content := .msgs true [wPing, wMsg] } =
    rejRpc 400 codeUnsupportedProtocolVersion := by decide
/-- header 2026-07-28 (equal to `_meta`), array of one: refused by the batch gate, plain 400 -/
example : verdict idCodec { wReq .stateless with content := .msgs true [wMsg] } = rej 400 := by decide
/-- legacy header, array without `_meta` versions: dispatched (batching is legal there) -/
example : verdict idCodec { wReq .stateless with version := protocolVersion20250326, content := .msgs true [wPing, wPing] } =
    .dispatched true := by decide
/-- a `_meta` version equal to a legacy header passes the agreement gate of a stateless handler, in an array or not -/
def wPingMeta : Msg := { wPing with metaVersion := protocolVersion20250326 }
example : verdict idCodec { wReq .stateless with version := protocolVersion20250326, content := .msgs true [wPingMeta] } =
    .dispatched true := by decide

/-- **preflight-F30 (counter-example for the unrepaired code).** An oversize body sent to a stateful handler whose server
issues no session ids is answered 400 by the unrepaired branch, where the size gate mandates 413 (`oversize_status`). -/
theorem f30_unrepaired_answers_400 :
    ephemeralGateUnrepaired { wReq .stateful with noSessionIds := true, bodyLen := 4194305 } = some (rej 400) ∧
    bodyGate { wReq .stateful with noSessionIds := true, bodyLen := 4194305 } = some (rej 413) := by decide

/-! ### witnesses: a decoy `"Name"` next to the real `"name"` -/

def wName : Bytes := [110, 97, 109, 101]                          -- "name"
def wNameCap : Bytes := [78, 97, 109, 101]                        -- "Name"
def wDelete : Bytes := [100, 101, 108]                            -- "del"  (the tool the body really names)
def wRead : Bytes := [114, 101, 97, 100]                          -- "read" (the decoy)

/-- the hypotheses of `name_mirror_case_sensitive` are satisfiable by a genuine case variant -/
example : nameMemberOf methodCallTool = some wName ∧ wNameCap ≠ wName ∧ lowerBytes wNameCap = lowerBytes wName ∧
    wNameCap ≠ memberArguments ∧ wNameCap ≠ memberMeta := by decide

/-- `{"_meta":{…2026-07-28},"name":"del","Name":"read"}` as a tools/call. -/
def wDecoyMsg (ms : List (Bytes × JV)) : RawMsg :=
  { isReq := true, method := methodCallTool, isCall := true, check := .ok, decodeOk := true,
    params := .obj ((memberMeta, .obj [(metaKeyProtocolVersion, .str protocolVersion20260728)]) :: ms), tools := [] }

def wDecoyReq (ms : List (Bytes × JV)) (mcpName : Bytes) : Req :=
  { wReq .stateless with content := .msgs false [(wDecoyMsg ms).decode], mcpName := mcpName }

/-- `Mcp-Name: read` (the decoy's value) is refused with -32020 whether the decoy stands after or before the real member … -/
example : verdict idCodec (wDecoyReq [(wName, .str wDelete), (wNameCap, .str wRead)] wRead) = rejRpc 400 codeHeaderMismatch := by
  decide
example : verdict idCodec (wDecoyReq [(wNameCap, .str wRead), (wName, .str wDelete)] wRead) = rejRpc 400 codeHeaderMismatch := by
  decide
/-- … and `Mcp-Name: del` (the real member's value) is served, decoy or not -/
example : verdict idCodec (wDecoyReq [(wName, .str wDelete), (wNameCap, .str wRead)] wDelete) = .dispatched true := by decide
example : verdict idCodec (wDecoyReq [(wName, .str wDelete)] wDelete) = .dispatched true := by decide
/-- a repeated `name` member: the last one is the one dispatched, and the one `Mcp-Name` must equal -/
example : verdict idCodec (wDecoyReq [(wName, .str wRead), (wName, .str wDelete)] wDelete) = .dispatched true := by decide
example : verdict idCodec (wDecoyReq [(wName, .str wRead), (wName, .str wDelete)] wRead) = rejRpc 400 codeHeaderMismatch := by
  decide

/-! ### preflight-F31: a repeated `arguments` member (counter-example for the unrepaired code) -/

def wTenant : Bytes := [116, 101, 110, 97, 110, 116]              -- "tenant"
def wEU : Bytes := [101, 117]                                     -- "eu"
/-- `{"name":"t","arguments":{"region":"eu"},"arguments":{"tenant":"x"}}`: the handler receives `{"tenant":"x"}`. -/
def wRepeated : RawParams :=
  .obj [(wName, .str wTool), (memberArguments, .obj [(wRegion, .str wEU)]), (memberArguments, .obj [(wTenant, .str [120])])]

/-- **preflight-F31 (counter-example for the unrepaired code).** With `Mcp-Param-Region: eu` the pinned decoding (merge)
makes `validateParamHeaders` accept, although the arguments that are dispatched — the last member — have no `region`:
against those the header is refused as unexpected. -/
theorem f31_unrepaired_validates_merged :
    validateParamHeaders idCodec wProps (decodeArgsUnrepaired wRepeated) [(lowerBytes wHeader, wEU)] = none ∧
    validateParamHeaders idCodec wProps (decodeArgs wRepeated) [(lowerBytes wHeader, wEU)] = some .unexpected ∧
    ((decodeArgs wRepeated).lookup [wRegion]).isNone = true ∧
    ((decodeArgsUnrepaired wRepeated).lookup [wRegion]).isSome = true := by decide

end Preflight
