import McpModel.Preflight.Lemmas
/-!
# C12 — property theorems for the HTTP precondition gates and the header mirror (model: `Preflight.verdict`)

Every theorem quantifies over ALL abstract requests / header values / schemas / argument objects; base64 is
any codec with `dec (enc s) = some s`.  Constants and tables come from `Generated/PreflightGen.lean`
(regenerated from /repo on every run): a changed table re-opens these proofs.
-/
namespace Preflight
open Generated.Preflight

/-! ## accepts_table -/

def tJson : List Nat := [97, 112, 112, 108, 105, 99, 97, 116, 105, 111, 110, 47, 106, 115, 111, 110]   -- application/json
def tAppStar : List Nat := [97, 112, 112, 108, 105, 99, 97, 116, 105, 111, 110, 47, 42]               -- application/*
def tStream : List Nat := [116, 101, 120, 116, 47, 101, 118, 101, 110, 116, 45, 115, 116, 114, 101, 97, 109] -- text/event-stream
def tTextStar : List Nat := [116, 101, 120, 116, 47, 42]                                               -- text/*
def tAny : List Nat := [42, 47, 42]                                                                    -- */*

/-- The regenerated `switch` of `streamableAccepts` is exactly the documented token table. -/
theorem accept_flags_table (t : List Nat) :
    acceptFlags acceptTable t =
      (decide (t = tJson ∨ t = tAppStar ∨ t = tAny), decide (t = tStream ∨ t = tTextStar ∨ t = tAny)) := by
  unfold acceptFlags acceptTable
  simp only [List.find?_cons, List.find?_nil]
  by_cases h1 : t = tJson
  · subst h1; decide
  by_cases h2 : t = tAppStar
  · subst h2; decide
  by_cases h3 : t = tStream
  · subst h3; decide
  by_cases h4 : t = tTextStar
  · subst h4; decide
  by_cases h5 : t = tAny
  · subst h5; decide
  have e1 : ((tJson == t) = false) := by rw [beq_eq_false_iff_ne]; exact fun h => h1 h.symm
  have e2 : ((tAppStar == t) = false) := by rw [beq_eq_false_iff_ne]; exact fun h => h2 h.symm
  have e3 : ((tStream == t) = false) := by rw [beq_eq_false_iff_ne]; exact fun h => h3 h.symm
  have e4 : ((tTextStar == t) = false) := by rw [beq_eq_false_iff_ne]; exact fun h => h4 h.symm
  have e5 : ((tAny == t) = false) := by rw [beq_eq_false_iff_ne]; exact fun h => h5 h.symm
  simp only [tJson, tAppStar, tStream, tTextStar, tAny] at e1 e2 e3 e4 e5 h1 h2 h3 h4 h5
  simp [e1, e2, e3, e4, e5, h1, h2, h3, h4, h5, tJson, tAppStar, tStream, tTextStar, tAny]

/-- **accepts_table.** `streamableAccepts` reports `jsonOK` iff some normalised token of some `Accept` value is
`application/json`, `application/*` or `*/*`, and `streamOK` iff some token is `text/event-stream`, `text/*` or `*/*` —
for every list of header values. -/
theorem accepts_table (values : List Bytes) :
    streamableAccepts values =
      ((acceptTokens values).any (fun t => decide (t = tJson ∨ t = tAppStar ∨ t = tAny)),
       (acceptTokens values).any (fun t => decide (t = tStream ∨ t = tTextStar ∨ t = tAny))) := by
  unfold streamableAccepts streamableAcceptsWith acceptTokens
  have inner : ∀ (acc : Bool × Bool) (value : Bytes),
      (splitOn 0x2C value).foldl (fun acc raw => orPair acc (acceptFlags acceptTable (normToken raw))) acc =
        orPair acc (((splitOn 0x2C value).map normToken).any (fun t => (acceptFlags acceptTable t).1),
                    ((splitOn 0x2C value).map normToken).any (fun t => (acceptFlags acceptTable t).2)) := by
    intro acc value
    rw [foldl_orPair (fun raw => acceptFlags acceptTable (normToken raw))]
    simp [List.any_map, Function.comp_def]
  simp only [inner]
  rw [foldl_orPair (fun value =>
    (((splitOn 0x2C value).map normToken).any (fun t => (acceptFlags acceptTable t).1),
     ((splitOn 0x2C value).map normToken).any (fun t => (acceptFlags acceptTable t).2)))]
  simp only [orPair, Bool.false_or, List.any_flatMap, accept_flags_table]

example : streamableAccepts [[42, 47, 42]] = (true, true) := by decide

/-! ## decode_encode_header_value -/

theorem base64Prefix_ne_nil : base64Prefix ≠ [] := by decide

/-- **decode_encode_header_value.** For every primitive value (any string — empty, padded, non-ASCII, control
characters, sentinel-looking —, any boolean, any integer) and every base64 codec with `dec (enc s) = some s`:
`decodeHeaderValue (encodeHeaderValue v) = toString v`. -/
theorem decode_encode_header_value (c : B64) (hc : c.Lawful) (v : Prim) :
    decodeHeaderValue c (encodeHeaderValue c v) = some (primToString v) := by
  unfold encodeHeaderValue
  generalize primToString v = s
  simp only
  split
  · -- base64 form
    unfold decodeHeaderValue encodeBase64
    have hne : base64Prefix ++ c.enc s ++ base64Suffix ≠ [] := by
      intro h
      have := congrArg List.length h
      simp at this
      exact base64Prefix_ne_nil this.1
    rw [if_neg hne, List.append_assoc]
    simp only [cutPrefix_append, cutSuffix_append]
    exact hc s
  · next hreq =>
    unfold decodeHeaderValue
    split
    · next h => simp [h]
    · next hne =>
      split
      · next rest hrest =>
        split
        · next e he =>
          -- both cuts succeed: then `s` has the sentinel shape and would have required base64
          exfalso
          obtain ⟨hp, hr⟩ := cutPrefix_some hrest
          have hs := cutSuffix_some he
          have hs' : base64Suffix.isSuffixOf s = true := by
            rw [List.isSuffixOf_iff_suffix] at hs ⊢
            rw [hr] at hs
            exact hs.trans (List.drop_suffix _ _)
          apply hreq
          unfold requiresBase64
          cases s with
          | nil => exact absurd rfl hne
          | cons a as => simp [hp, hs']
        · rfl
      · rfl

/-! ## primitiveEqual_refl_on_safe_ints -/

theorem maxSafe_lt_pow2_53 : maxSafeInteger < (pow2_53 : Int) := by decide
theorem minSafe_gt_neg_pow2_53 : -(pow2_53 : Int) < minSafeInteger := by decide

/-- **primitiveEqual_refl_on_safe_ints.** Every integer in the interoperable range `[minSafeInteger, maxSafeInteger]`
(= ±(2^53−1), regenerated) equals its own decimal rendering under the server's float-based comparison. -/
theorem primitiveEqual_refl_on_safe_ints (n : Int) (h1 : minSafeInteger ≤ n) (h2 : n ≤ maxSafeInteger) :
    primitiveEqual (intToDec n) (.int n) = true := by
  have hlt : n.natAbs < pow2_53 := by
    have a := maxSafe_lt_pow2_53
    have b := minSafe_gt_neg_pow2_53
    omega
  unfold primitiveEqual parseFloat
  rw [decInt?_intToDec]
  simp only [hlt, if_true]
  unfold safeIntOfF64
  simp only [Nat.mod_one, Nat.div_one]
  by_cases hn : n < 0
  · have : (-(n.natAbs : Int)) = n := by omega
    simp [hn, this]
    rw [if_neg (by omega)]
    simp
  · have : ((n.natAbs : Nat) : Int) = n := by omega
    simp [hn, this]
    rw [if_neg (by omega)]
    simp

example : primitiveEqual (intToDec 9007199254740991) (.int 9007199254740991) = true :=
  primitiveEqual_refl_on_safe_ints _ (by decide) (by decide)

end Preflight
