/-!
Byte strings for E8 Preflight.  A Go `string` is a byte sequence; the model represents it as
`List Nat` (every element < 256 on the wire; the functions are total on all naturals).
Core Lean only (imported by the regenerated `Generated/PreflightGen.lean` and by the driver).
-/
namespace Preflight

abbrev Bytes := List Nat

/-- Go `a < b` on strings: bytewise lexicographic. -/
def bLt : Bytes → Bytes → Bool
  | [], [] => false
  | [], _ :: _ => true
  | _ :: _, [] => false
  | a :: as, b :: bs => a < b || (a == b && bLt as bs)

/-- Go `a <= b` on strings. -/
def bLe (a b : Bytes) : Bool := !bLt b a

end Preflight
