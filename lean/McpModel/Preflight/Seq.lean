import McpModel.Preflight.Monitor
/-!
# E8 Preflight — the client half over time: cached tool definitions and the header mirror (C12)

`Model.lean` decides one request.  `setStandardHeaders` takes the client's definition of the called tool as a parameter
(`tool : Option Props`), and `client_server_agree` is stated for a client that HOLDS the server's definition.  Where that
definition comes from is a small state machine over a session's life, transliterated here:

* `mcp/client.go` `ClientSession.ListTools` — under 2026-07-28 a `tools/list` result is cached per request cursor
  (`methodCache`, `mcp/cache.go`): `get` serves an entry while `time.Since(receivedAt) < ttlMs` and deletes it otherwise
  (also when `ttlMs <= 0`), `putIfCurrent` replaces the entry of that cursor;
* `Client.callToolChangedHandler` — a `notifications/tools/list_changed` clears the cache (`invalidate`);
* `ClientSession.lookupTool` — `CallTool` looks the tool's name up in EVERY cached page, whatever its age (the TTL governs
  re-fetching a list, not what the client knows about a tool), and hands the definition to the transport, which derives
  the `Mcp-Param-*` headers from it (`generateParamHeaders`); no definition, no `Mcp-Param-*` header;
* `mcp/server.go` `Server.listTools` / `paginateList` — pages of `PageSize` tools in name order, the cursor names the last
  tool of the previous page; `AddTool` / `RemoveTools` change the table.

`clientLookup` is the REPAIRED `lookupTool` (fix preflight-F32): the most recently received page that names the tool wins.
The pinned tree ranges over a Go map, i.e. consults the cached pages in an arbitrary order (`LookupAny`), so that a
superseded page — one cached under a cursor the server no longer issues — can shadow the current definition
(`Props.lean`, `f32_unrepaired_disagrees`).

The monitor of the `seq` records (`seqMonStep`) is the property read off the records alone: its state is what an observer
of the session knows — the server's tool table, and the names the client was told about by the server since that table
last changed and since the last `list_changed` (`listed`).  For such a name a `tools/call` with valid arguments must go
through.  Core Lean only: linked into `drv_preflight`.
-/
namespace Preflight

/-- A tool table: name ↦ the properties of the input schema. -/
abbrev Tools := List (Bytes × Props)

/-- The definition registered under `name` (first entry). -/
def toolDef : Tools → Bytes → Option Props
  | [], _ => none
  | (n, p) :: r, name => if n = name then some p else toolDef r name

def toolNames (ts : Tools) : List Bytes := ts.map (·.1)

/-- `Server.RemoveTools(name)`. -/
def removeTool (name : Bytes) (ts : Tools) : Tools := ts.filter (fun t => t.1 != name)

/-- Insertion in name order (`featureSet` iterates its keys sorted). -/
def insTool (name : Bytes) (p : Props) : Tools → Tools
  | [] => [(name, p)]
  | (m, q) :: r => if bLt name m then (name, p) :: (m, q) :: r else (m, q) :: insTool name p r

/-- `Server.AddTool`: adds the tool or replaces the one of that name. -/
def setTool (name : Bytes) (p : Props) (ts : Tools) : Tools := insTool name p (removeTool name ts)

/-- `paginateList`: the tools after the cursor's name (all, for the empty cursor), at most `size`, and the next cursor
(the name of the page's last tool) when more remain. -/
def serverPage (ts : Tools) (size : Nat) (cursor : Bytes) : Tools × Bytes :=
  let rest := if cursor = [] then ts else ts.filter (fun t => bLt cursor t.1)
  let tools := rest.take size
  (tools, if rest.length > size then (match tools.getLast? with | some t => t.1 | none => []) else [])

/-- One cached `tools/list` result (`cacheEntry`). -/
structure Page where
  key : Bytes            -- the request cursor (`""`: first page), named by the tool it points behind
  tools : Tools
  next : Bytes
  ttl : Int              -- `ttlMs` of the result
  recv : Nat             -- `receivedAt` (ms of the session's clock)
  cur : Bool             -- GHOST (no function below reads it): received since the server's tool table last changed
  deriving DecidableEq

/-- A `ClientSession.ListTools` whose `tools/list` request has been answered by the server while the response has not yet
reached the client (`ListTools` runs in a goroutine of the application; the response travels).  `gen` is what
`methodCache.gen()` returned after the cache miss and before the request was sent: `putIfCurrent` stores the result only if
no invalidation happened in between. -/
structure Pending where
  key : Bytes
  gen : Nat
  tools : Tools
  next : Bytes
  ttl : Int              -- the `ttlMs` the server put on the result
  cur : Bool             -- GHOST (read by no function below): the server's table has not changed since it answered
  deriving DecidableEq

/-- The session: server table and settings, and the client's `toolsCache` — most recently received page first. -/
structure World where
  newProto : Bool        -- the session runs 2026-07-28 (stateless server); otherwise a legacy version: no cache, no Mcp-* headers
  pageSize : Nat
  ttl : Int              -- the `ttlMs` the server puts on `tools/list` results
  server : Tools
  cache : List Page
  bad : List Bytes := []           -- tools the server LISTS with invalid x-mcp-header annotations (a foreign server; the SDK's
                                   -- own `AddTool` refuses them): `filterValidTools` drops them from every tools/list result
  serverB : Tools := []            -- the tools of a SECOND `Server` behind the same handler (`getServer` chooses by URL path)
  gen : Nat := 0                   -- `methodCache.generation`: counts invalidations
  pend : Option Pending := none    -- the listing in flight, if any (the harness keeps at most one)

/-- `cacheEntry.isValid` together with the `GetTTLMs() <= 0` test of `methodCache.get`. -/
def pageFresh (now : Nat) (pg : Page) : Bool :=
  decide (pg.ttl > 0) && decide ((now : Int) - (pg.recv : Int) < pg.ttl)

/-- A `tools/list` result as `ClientSession.ListTools` hands it on and caches it: the server's page (`paginateList`) without
the tools whose annotations are invalid (`filterValidTools`, applied before `putIfCurrent`, under every protocol version). -/
def clientPage (w : World) (k : Bytes) : Tools × Bytes :=
  ((serverPage w.server w.pageSize k).1.filter (fun t => !w.bad.contains t.1), (serverPage w.server w.pageSize k).2)

inductive SeqOp where
  | setTool (name : Bytes) (p : Props)   -- server: AddTool
  | delTool (name : Bytes)               -- server: RemoveTools
  | ttl (v : Int)                        -- server: the ttlMs of later tools/list results
  | adv                                  -- time passes (the clock is an input of every step)
  | notified                             -- the client handled notifications/tools/list_changed
  | list (cursor : Bytes)                -- client: ListTools
  | listSend (cursor : Bytes)            -- client: ListTools begins in its own goroutine: cache, generation, request; the
                                         -- server answers, the response is on its way
  | listRecv                             -- the response of the listing in flight reaches the client: putIfCurrent, return
  | look (name : Bytes)                  -- client: lookupTool
  | call (name : Bytes) (a : Args)       -- client: CallTool
  | setBad (name : Bytes)                -- the server starts listing the tool with INVALID annotations (foreign server)
  | clearBad (name : Bytes)              -- … lists it as registered again
  | setToolB (name : Bytes) (p : Props)  -- the second server behind the handler: AddTool
  | delToolB (name : Bytes)              -- … RemoveTools
  | callB (name : Bytes) (a : Args)      -- a second client connects to the second server's path, lists all its tools, calls

/-- The outcome of a call: the handler ran once with the arguments sent; the call succeeded otherwise; it failed with a
JSON-RPC code, if any (`quiet`: no handler ran). -/
inductive CallOut where
  | okSame
  | okOther
  | notOk (code : Option Int) (quiet : Bool)
  deriving DecidableEq, Repr

inductive SeqObs where
  | ok
  | sent                                                 -- the tools/list request went out; its answer is in flight
  | listed (hit : Bool) (tools : Tools) (next : Bytes)   -- `hit`: served from the cache, the server was not asked
  | looked (defs : List (Option Props))                  -- the distinct answers of repeated `lookupTool` calls
  | called (hdrs : ParamHdrs) (out : CallOut)            -- the Mcp-Param-* headers of the POST, and how the call ended

/-- `lookupTool`, REPAIRED (fix preflight-F32): the definition in the most recently received page that names the tool. -/
def clientLookup (w : World) (name : Bytes) : Option Props :=
  w.cache.findSome? (fun pg => toolDef pg.tools name)

/-- `lookupTool` on the pinned tree: `for _, entry := range cs.toolsCache.cachedValues` visits the pages in an arbitrary
order — any page that names the tool may answer. -/
def LookupAny (w : World) (name : Bytes) (d : Option Props) : Prop :=
  match d with
  | some p => ∃ pg ∈ w.cache, toolDef pg.tools name = some p
  | none => ∀ pg ∈ w.cache, toolDef pg.tools name = none

/-- JSON-RPC code of the server's answer for a tool it does not have (`invalid params`). -/
def unknownToolCode : Int := -32602

/-- A `tools/call` whose client-side definition of the tool is `cdef`: the headers `setStandardHeaders` adds and what the
server (which validates against ITS definition) answers. -/
def callWith (c : B64) (w : World) (cdef : Option Props) (name : Bytes) (a : Args) : ParamHdrs × CallOut :=
  if w.newProto then
    let hdrs := match cdef with | some p => generateParamHeaders c p a | none => []
    match toolDef w.server name with
    | none => (hdrs, .notOk (some unknownToolCode) true)
    | some ps =>
      match validateParamHeaders c ps a hdrs with
      | none => (hdrs, .okSame)
      | some _ => (hdrs, .notOk (some (-32020)) true)
  else
    match toolDef w.server name with
    | none => ([], .notOk (some unknownToolCode) true)
    | some _ => ([], .okSame)

def callModel (c : B64) (w : World) (name : Bytes) (a : Args) : ParamHdrs × CallOut :=
  callWith c w (clientLookup w name) name a

/-- A call that goes to the SECOND server of the handler (`getServer(req)` returns it for this request's path), by a client
that has just listed that server's tools: the client mirrors, and the server validates against, THAT server's definition —
whatever the first server registered under the same name, whatever was called before. -/
def callModelB (c : B64) (w : World) (name : Bytes) (a : Args) : ParamHdrs × CallOut :=
  callWith c { w with server := w.serverB } (toolDef w.serverB name) name a

def staleAll (cache : List Page) : List Page := cache.map (fun pg => { pg with cur := false })

def stalePend (p : Option Pending) : Option Pending := p.map (fun q => { q with cur := false })

/-- `ListTools` up to the point where the request has been answered by the server (cache miss: `gen()` is read, the request
sent; the answer is the server's page as of now, with the `ttlMs` of now). -/
def sendList (w : World) (k : Bytes) : World × SeqObs :=
  let f := clientPage w k
  ({ w with pend := some { key := k, gen := w.gen, tools := f.1, next := f.2, ttl := w.ttl, cur := true } }, .sent)

/-- The response in flight arrives: `putIfCurrent(gen, cursor, result)` — stored (replacing the page of that cursor, most
recent) only if the cache has not been invalidated since the request was sent — and `ListTools` returns the result. -/
def recvList (w : World) (now : Nat) (p : Pending) : World × SeqObs :=
  (if w.newProto && p.gen == w.gen then
     { w with pend := none,
              cache := { key := p.key, tools := p.tools, next := p.next, ttl := p.ttl, recv := now, cur := p.cur } ::
                w.cache.filter (fun pg => pg.key != p.key) }
   else { w with pend := none },
   .listed false p.tools p.next)

/-- `putIfCurrent`: the page replaces the one cached under its cursor and is the most recent. -/
def putPage (w : World) (now : Nat) (k : Bytes) : World × SeqObs :=
  let f := clientPage w k
  ({ w with cache := { key := k, tools := f.1, next := f.2, ttl := w.ttl, recv := now, cur := true } ::
      w.cache.filter (fun pg => pg.key != k) },
   .listed false f.1 f.2)

/-- One step of the session at clock `now`. -/
def stepW (c : B64) (w : World) (now : Nat) : SeqOp → World × SeqObs
  | .setTool n p => ({ w with server := setTool n p w.server, cache := staleAll w.cache, pend := stalePend w.pend }, .ok)
  | .delTool n => ({ w with server := removeTool n w.server, cache := staleAll w.cache, pend := stalePend w.pend }, .ok)
  | .ttl v => ({ w with ttl := v }, .ok)
  | .adv => (w, .ok)
  | .notified => ({ w with cache := [], gen := w.gen + 1 }, .ok)   -- `invalidate`: clear, and a new generation
  | .list k =>
    if !w.newProto then
      let f := clientPage w k
      (w, .listed false f.1 f.2)
    else match w.cache.find? (fun pg => pg.key == k) with
      | some pg => if pageFresh now pg then (w, .listed true pg.tools pg.next) else putPage w now k
      | none => putPage w now k
  | .listSend k =>
    (match w.pend with
     | some _ => (w, .ok)            -- one listing in flight at a time (the harness does not start a second one)
     | none =>
       if !w.newProto then sendList w k
       else match w.cache.find? (fun pg => pg.key == k) with
         | some pg => if pageFresh now pg then (w, .listed true pg.tools pg.next) else sendList w k
         | none => sendList w k)
  | .listRecv =>
    (match w.pend with
     | none => (w, .ok)
     | some p => recvList w now p)
  | .look n => (w, .looked [clientLookup w n])
  | .call n a =>
    let r := callModel c w n a
    (w, .called r.1 r.2)
  | .setBad n => ({ w with bad := n :: w.bad, cache := staleAll w.cache, pend := stalePend w.pend }, .ok)
  | .clearBad n => ({ w with bad := w.bad.filter (· != n), cache := staleAll w.cache, pend := stalePend w.pend }, .ok)
  | .setToolB n p => ({ w with serverB := setTool n p w.serverB }, .ok)
  | .delToolB n => ({ w with serverB := removeTool n w.serverB }, .ok)
  | .callB n a =>
    let r := callModelB c w n a
    (w, .called r.1 r.2)

/-! ## the monitor of the `seq` records -/

/-- What an observer of the session knows. -/
structure SeqMon where
  newProto : Bool
  server : Tools           -- the server's tool table (the `set` / `del` operations are facts)
  listed : List Bytes      -- names in tools/list results the SERVER gave the client since the table last changed and
                           -- since the last list_changed: for these the client has listed the current definition
  seen : Tools             -- every (name, definition) the client received since the last list_changed (diagnosis only)
  bad : List Bytes := []   -- names the server lists with invalid annotations
  serverB : Tools := []    -- the second server's tool table
  pageSize : Nat := 0      -- the server's page size (configuration)
  fresh : Bool := false    -- the client has handled a list_changed since the server's table last changed: its cache was
                           -- emptied after the change, whatever it serves from it now was requested after that
  pend : Option (Bool × Bool) := none   -- a listing is in flight; since its request was answered: (the table changed,
                                        -- the client handled a list_changed)

/-- The generated headers, compared as sets of pairs. -/
def hdrsSame (h1 h2 : ParamHdrs) : Bool := h1.all h2.contains && h2.all h1.contains

/-- `seen` holds this definition of the tool. -/
def seenDef (seen : Tools) (name : Bytes) (p : Props) : Bool := seen.any (fun e => e.1 == name && e.2 == p)

/-- The page the client must end up with for cursor `k`: the server's, without the tools listed with invalid annotations. -/
def monPage (m : SeqMon) (k : Bytes) : Tools :=
  (serverPage m.server m.pageSize k).1.filter (fun t => !m.bad.contains t.1)

/-- `filterValidTools`: a fetched tools/list result handed to the application names no tool listed with invalid annotations. -/
def badListed (m : SeqMon) (hit : Bool) (tools : Tools) : Option Clause :=
  if !hit && tools.any (fun t => m.bad.contains t.1) then some .seqBadListed else none

/-- A tool the server lists with invalid annotations, called after the client handled the list_changed that followed the
last change (so that nothing it knows predates the listing): the client has no usable definition — it sends NO `Mcp-Param-*`
header — and it still calls: where the server's registered definition demands no header for these arguments, the call goes
through. -/
def badCall (c : B64) (m : SeqMon) (n : Bytes) (a : Args) (hdrs : ParamHdrs) (out : CallOut) : Option Clause :=
  if m.newProto && m.fresh && m.bad.contains n then
    if !hdrs.isEmpty then some .seqBadMirror
    else match toolDef m.server n with
      | some ps =>
        if toolValidB ps && argsValidB ps a && (generateParamHeaders c ps a).isEmpty && out != .okSame then some .seqBadCall
        else none
      | none => none
  else none

/-- `ListTools` answered from the client's cache (`hit`) after the client handled the list_changed that followed the
table's last change: the cache was emptied after the change, so what it holds was requested after it — the tools served
must be the server's. -/
def staleHit (m : SeqMon) (k : Bytes) (hit : Bool) (tools : Tools) : Option Clause :=
  if m.newProto && m.fresh && hit && tools != monPage m k then some .seqStaleList else none

/-- … and when they are, the client holds the current definition of every tool of that page although the server was not
asked: the observer counts them as listed. -/
def learnHit (m : SeqMon) (k : Bytes) (hit : Bool) (tools : Tools) : SeqMon :=
  if m.newProto && m.fresh && hit && tools == monPage m k then
    { m with listed := toolNames tools ++ m.listed }
  else m

/-- The clauses of a `call` record about a tool the client has listed (see `seqMonStep`). -/
def callClause (c : B64) (m : SeqMon) (n : Bytes) (a : Args) (hdrs : ParamHdrs) (out : CallOut) : Option Clause :=
  match toolDef m.server n with
     | some ps =>
       if m.newProto then
         if m.listed.contains n && toolValidB ps && argsValidB ps a then
           -- diagnosis: the headers sent are those of a definition the client received earlier (preflight-F32)
           let stale := !hdrsSame hdrs (generateParamHeaders c ps a) &&
             m.seen.any (fun e => e.1 == n && e.2 != ps && hdrsSame hdrs (generateParamHeaders c e.2 a))
           (if out != .okSame then
              -- the client did its part (exactly the headers the current definition demands): the server judges the call
              -- by something else than the definition it has registered and lists
              (if hdrsSame hdrs (generateParamHeaders c ps a) then some .seqRefusedExact
               else if stale then some .seqStaleCall else if hdrs.isEmpty then some .seqLostCall else some .seqAgree)
            else match genMonitor c ps a hdrs with
              | some cl => if stale then some .seqStaleCall else some cl
              | none => none)
         else (match out with | .notOk _ false => some .e2eReached | _ => none)
       else if out != .okSame then some .seqLegacy
       else none
     | none => (match out with | .notOk _ false => some .e2eReached | _ => none)

/-- What the observer learns when the response of the listing in flight arrives. -/
def recvMon (m : SeqMon) (tools : Tools) : SeqMon :=
  match m.pend with
  | none => m
  | some (changed, noted) =>
    if !m.newProto then { m with pend := none }
    -- requested before a list_changed the client has handled since: the client must not keep it (nothing is learnt)
    else if noted then { m with pend := none }
    -- answered before the table's last change, no list_changed in between: the client is given an OLD page after
    -- whatever it listed since — no demand until it lists again
    else if changed then { m with pend := none, listed := [], seen := tools ++ m.seen }
    else { m with pend := none, listed := toolNames tools ++ m.listed, seen := tools ++ m.seen }

/-- One record: the operation and the IMPLEMENTATION's observation. -/
def seqMonStep (c : B64) (m : SeqMon) : SeqOp → SeqObs → SeqMon × Option Clause
  | .setTool n p, _ =>
    ({ m with server := setTool n p m.server, listed := [], fresh := false, pend := m.pend.map (fun x => (true, x.2)) }, none)
  | .delTool n, _ =>
    ({ m with server := removeTool n m.server, listed := [], fresh := false, pend := m.pend.map (fun x => (true, x.2)) }, none)
  | .ttl _, _ => (m, none)
  | .adv, _ => (m, none)
  | .notified, _ => ({ m with listed := [], seen := [], fresh := true, pend := m.pend.map (fun x => (x.1, true)) }, none)
  | .list k, .listed hit tools _ =>
    if m.newProto && !hit then ({ m with listed := toolNames tools ++ m.listed, seen := tools ++ m.seen }, badListed m hit tools)
    else (learnHit m k hit tools, (badListed m hit tools).orElse (fun _ => staleHit m k hit tools))
  | .list _, _ => (m, none)
  | .listSend k, .listed hit tools _ => (learnHit m k hit tools, staleHit m k hit tools)
  | .listSend _, .sent => (match m.pend with | none => { m with pend := some (false, false) } | some _ => m, none)
  | .listSend _, _ => (m, none)
  | .listRecv, .listed _ tools _ =>
    (recvMon m tools, match m.pend with | some (false, _) => badListed m false tools | _ => none)
  | .listRecv, _ => (m, none)
  | .look n, .looked defs =>
    (m,
     if m.newProto && m.listed.contains n then
       match toolDef m.server n with
       | some ps =>
         if defs == [some ps] then none
         else if defs.all (fun d => match d with | some p => seenDef m.seen n p | none => false) then some .seqStaleLook
         else some .seqLostLook
       | none => none
     else none)
  | .look _, _ => (m, none)
  | .call n a, .called hdrs out =>
    (m, (badCall c m n a hdrs out).orElse (fun _ => callClause c m n a hdrs out))
  | .call _ _, _ => (m, none)
  | .setBad n, _ =>
    ({ m with bad := n :: m.bad, listed := [], fresh := false, pend := m.pend.map (fun x => (true, x.2)) }, none)
  | .clearBad n, _ =>
    ({ m with bad := m.bad.filter (· != n), listed := [], fresh := false, pend := m.pend.map (fun x => (true, x.2)) }, none)
  | .setToolB n p, _ => ({ m with serverB := setTool n p m.serverB }, none)
  | .delToolB n, _ => ({ m with serverB := removeTool n m.serverB }, none)
  | .callB n a, .called hdrs out =>
    (m,
     match toolDef m.serverB n with
     | some ps =>
       if m.newProto then
         if toolValidB ps && argsValidB ps a then
           (if out != .okSame then
              -- the client listed THIS server's tools a moment ago: if it sent what this server's definition demands, the
              -- handler judged the call by another server's tool of that name
              (if hdrsSame hdrs (generateParamHeaders c ps a) then some .seqOtherServer else some .seqAgree)
            else genMonitor c ps a hdrs)
         else (match out with | .notOk _ false => some .e2eReached | _ => none)
       else if out != .okSame then some .seqLegacy
       else none
     | none => (match out with | .notOk _ false => some .e2eReached | _ => none))
  | .callB _ _, _ => (m, none)

/-! ## runs -/

structure SeqCfg where
  newProto : Bool
  pageSize : Nat

def World.init (cfg : SeqCfg) : World :=
  { newProto := cfg.newProto, pageSize := cfg.pageSize, ttl := 0, server := [], cache := [] }

def SeqMon.init (cfg : SeqCfg) : SeqMon :=
  { newProto := cfg.newProto, server := [], listed := [], seen := [], pageSize := cfg.pageSize }

/-- Model and monitor in lockstep on a list of (clock, operation): the monitor is fed the MODEL's observations.  Returns
the final states and the clauses raised. -/
def runSeq (c : B64) : World → SeqMon → List (Nat × SeqOp) → World × SeqMon × List Clause
  | w, m, [] => (w, m, [])
  | w, m, (now, op) :: rest =>
    let r := stepW c w now op
    let s := seqMonStep c m op r.2
    let t := runSeq c r.1 s.1 rest
    (t.1, t.2.1, (match s.2 with | some cl => [cl] | none => []) ++ t.2.2)

end Preflight
