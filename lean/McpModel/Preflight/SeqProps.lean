import McpModel.Preflight.Props
import McpModel.Preflight.Seq
/-!
# C12 over time — `client_server_agree` along a session (theorems about `Seq.lean`)

`client_server_agree` (Props.lean) is stated for a client that holds the server's definition of the tool.  Here: WHEN it
holds it.  The session model of `Seq.lean` is run on an arbitrary list of operations with arbitrary clocks (`runSeq`: the
server's tools are added, re-registered with other annotations, removed; `ttlMs` is anything; time passes; list_changed
arrives or not; the client lists any cursor in any order, hits or misses its cache; calls any tool), together with the
observer's bookkeeping `SeqMon.listed` — the names in tools/list results the SERVER gave the client since its tool table last
changed and since the last list_changed.

* `client_server_agree_over_time` — for every such run, every tool in `listed` with valid annotations and every valid
  argument object: the call carries exactly the headers the server's definition demands (`generateParamHeaders` of the
  SERVER's definition) and is accepted, the handler sees the arguments sent.  For all operation sequences and all clocks:
  no hypothesis on TTLs or on the time that has passed (the lapsed-TTL sequence of seeded change C12-m9 is an instance).
* The boundary is the hypothesis `n ∈ listed`.  What the client does for a tool it never listed, or whose definition changed
  since, is outside "arguments valid under the tool's schema" as the client can know it: `lookupTool` is documented to
  return "the most recently seen definition … or nil if no such tool has been seen", and without a definition the
  transport sends no `Mcp-Param-*` header.  Witnesses that the hypothesis is needed: `never_listed_disagrees`,
  `changed_since_disagrees`, `forgotten_after_page_shift` (the table changed — another tool was added — and the client
  re-listed only the first page: the tool's page is replaced, the tool forgotten although ITS definition never changed).
* `f32_unrepaired_disagrees` — on the pinned tree (`lookupTool` consults the cached pages in map order) the theorem is
  false: a superseded page, cached under a cursor the server no longer issues, may answer, and the call is refused although
  the client has just listed the tool under its current definition.  Fix preflight-F32: the most recent page wins.
-/
namespace Preflight

/-! ## tool tables -/

theorem toolDef_mem {ts : Tools} {n : Bytes} {p : Props} (h : toolDef ts n = some p) : (n, p) ∈ ts := by
  induction ts with
  | nil => simp [toolDef] at h
  | cons t r ih =>
    obtain ⟨m, q⟩ := t
    simp only [toolDef] at h
    split at h
    · rename_i he
      cases h
      subst he
      exact List.mem_cons_self
    · exact List.mem_cons_of_mem _ (ih h)

theorem toolDef_of_mem_nodup {ts : Tools} (hnd : (toolNames ts).Nodup) {n : Bytes} {p : Props}
    (h : (n, p) ∈ ts) : toolDef ts n = some p := by
  induction ts with
  | nil => cases h
  | cons t r ih =>
    obtain ⟨m, q⟩ := t
    simp only [toolNames, List.map_cons, List.nodup_cons] at hnd
    simp only [toolDef]
    rcases List.mem_cons.mp h with he | hr
    · cases he
      simp
    · have hne : m ≠ n := by
        intro hmn
        subst hmn
        exact hnd.1 (List.mem_map.mpr ⟨(m, p), hr, rfl⟩)
      simp only [hne, if_false]
      exact ih hnd.2 hr

theorem toolDef_isSome_of_name {ts : Tools} {n : Bytes} (h : n ∈ toolNames ts) : (toolDef ts n).isSome = true := by
  induction ts with
  | nil => simp [toolNames] at h
  | cons t r ih =>
    obtain ⟨m, q⟩ := t
    simp only [toolDef]
    by_cases hmn : m = n
    · simp [hmn]
    · simp only [hmn, if_false]
      apply ih
      simp only [toolNames, List.map_cons, List.mem_cons] at h
      rcases h with h | h
      · exact absurd h.symm hmn
      · exact h

theorem mem_serverPage {ts : Tools} {size : Nat} {cursor : Bytes} {e : Bytes × Props}
    (h : e ∈ (serverPage ts size cursor).1) : e ∈ ts := by
  unfold serverPage at h
  simp only at h
  have h1 := List.mem_of_mem_take h
  split at h1
  · exact h1
  · exact (List.mem_filter.mp h1).1

/-- A page the server returns defines its tools as the server's table does. -/
theorem toolDef_serverPage {ts : Tools} (hnd : (toolNames ts).Nodup) {size : Nat} {cursor n : Bytes} {p : Props}
    (h : toolDef (serverPage ts size cursor).1 n = some p) : toolDef ts n = some p :=
  toolDef_of_mem_nodup hnd (mem_serverPage (toolDef_mem h))

/-- A page as the client keeps it defines its tools as the server's table does (dropping tools does not change the others). -/
theorem toolDef_clientPage {w : World} (hnd : (toolNames w.server).Nodup) {k n : Bytes} {p : Props}
    (h : toolDef (clientPage w k).1 n = some p) : toolDef w.server n = some p :=
  toolDef_of_mem_nodup hnd (mem_serverPage (List.mem_filter.mp (toolDef_mem h)).1)

/-- … and does not define a tool the server lists with invalid annotations. -/
theorem toolDef_clientPage_bad (w : World) (k : Bytes) {n : Bytes} (hb : w.bad.contains n = true) :
    toolDef (clientPage w k).1 n = none := by
  cases hd : toolDef (clientPage w k).1 n with
  | none => rfl
  | some p =>
    have := (List.mem_filter.mp (toolDef_mem hd)).2
    simp only [hb, Bool.not_true] at this
    cases this

theorem nodup_removeTool {ts : Tools} (n : Bytes) (h : (toolNames ts).Nodup) : (toolNames (removeTool n ts)).Nodup := by
  unfold toolNames removeTool
  exact List.Nodup.sublist (List.Sublist.map _ List.filter_sublist) h

theorem not_mem_removeTool (n : Bytes) (ts : Tools) : n ∉ toolNames (removeTool n ts) := by
  unfold toolNames removeTool
  intro h
  obtain ⟨e, he, hn⟩ := List.mem_map.mp h
  have := (List.mem_filter.mp he).2
  simp [hn] at this

theorem mem_insTool {n : Bytes} {p : Props} {ts : Tools} {x : Bytes} :
    x ∈ toolNames (insTool n p ts) ↔ x = n ∨ x ∈ toolNames ts := by
  induction ts with
  | nil => simp [insTool, toolNames]
  | cons t r ih =>
    obtain ⟨m, q⟩ := t
    simp only [insTool]
    split
    · simp [toolNames]
    · simp only [toolNames, List.map_cons, List.mem_cons] at ih ⊢
      rw [ih]
      constructor
      · rintro (h | h | h)
        · exact Or.inr (Or.inl h)
        · exact Or.inl h
        · exact Or.inr (Or.inr h)
      · rintro (h | h | h)
        · exact Or.inr (Or.inl h)
        · exact Or.inl h
        · exact Or.inr (Or.inr h)

theorem nodup_insTool {n : Bytes} (p : Props) {ts : Tools} (hn : n ∉ toolNames ts) (h : (toolNames ts).Nodup) :
    (toolNames (insTool n p ts)).Nodup := by
  induction ts with
  | nil => simp [insTool, toolNames]
  | cons t r ih =>
    obtain ⟨m, q⟩ := t
    simp only [insTool]
    simp only [toolNames, List.map_cons, List.mem_cons, not_or, List.nodup_cons] at hn h
    split
    · simp only [toolNames, List.map_cons, List.nodup_cons, List.mem_cons, not_or]
      exact ⟨⟨hn.1, hn.2⟩, h.1, h.2⟩
    · simp only [toolNames, List.map_cons, List.nodup_cons]
      refine ⟨?_, ih hn.2 h.2⟩
      intro hm
      rcases mem_insTool.mp hm with h1 | h1
      · exact hn.1 h1.symm
      · exact h.1 h1

theorem nodup_setTool (n : Bytes) (p : Props) {ts : Tools} (h : (toolNames ts).Nodup) :
    (toolNames (setTool n p ts)).Nodup :=
  nodup_insTool p (not_mem_removeTool n ts) (nodup_removeTool n h)

/-! ## the invariant -/

/-- Once a page that predates the last change of the server's table appears in the cache (most recent first), every
older page predates it too.  (Holds as long as responses arrive in the order of their requests; a response in flight that
is overtaken by a change of the table breaks it — the invariant `SeqInv` uses `FirstCur` instead.) -/
def CurSorted : List Page → Prop
  | [] => True
  | pg :: r => (pg.cur = false → ∀ q ∈ r, q.cur = false) ∧ CurSorted r

theorem curSorted_filter (f : Page → Bool) {l : List Page} (h : CurSorted l) : CurSorted (l.filter f) := by
  induction l with
  | nil => exact h
  | cons pg r ih =>
    simp only [List.filter]
    split
    · exact ⟨fun hc q hq => h.1 hc q (List.mem_filter.mp hq).1, ih h.2⟩
    · exact ih h.2

theorem mem_staleAll {l : List Page} {pg : Page} (h : pg ∈ staleAll l) : pg.cur = false := by
  unfold staleAll at h
  obtain ⟨q, _, hq⟩ := List.mem_map.mp h
  rw [← hq]

theorem curSorted_staleAll (l : List Page) : CurSorted (staleAll l) := by
  induction l with
  | nil => trivial
  | cons pg r ih =>
    refine ⟨fun _ q hq => mem_staleAll hq, ih⟩

/-- The most recent page that names the tool is one received since the table last changed, if any such page names it. -/
theorem lookup_cur {l : List Page} (hs : CurSorted l) {n : Bytes}
    (hex : ∃ pg ∈ l, pg.cur = true ∧ (toolDef pg.tools n).isSome = true) :
    ∃ q ∈ l, q.cur = true ∧ ∃ d, toolDef q.tools n = some d ∧ l.findSome? (fun pg => toolDef pg.tools n) = some d := by
  induction l with
  | nil =>
    obtain ⟨pg, hpg, _⟩ := hex
    cases hpg
  | cons x r ih =>
    cases hx : toolDef x.tools n with
    | some d =>
      refine ⟨x, List.mem_cons_self, ?_, d, hx, by simp [List.findSome?, hx]⟩
      cases hxc : x.cur with
      | true => rfl
      | false =>
        exfalso
        obtain ⟨pg, hpg, hcur, _⟩ := hex
        rcases List.mem_cons.mp hpg with he | hr
        · subst he
          rw [hxc] at hcur
          cases hcur
        · have := hs.1 hxc pg hr
          rw [this] at hcur
          cases hcur
    | none =>
      obtain ⟨pg, hpg, hcur, hsome⟩ := hex
      rcases List.mem_cons.mp hpg with he | hr
      · subst he
        rw [hx] at hsome
        cases hsome
      · obtain ⟨q, hq, hqc, d, hd, hf⟩ := ih hs.2 ⟨pg, hr, hcur, hsome⟩
        exact ⟨q, List.mem_cons_of_mem _ hq, hqc, d, hd, by simp [List.findSome?, hx, hf]⟩

/-- The most recently received page that names the tool is one received since the table last changed. -/
def FirstCur (n : Bytes) : List Page → Prop
  | [] => False
  | pg :: r => if (toolDef pg.tools n).isSome = true then pg.cur = true else FirstCur n r

theorem firstCur_lookup {n : Bytes} {l : List Page} (h : FirstCur n l) :
    ∃ q ∈ l, q.cur = true ∧ ∃ d, toolDef q.tools n = some d ∧ l.findSome? (fun pg => toolDef pg.tools n) = some d := by
  induction l with
  | nil => cases h
  | cons x r ih =>
    simp only [FirstCur] at h
    cases hx : toolDef x.tools n with
    | some d =>
      simp only [hx, Option.isSome_some, if_true] at h
      exact ⟨x, List.mem_cons_self, h, d, hx, by simp [List.findSome?, hx]⟩
    | none =>
      simp only [hx, Option.isSome_none, Bool.false_eq_true, if_false] at h
      obtain ⟨q, hq, hqc, d, hd, hf⟩ := ih h
      exact ⟨q, List.mem_cons_of_mem _ hq, hqc, d, hd, by simp [List.findSome?, hx, hf]⟩

/-- Dropping pages keeps the property as long as no page received since the last change that names the tool is dropped. -/
theorem firstCur_filter {n : Bytes} (f : Page → Bool) {l : List Page} (h : FirstCur n l)
    (hk : ∀ pg ∈ l, pg.cur = true → (toolDef pg.tools n).isSome = true → f pg = true) : FirstCur n (l.filter f) := by
  induction l with
  | nil => cases h
  | cons x r ih =>
    simp only [FirstCur] at h
    by_cases hx : (toolDef x.tools n).isSome = true
    · simp only [hx, if_true] at h
      have hf : f x = true := hk x List.mem_cons_self h hx
      simp only [List.filter, hf, FirstCur, hx, if_true]
      exact h
    · simp only [hx, if_false] at h
      have ih' := ih h (fun pg hpg => hk pg (List.mem_cons_of_mem _ hpg))
      simp only [List.filter]
      split
      · simp only [FirstCur, hx, if_false]
        exact ih'
      · exact ih'

/-- If every cached page was received since the last change, the first page that names a tool is such a page. -/
theorem firstCur_of_all_cur {n : Bytes} {l : List Page} (hall : ∀ pg ∈ l, pg.cur = true)
    (hex : ∃ pg ∈ l, (toolDef pg.tools n).isSome = true) : FirstCur n l := by
  induction l with
  | nil =>
    obtain ⟨pg, hpg, _⟩ := hex
    cases hpg
  | cons x r ih =>
    simp only [FirstCur]
    split
    · exact hall x List.mem_cons_self
    · rename_i hx
      obtain ⟨pg, hpg, hs⟩ := hex
      rcases List.mem_cons.mp hpg with he | hr
      · subst he
        exact absurd hs hx
      · exact ih (fun q hq => hall q (List.mem_cons_of_mem _ hq)) ⟨pg, hr, hs⟩

/-- What relates the observer's bookkeeping to the session. -/
structure SeqInv (w : World) (m : SeqMon) : Prop where
  proto : m.newProto = w.newProto
  server : m.server = w.server
  psize : m.pageSize = w.pageSize
  serverB : m.serverB = w.serverB
  bad : m.bad = w.bad
  nodup : (toolNames w.server).Nodup
  curPage : ∀ pg ∈ w.cache, pg.cur = true → pg.tools = (clientPage w pg.key).1
  listed : ∀ n ∈ m.listed, FirstCur n w.cache
  /-- after a list_changed that followed the last change, the cache holds only pages requested after it -/
  fresh : m.fresh = true → ∀ pg ∈ w.cache, pg.cur = true
  /-- the observer's knowledge of the listing in flight is the ghost state of the model's -/
  pendEq : m.pend = w.pend.map (fun p => (!p.cur, p.gen != w.gen))
  pendLe : ∀ p, w.pend = some p → p.gen ≤ w.gen
  pendCur : ∀ p, w.pend = some p → p.cur = true → p.tools = (clientPage w p.key).1
  pendFresh : m.fresh = true → ∀ p, w.pend = some p → p.gen = w.gen → p.cur = true

theorem seqInv_init (cfg : SeqCfg) : SeqInv (World.init cfg) (SeqMon.init cfg) :=
  { proto := rfl, server := rfl, psize := rfl, serverB := rfl, bad := rfl, nodup := List.nodup_nil, curPage := fun _ h => (by cases h),
    listed := fun _ h => (by cases h), fresh := fun _ _ h => (by cases h), pendEq := rfl,
    pendLe := fun _ h => (by cases h), pendCur := fun _ h => (by cases h), pendFresh := fun _ _ h => (by cases h) }

/-- **The client finds the server's definition** of every tool it has listed since the table last changed. -/
theorem SeqInv.lookup {w : World} {m : SeqMon} (h : SeqInv w m) {n : Bytes} (hn : n ∈ m.listed) :
    ∃ d, clientLookup w n = some d ∧ toolDef w.server n = some d := by
  obtain ⟨q, hq, hqc, d, hd, hf⟩ := firstCur_lookup (h.listed n hn)
  refine ⟨d, hf, ?_⟩
  rw [h.curPage q hq hqc] at hd
  exact toolDef_clientPage h.nodup hd

theorem seqMonStep_list_fetched (c : B64) (m : SeqMon) (k : Bytes) (tools : Tools) (next : Bytes) (hm : m.newProto = true) :
    (seqMonStep c m (.list k) (.listed false tools next)).1 =
      { m with listed := toolNames tools ++ m.listed, seen := tools ++ m.seen } := by
  simp [seqMonStep, hm]

/-- A page that is the server's current answer for cursor `k` becomes the most recent one, replacing the page of that
cursor: every name the observer counts as listed, and every name of the new page, is still found in a current page first. -/
theorem firstCur_put {w : World} {m : SeqMon} (h : SeqInv w m) (k : Bytes) (x : Page) (hxk : x.key = k) (hxc : x.cur = true)
    (hxt : x.tools = (clientPage w k).1) (n : Bytes)
    (hn : n ∈ toolNames x.tools ∨ n ∈ m.listed) : FirstCur n (x :: w.cache.filter (fun pg => pg.key != k)) := by
  simp only [FirstCur]
  split
  · exact hxc
  · rename_i hx
    rcases hn with h1 | h1
    · exact absurd (toolDef_isSome_of_name h1) hx
    · apply firstCur_filter _ (h.listed n h1)
      intro pg hpg hcur hsome
      by_cases hk : pg.key = k
      · exfalso
        apply hx
        have := h.curPage pg hpg hcur
        rw [hk] at this
        rw [hxt, ← this]
        exact hsome
      · simpa using hk

theorem seqInv_put {c : B64} {w : World} {m : SeqMon} (h : SeqInv w m) (hp : w.newProto = true) (now : Nat) (k : Bytes) :
    SeqInv (putPage w now k).1 (seqMonStep c m (.list k) (putPage w now k).2).1 := by
  have hmp : m.newProto = true := by rw [h.proto, hp]
  rw [show (putPage w now k).2 = .listed false (clientPage w k).1 (clientPage w k).2 from rfl,
    seqMonStep_list_fetched c m k _ _ hmp]
  simp only [putPage]
  refine { proto := h.proto, server := h.server, psize := h.psize, serverB := h.serverB, bad := h.bad, nodup := h.nodup, curPage := ?_, listed := ?_, fresh := ?_,
           pendEq := h.pendEq, pendLe := h.pendLe, pendCur := h.pendCur, pendFresh := h.pendFresh }
  · intro pg hpg hcur
    rcases List.mem_cons.mp hpg with he | hr
    · subst he
      rfl
    · exact h.curPage pg (List.mem_filter.mp hr).1 hcur
  · intro n hn
    exact firstCur_put h k _ rfl rfl rfl n (List.mem_append.mp hn)
  · intro hf pg hpg
    rcases List.mem_cons.mp hpg with he | hr
    · subst he
      rfl
    · exact h.fresh hf pg (List.mem_filter.mp hr).1

theorem stalePend_map (po : Option Pending) (g : Nat) :
    (stalePend po).map (fun p => (!p.cur, p.gen != g)) = (po.map (fun p => (!p.cur, p.gen != g))).map (fun x => (true, x.2)) := by
  cases po <;> simp [stalePend]

theorem seqInv_change {w : World} {m : SeqMon} (h : SeqInv w m) (ts : Tools) (hnd : (toolNames ts).Nodup) :
    SeqInv { w with server := ts, cache := staleAll w.cache, pend := stalePend w.pend }
      { m with server := ts, listed := [], fresh := false, pend := m.pend.map (fun x => (true, x.2)) } :=
  { proto := h.proto, server := rfl, psize := h.psize, serverB := h.serverB, bad := h.bad, nodup := hnd,
    curPage := fun pg hpg hcur => (by rw [mem_staleAll hpg] at hcur; cases hcur),
    listed := fun _ hn => (by cases hn), fresh := fun hf => (by cases hf),
    pendEq := (by simp only [h.pendEq]; exact (stalePend_map w.pend w.gen).symm),
    pendLe := (by
      intro p hp
      cases hw : w.pend with
      | none => simp [stalePend, hw] at hp
      | some q =>
        simp only [stalePend, hw, Option.map_some, Option.some.injEq] at hp
        subst hp
        exact h.pendLe q hw),
    pendCur := (by
      intro p hp hc
      cases hw : w.pend with
      | none => simp [stalePend, hw] at hp
      | some q =>
        simp only [stalePend, hw, Option.map_some, Option.some.injEq] at hp
        subst hp
        cases hc),
    pendFresh := fun hf => (by cases hf) }

theorem seqInv_changeBad {w : World} {m : SeqMon} (h : SeqInv w m) (b : List Bytes) :
    SeqInv { w with bad := b, cache := staleAll w.cache, pend := stalePend w.pend }
      { m with bad := b, listed := [], fresh := false, pend := m.pend.map (fun x => (true, x.2)) } :=
  { proto := h.proto, server := h.server, psize := h.psize, serverB := h.serverB, bad := rfl, nodup := h.nodup,
    curPage := fun pg hpg hcur => (by rw [mem_staleAll hpg] at hcur; cases hcur),
    listed := fun _ hn => (by cases hn), fresh := fun hf => (by cases hf),
    pendEq := (by simp only [h.pendEq]; exact (stalePend_map w.pend w.gen).symm),
    pendLe := (by
      intro p hp
      cases hw : w.pend with
      | none => simp [stalePend, hw] at hp
      | some q =>
        simp only [stalePend, hw, Option.map_some, Option.some.injEq] at hp
        subst hp
        exact h.pendLe q hw),
    pendCur := (by
      intro p hp hc
      cases hw : w.pend with
      | none => simp [stalePend, hw] at hp
      | some q =>
        simp only [stalePend, hw, Option.map_some, Option.some.injEq] at hp
        subst hp
        cases hc),
    pendFresh := fun hf => (by cases hf) }

/-- After a list_changed that followed the last change, the client knows no definition of a tool the server lists with
invalid annotations. -/
theorem lookup_bad_none {w : World} {m : SeqMon} (h : SeqInv w m) (hf : m.fresh = true) {n : Bytes}
    (hb : w.bad.contains n = true) : clientLookup w n = none := by
  unfold clientLookup
  rw [List.findSome?_eq_none_iff]
  intro pg hpg
  rw [h.curPage pg hpg (h.fresh hf pg hpg)]
  exact toolDef_clientPage_bad w pg.key hb

/-- A page the model serves from the cache raises no `seqStaleList`: after a list_changed that followed the last change the
cache holds only pages requested since, and those are the server's. -/
theorem staleHit_cached {w : World} {m : SeqMon} (h : SeqInv w m) {k : Bytes} {pg : Page}
    (hf : w.cache.find? (fun pg => pg.key == k) = some pg) (hit : Bool) : staleHit m k hit pg.tools = none := by
  unfold staleHit
  split
  · rename_i hcnd
    simp only [Bool.and_eq_true, bne_iff_ne, ne_eq] at hcnd
    obtain ⟨⟨⟨_, hfr⟩, _⟩, hne⟩ := hcnd
    exfalso
    apply hne
    have hmem := List.mem_of_find?_eq_some hf
    have hk : pg.key = k := by simpa using List.find?_some hf
    rw [← hk]
    unfold monPage
    rw [h.server, h.psize, h.bad]
    exact h.curPage pg hmem (h.fresh hfr pg hmem)
  · rfl

/-- What the observer learns from a page served from the cache keeps the invariant: after a list_changed that followed the
last change every cached page is current, so the first page that names one of its tools is. -/
theorem seqInv_learnHit {w : World} {m : SeqMon} (h : SeqInv w m) {k : Bytes} {pg : Page}
    (hf : w.cache.find? (fun pg => pg.key == k) = some pg) (hit : Bool) : SeqInv w (learnHit m k hit pg.tools) := by
  unfold learnHit
  split
  · rename_i hcnd
    simp only [Bool.and_eq_true] at hcnd
    obtain ⟨⟨⟨_, hfr⟩, _⟩, _⟩ := hcnd
    have hmem := List.mem_of_find?_eq_some hf
    refine { h with listed := ?_ }
    intro n hn
    rcases List.mem_append.mp hn with h1 | h1
    · exact firstCur_of_all_cur (h.fresh hfr) ⟨pg, hmem, toolDef_isSome_of_name h1⟩
    · exact h.listed n h1
  · exact h

/-- The invariant is preserved by every step, whatever the clock. -/
theorem seqInv_step (c : B64) {w : World} {m : SeqMon} (h : SeqInv w m) (now : Nat) (op : SeqOp) :
    SeqInv (stepW c w now op).1 (seqMonStep c m op (stepW c w now op).2).1 := by
  cases op with
  | setTool n p =>
    have := seqInv_change h _ (nodup_setTool n p h.nodup)
    simpa only [stepW, seqMonStep, h.server] using this
  | delTool n =>
    have := seqInv_change h _ (nodup_removeTool n h.nodup)
    simpa only [stepW, seqMonStep, h.server] using this
  | ttl v => exact { h with }
  | adv => exact h
  | notified =>
    refine { proto := h.proto, server := h.server, psize := h.psize, serverB := h.serverB, bad := h.bad, nodup := h.nodup, curPage := fun _ hpg => (by cases hpg),
             listed := fun _ hn => (by cases hn), fresh := fun _ _ hpg => (by cases hpg), pendEq := ?_, pendLe := ?_,
             pendCur := h.pendCur, pendFresh := ?_ }
    · simp only [stepW, seqMonStep, h.pendEq]
      cases hw : w.pend with
      | none => rfl
      | some q =>
        have := h.pendLe q hw
        have hne : (q.gen != w.gen + 1) = true := by simp; omega
        simp [hne]
    · intro p hp
      have := h.pendLe p hp
      simp only [stepW]
      omega
    · intro _ p hp hg
      have := h.pendLe p hp
      simp only [stepW] at hg
      omega
  | list k =>
    cases hp : w.newProto with
    | false =>
      have hmp : m.newProto = false := by rw [h.proto, hp]
      simp only [stepW, hp, Bool.not_false, if_true, seqMonStep, hmp, Bool.false_and, Bool.false_eq_true, if_false, learnHit]
      exact h
    | true =>
      have hmp : m.newProto = true := by rw [h.proto, hp]
      simp only [stepW, hp, Bool.not_true, Bool.false_eq_true, if_false]
      split
      · split
        · rename_i pg hf _
          simp only [seqMonStep, hmp, Bool.not_true, Bool.and_false, Bool.false_eq_true, if_false]
          exact seqInv_learnHit h hf true
        · exact seqInv_put h hp now k
      · exact seqInv_put h hp now k
  | listSend k =>
    have hsent : w.pend = none → SeqInv (sendList w k).1 (seqMonStep c m (.listSend k) (sendList w k).2).1 := by
      intro hw
      have hmpend : m.pend = none := by rw [h.pendEq, hw]; rfl
      simp only [sendList, seqMonStep, hmpend]
      exact { proto := h.proto, server := h.server, psize := h.psize, serverB := h.serverB, bad := h.bad, nodup := h.nodup, curPage := h.curPage,
              listed := h.listed, fresh := h.fresh, pendEq := (by simp),
              pendLe := (by intro p hp; simp only [Option.some.injEq] at hp; subst hp; exact Nat.le_refl _),
              pendCur := (by intro p hp _; simp only [Option.some.injEq] at hp; subst hp; rfl),
              pendFresh := (by intro _ p hp _; simp only [Option.some.injEq] at hp; subst hp; rfl) }
    simp only [stepW]
    cases hw : w.pend with
    | some q => exact h
    | none =>
      simp only []
      split
      · exact hsent hw
      · split
        · rename_i pg hf
          split
          · simp only [seqMonStep]
            exact seqInv_learnHit h hf true
          · exact hsent hw
        · exact hsent hw
  | listRecv =>
    simp only [stepW]
    cases hw : w.pend with
    | none => exact h
    | some p =>
      have hmpend : m.pend = some (!p.cur, p.gen != w.gen) := by rw [h.pendEq, hw]; rfl
      simp only [recvList, seqMonStep, recvMon, hmpend]
      cases hp : w.newProto with
      | false =>
        have hmp : m.newProto = false := by rw [h.proto, hp]
        simp only [hmp, Bool.not_false, if_true, Bool.false_and, Bool.false_eq_true, if_false]
        exact { proto := (by simp [hmp]), server := h.server, psize := h.psize, serverB := h.serverB, bad := h.bad, nodup := h.nodup, curPage := h.curPage,
                listed := h.listed, fresh := h.fresh, pendEq := rfl, pendLe := fun _ hq => (by cases hq),
                pendCur := fun _ hq => (by cases hq), pendFresh := fun _ _ hq => (by cases hq) }
      | true =>
        have hmp : m.newProto = true := by rw [h.proto, hp]
        simp only [hmp, Bool.not_true, Bool.false_eq_true, if_false, Bool.true_and]
        by_cases hg : p.gen = w.gen
        · have h1 : (p.gen != w.gen) = false := by simp [hg]
          have h2 : (p.gen == w.gen) = true := by simp [hg]
          simp only [h1, h2, Bool.false_eq_true, if_false, if_true]
          cases hc : p.cur with
          | false =>
            simp only [Bool.not_false, if_true]
            refine { proto := (by simp [hmp]), server := h.server, psize := h.psize, serverB := h.serverB, bad := h.bad, nodup := h.nodup, curPage := ?_,
                     listed := fun _ hn => (by cases hn), fresh := ?_, pendEq := rfl, pendLe := fun _ hq => (by cases hq),
                     pendCur := fun _ hq => (by cases hq), pendFresh := fun _ _ hq => (by cases hq) }
            · intro pg hpg hcur
              rcases List.mem_cons.mp hpg with he | hr
              · subst he
                cases hcur
              · exact h.curPage pg (List.mem_filter.mp hr).1 hcur
            · intro hf
              have := h.pendFresh hf p hw hg
              rw [hc] at this
              cases this
          | true =>
            have hpt := h.pendCur p hw hc
            simp only [Bool.not_true, Bool.false_eq_true, if_false]
            refine { proto := (by simp [hmp]), server := h.server, psize := h.psize, serverB := h.serverB, bad := h.bad, nodup := h.nodup, curPage := ?_,
                     listed := ?_, fresh := ?_, pendEq := rfl, pendLe := fun _ hq => (by cases hq),
                     pendCur := fun _ hq => (by cases hq), pendFresh := fun _ _ hq => (by cases hq) }
            · intro pg hpg hcur
              rcases List.mem_cons.mp hpg with he | hr
              · subst he
                exact hpt
              · exact h.curPage pg (List.mem_filter.mp hr).1 hcur
            · intro n hn
              exact firstCur_put h p.key _ rfl rfl hpt n (List.mem_append.mp hn)
            · intro hf pg hpg
              rcases List.mem_cons.mp hpg with he | hr
              · subst he
                rfl
              · exact h.fresh hf pg (List.mem_filter.mp hr).1
        · have h1 : (p.gen != w.gen) = true := by simp [hg]
          have h2 : (p.gen == w.gen) = false := by simp [hg]
          simp only [h1, h2, Bool.false_eq_true, if_false, if_true]
          exact { proto := (by simp [hmp]), server := h.server, psize := h.psize, serverB := h.serverB, bad := h.bad, nodup := h.nodup, curPage := h.curPage,
                  listed := h.listed, fresh := h.fresh, pendEq := rfl, pendLe := fun _ hq => (by cases hq),
                  pendCur := fun _ hq => (by cases hq), pendFresh := fun _ _ hq => (by cases hq) }
  | look n => exact h
  | call n a => exact h
  | setBad n =>
    have := seqInv_changeBad h (n :: w.bad)
    simpa only [stepW, seqMonStep, h.bad] using this
  | clearBad n =>
    have := seqInv_changeBad h (w.bad.filter (· != n))
    simpa only [stepW, seqMonStep, h.bad] using this
  | setToolB n p => exact { h with serverB := (by simp [stepW, seqMonStep, h.serverB]) }
  | delToolB n => exact { h with serverB := (by simp [stepW, seqMonStep, h.serverB]) }
  | callB n a => exact h

/-! ## runs -/

theorem runSeq_inv (c : B64) (ops : List (Nat × SeqOp)) : ∀ {w : World} {m : SeqMon}, SeqInv w m →
    SeqInv (runSeq c w m ops).1 (runSeq c w m ops).2.1 := by
  induction ops with
  | nil => intro w m h; exact h
  | cons x rest ih =>
    intro w m h
    obtain ⟨now, op⟩ := x
    simp only [runSeq]
    exact ih (seqInv_step c h now op)

/-- The server never runs a handler for a call it refuses, and the model's outcomes are `okSame` or a quiet refusal. -/
theorem callWith_quiet (c : B64) (w : World) (cdef : Option Props) (n : Bytes) (a : Args) :
    (callWith c w cdef n a).2 = .okSame ∨ ∃ code, (callWith c w cdef n a).2 = .notOk code true := by
  unfold callWith
  cases w.newProto <;> cases toolDef w.server n <;> simp
  rename_i ps
  cases validateParamHeaders c ps a (match cdef with | some p => generateParamHeaders c p a | none => []) <;> simp

/-- With the server's own definition in hand, the client's call of a valid tool with valid arguments carries exactly the
headers that definition demands and goes through. -/
theorem callWith_own_def (c : B64) (hc : c.Lawful) (w : World) (hp : w.newProto = true) {n : Bytes} {ps : Props}
    (hs : toolDef w.server n = some ps) (a : Args) (hv : validateAnnotations ps = true) (ha : ArgsPrim ps a) :
    callWith c w (some ps) n a = (generateParamHeaders c ps a, .okSame) := by
  unfold callWith
  simp only [hp, if_true, hs, generated_params_accepted_prim c hc ps a hv ha]

/-- **client_server_agree_over_time.**  For every lawful base64 codec, every configuration, EVERY list of operations with
ARBITRARY clocks (tools added / re-registered / removed, any `ttlMs`, time passing, list_changed arriving or not, any
cursor listed in any order, cache hits and misses, calls): if the session runs 2026-07-28 and the client has been given
the tool `n` in a tools/list result since the server's tool table last changed and since the last list_changed
(`n ∈ listed`), then for the server's definition `ps` of `n` — annotations valid — and every argument object whose bound
members are null, strings, booleans or integers within ±(2^53−1), `CallTool` sends exactly the `Mcp-Param-*` headers `ps`
demands, the server accepts the call and the handler sees the arguments sent.  No hypothesis on `ttlMs` or elapsed time. -/
theorem client_server_agree_over_time (c : B64) (hc : c.Lawful) (cfg : SeqCfg) (ops : List (Nat × SeqOp))
    (n : Bytes) (ps : Props) (a : Args)
    (hp : (runSeq c (World.init cfg) (SeqMon.init cfg) ops).1.newProto = true)
    (hn : n ∈ (runSeq c (World.init cfg) (SeqMon.init cfg) ops).2.1.listed)
    (hs : toolDef (runSeq c (World.init cfg) (SeqMon.init cfg) ops).1.server n = some ps)
    (hv : validateAnnotations ps = true) (ha : ArgsPrim ps a) :
    callModel c (runSeq c (World.init cfg) (SeqMon.init cfg) ops).1 n a = (generateParamHeaders c ps a, .okSame) := by
  have hinv := runSeq_inv c ops (seqInv_init cfg)
  obtain ⟨d, hd, hsd⟩ := hinv.lookup hn
  rw [hs] at hsd
  cases hsd
  unfold callModel
  rw [hd]
  exact callWith_own_def c hc _ hp hs a hv ha

/-- A legacy session (stateful server, or an older version negotiated): no `Mcp-*` mirror applies, every call of a tool
the server has goes through — whatever the client knows. -/
theorem legacy_call_accepted (c : B64) (w : World) (hp : w.newProto = false) {n : Bytes} {ps : Props}
    (hs : toolDef w.server n = some ps) (a : Args) : callModel c w n a = ([], .okSame) := by
  unfold callModel callWith
  simp [hp, hs]

/-- **Two servers behind one handler.**  A call that `getServer` routes to the handler's second server, by a client that
has just listed THAT server's tools, carries exactly the headers that server's definition demands and goes through — for
every world: whatever the first server has registered under the same name (other annotations, none), whatever was listed,
cached or called before.  (Seeded change C12-m16, second form: bindings cached per tool NAME on the handler.) -/
theorem other_server_call_agrees (c : B64) (hc : c.Lawful) (w : World) (hp : w.newProto = true) {n : Bytes} {ps : Props}
    (hs : toolDef w.serverB n = some ps) (a : Args) (hv : validateAnnotations ps = true) (ha : ArgsPrim ps a) :
    callModelB c w n a = (generateParamHeaders c ps a, .okSame) := by
  unfold callModelB
  rw [hs]
  exact callWith_own_def c hc { w with server := w.serverB } hp hs a hv ha

/-- … along every run: the answer depends on the second server's table alone. -/
theorem two_servers_agree_over_time (c : B64) (hc : c.Lawful) (cfg : SeqCfg) (ops : List (Nat × SeqOp))
    (n : Bytes) (ps : Props) (a : Args)
    (hp : (runSeq c (World.init cfg) (SeqMon.init cfg) ops).1.newProto = true)
    (hs : toolDef (runSeq c (World.init cfg) (SeqMon.init cfg) ops).1.serverB n = some ps)
    (hv : validateAnnotations ps = true) (ha : ArgsPrim ps a) :
    callModelB c (runSeq c (World.init cfg) (SeqMon.init cfg) ops).1 n a = (generateParamHeaders c ps a, .okSame) :=
  other_server_call_agrees c hc _ hp hs a hv ha

/-- **filterValidTools.**  No tools/list result the client caches or hands on names a tool the server lists with invalid
annotations (any world). -/
theorem clientPage_filtered (w : World) (k : Bytes) : ∀ t ∈ (clientPage w k).1, w.bad.contains t.1 = false := by
  intro t ht
  have := (List.mem_filter.mp ht).2
  simpa using this

/-- **A foreign server's invalid annotations.**  For EVERY list of operations and all clocks: once the client has handled a
list_changed after the last change of what the server lists, a call of a tool the server lists with invalid annotations
carries NO `Mcp-Param-*` header (the client has no usable definition; it does not fall back on anything it knew), and the
call is still made: the outcome is the server's verdict on a request without mirror. -/
theorem bad_tool_no_mirror_over_time (c : B64) (cfg : SeqCfg) (ops : List (Nat × SeqOp)) (n : Bytes) (a : Args)
    (hf : (runSeq c (World.init cfg) (SeqMon.init cfg) ops).2.1.fresh = true)
    (hb : (runSeq c (World.init cfg) (SeqMon.init cfg) ops).1.bad.contains n = true) :
    callModel c (runSeq c (World.init cfg) (SeqMon.init cfg) ops).1 n a =
      callWith c (runSeq c (World.init cfg) (SeqMon.init cfg) ops).1 none n a ∧
    (callModel c (runSeq c (World.init cfg) (SeqMon.init cfg) ops).1 n a).1 = [] := by
  have hinv := runSeq_inv c ops (seqInv_init cfg)
  have hl := lookup_bad_none hinv hf hb
  have hcm : callModel c (runSeq c (World.init cfg) (SeqMon.init cfg) ops).1 n a =
      callWith c (runSeq c (World.init cfg) (SeqMon.init cfg) ops).1 none n a := by
    unfold callModel; rw [hl]
  refine ⟨hcm, ?_⟩
  rw [hcm]
  generalize (runSeq c (World.init cfg) (SeqMon.init cfg) ops).1 = w
  unfold callWith
  cases w.newProto <;> cases hs : toolDef w.server n <;> simp
  rename_i ps
  cases validateParamHeaders c ps a [] <;> rfl

/-- **list_changed beats the cache, in-flight responses included.**  For EVERY list of operations with arbitrary clocks —
listings in flight (`listSend` … `listRecv`) overtaken by changes of the server's tools, by notifications and by other
listings, any `ttlMs` —: once the client has handled a list_changed after the server's table last changed (`fresh`), every
page in its cache is the server's current answer for that cursor.  (`putIfCurrent`: a result requested under an older
cache generation is not stored; seeded change C12-m13 breaks exactly this.) -/
theorem cache_current_after_list_changed (c : B64) (cfg : SeqCfg) (ops : List (Nat × SeqOp))
    (hf : (runSeq c (World.init cfg) (SeqMon.init cfg) ops).2.1.fresh = true) :
    ∀ pg ∈ (runSeq c (World.init cfg) (SeqMon.init cfg) ops).1.cache,
      pg.tools = (clientPage (runSeq c (World.init cfg) (SeqMon.init cfg) ops).1 pg.key).1 := by
  have hinv := runSeq_inv c ops (seqInv_init cfg)
  intro pg hpg
  exact hinv.curPage pg hpg (hinv.fresh hf pg hpg)

/-- … hence the next `ListTools`, at any clock and for any cursor, served from the cache or not, returns the tools of the
server's current page. -/
theorem list_current_after_list_changed (c : B64) (cfg : SeqCfg) (ops : List (Nat × SeqOp)) (now : Nat) (k : Bytes)
    (hf : (runSeq c (World.init cfg) (SeqMon.init cfg) ops).2.1.fresh = true) :
    ∃ hit next, (stepW c (runSeq c (World.init cfg) (SeqMon.init cfg) ops).1 now (.list k)).2 =
      .listed hit (clientPage (runSeq c (World.init cfg) (SeqMon.init cfg) ops).1 k).1 next := by
  have hcur := cache_current_after_list_changed c cfg ops hf
  generalize (runSeq c (World.init cfg) (SeqMon.init cfg) ops).1 = w at hcur ⊢
  simp only [stepW]
  split
  · exact ⟨false, _, rfl⟩
  · split
    · rename_i pg hfind
      split
      · have hk : pg.key = k := by simpa using List.find?_some hfind
        refine ⟨true, pg.next, ?_⟩
        rw [hcur pg (List.mem_of_find?_eq_some hfind), hk]
      · exact ⟨false, _, rfl⟩
    · exact ⟨false, _, rfl⟩

/-- A response that arrives after the client handled a list_changed that followed its request is not stored: the cache is
what it was (empty, if nothing else was listed since). -/
theorem overtaken_response_dropped (w : World) (now : Nat) (p : Pending) (hg : p.gen ≠ w.gen) :
    (recvList w now p).1.cache = w.cache := by
  unfold recvList
  have : (p.gen == w.gen) = false := by simp [hg]
  simp [this]

/-! ## the boundary: witnesses -/

section witnesses

def wCfg : SeqCfg := { newProto := true, pageSize := 2 }
def wA : Bytes := [97]
def wB : Bytes := [98]
def wC : Bytes := [99]
/-- `{"region": {"type":"string"}}`: the same property without the annotation. -/
def wPlain : Props := .cons wRegion wString .absent .nil .nil
/-- `{"region": "eu"}` -/
def wArgs : Args := .obj [(wRegion, .str [101, 117])]
def wHdrs : ParamHdrs := [(lowerBytes wHeader, [101, 117])]

def finalW (cfg : SeqCfg) (ops : List (Nat × SeqOp)) : World := (runSeq idCodec (World.init cfg) (SeqMon.init cfg) ops).1
def finalM (cfg : SeqCfg) (ops : List (Nat × SeqOp)) : SeqMon := (runSeq idCodec (World.init cfg) (SeqMon.init cfg) ops).2.1

/-- Satisfiable (and the lapsed-TTL sequence of C12-m9): `ttlMs` 40, list at 0, call at 1000 — listed, found, accepted. -/
def opsLapsed : List (Nat × SeqOp) := [(0, .ttl 40), (0, .setTool wA wProps), (0, .list []), (1000, .adv)]
example : wA ∈ (finalM wCfg opsLapsed).listed ∧ toolDef (finalW wCfg opsLapsed).server wA = some wProps ∧
    callModel idCodec (finalW wCfg opsLapsed) wA wArgs = (wHdrs, .okSame) := by decide

/-- The sequence of seeded change C12-m13: the first listing of the session is in flight (answered with the un-annotated
definition) when the tool is re-registered with an annotation and the client handles the list_changed; the overtaken
response arrives afterwards.  `putIfCurrent` drops it (the generation moved on although the cache was empty), the next
`ListTools` asks the server, and the call agrees. -/
def opsOvertaken : List (Nat × SeqOp) :=
  [(0, .ttl 60000), (0, .setTool wA wPlain), (0, .listSend []), (1, .setTool wA wProps), (12, .notified), (13, .listRecv)]
theorem overtaken_listing_not_cached : (finalW wCfg opsOvertaken).cache = [] ∧ (finalW wCfg opsOvertaken).gen = 1 ∧
    (finalW wCfg (opsOvertaken ++ [(14, .list [])])).cache.map (·.tools) = [[(wA, wProps)]] ∧
    wA ∈ (finalM wCfg (opsOvertaken ++ [(14, .list [])])).listed ∧
    callModel idCodec (finalW wCfg (opsOvertaken ++ [(14, .list [])])) wA wArgs = (wHdrs, .okSame) := by decide

/-- Why the generation must move on even when the cache is EMPTY (seeded change C12-m13 makes `invalidate` a no-op then):
take the session before the notification, leave the world as it is (nothing cached, same generation), let the response
arrive and list again — the overtaken page is served from the cache, `lookupTool` answers with the un-annotated
definition and the server refuses the call although the client handled list_changed and listed the tool afterwards. -/
theorem lazy_invalidation_disagrees :
    let w0 := finalW wCfg (opsOvertaken.take 4)
    let w2 := (stepW idCodec w0 13 .listRecv).1
    w0.cache = [] ∧ w2.cache.map (·.tools) = [[(wA, wPlain)]] ∧
    (stepW idCodec w2 14 (.list [])).1.cache.map (·.tools) = [[(wA, wPlain)]] ∧
    toolDef w2.server wA = some wProps ∧
    callModel idCodec (stepW idCodec w2 14 (.list [])).1 wA wArgs = ([], .notOk (some (-32020)) true) := by decide

/-- Not claimed either way (an observation): WITHOUT a list_changed in between, a response that was overtaken by a change of
the table and by a later listing is stored when it arrives — as the most recent page.  The tool the client had just listed
under its current definition is then looked up in the OLD page, and the call is refused.  The observer stops counting the
names as listed when such a response arrives. -/
def opsOvertakenQuiet : List (Nat × SeqOp) :=
  [(0, .ttl 60000), (0, .setTool wA wPlain), (0, .listSend []), (1, .setTool wA wProps), (2, .list []), (3, .listRecv)]
theorem overtaken_without_notification_forgets : wA ∉ (finalM wCfg opsOvertakenQuiet).listed ∧
    wA ∈ (finalM wCfg (opsOvertakenQuiet.take 5)).listed ∧
    clientLookup (finalW wCfg opsOvertakenQuiet) wA = some wPlain ∧
    callModel idCodec (finalW wCfg opsOvertakenQuiet) wA wArgs = ([], .notOk (some (-32020)) true) := by decide

/-- The two-server sequence of C12-m16: tool `a` of the first server mirrors `region`, it is listed and called; the second
server's `a` has no annotation: the call routed to it carries no header and goes through (and vice versa). -/
def opsTwoServers : List (Nat × SeqOp) :=
  [(0, .setTool wA wProps), (0, .setToolB wA wPlain), (0, .list []), (0, .call wA wArgs)]
theorem two_servers_same_name : callModel idCodec (finalW wCfg opsTwoServers) wA wArgs = (wHdrs, .okSame) ∧
    callModelB idCodec (finalW wCfg opsTwoServers) wA wArgs = ([], .okSame) ∧
    callModelB idCodec { finalW wCfg opsTwoServers with serverB := [(wA, wProps)], server := [(wA, wPlain)] } wA wArgs =
      (wHdrs, .okSame) := by decide

/-- A foreign server starts listing `a` with invalid annotations: after the list_changed and a re-listing the client does
not know `a` any more, sends no header; a server whose registered definition demands one refuses (the server is
inconsistent with itself), one whose definition demands none accepts. -/
def opsBad (p : Props) : List (Nat × SeqOp) :=
  [(0, .setTool wA p), (0, .list []), (1, .setBad wA), (12, .notified), (13, .list [])]
theorem bad_tool_dropped : (finalW wCfg (opsBad wProps)).cache.map (·.tools) = [[]] ∧
    clientLookup (finalW wCfg (opsBad wProps)) wA = none ∧
    callModel idCodec (finalW wCfg (opsBad wProps)) wA wArgs = ([], .notOk (some (-32020)) true) ∧
    callModel idCodec (finalW wCfg (opsBad wPlain)) wA wArgs = ([], .okSame) ∧
    callModel idCodec (finalW wCfg (opsBad wProps ++ [(14, .clearBad wA), (15, .list [])])) wA wArgs = (wHdrs, .okSame) := by
  decide

/-- Never listed: the client sends no header, the server (which knows its tool) demands one. -/
def opsNever : List (Nat × SeqOp) := [(0, .setTool wA wProps)]
theorem never_listed_disagrees : wA ∉ (finalM wCfg opsNever).listed ∧
    callModel idCodec (finalW wCfg opsNever) wA wArgs = ([], .notOk (some (-32020)) true) := by decide

/-- Listed, then re-registered with an annotation (no list_changed reached the client, nothing re-listed). -/
def opsChanged : List (Nat × SeqOp) := [(0, .setTool wA wPlain), (0, .list []), (5, .setTool wA wProps)]
theorem changed_since_disagrees : wA ∉ (finalM wCfg opsChanged).listed ∧
    clientLookup (finalW wCfg opsChanged) wA = some wPlain ∧
    callModel idCodec (finalW wCfg opsChanged) wA wArgs = ([], .notOk (some (-32020)) true) := by decide

/-- Page size 1: `b` is listed; tool `a` is added (the table changes, `b`'s definition does not); the client lists the
first page again: the page that named `b` is replaced, `b` is forgotten.  "since the table last changed" cannot be weakened
to "since the tool's own definition last changed". -/
def opsShift : List (Nat × SeqOp) := [(0, .setTool wB wProps), (0, .list []), (1, .setTool wA wPlain), (2, .list [])]
theorem forgotten_after_page_shift : wB ∉ (finalM { wCfg with pageSize := 1 } opsShift).listed ∧
    toolDef (finalW { wCfg with pageSize := 1 } opsShift).server wB = some wProps ∧
    clientLookup (finalW { wCfg with pageSize := 1 } opsShift) wB = none ∧
    callModel idCodec (finalW { wCfg with pageSize := 1 } opsShift) wB wArgs = ([], .notOk (some (-32020)) true) := by decide

/-- preflight-F32.  Page size 2, tools a b c: the client lists both pages (cursors "" and "b").  `b` is removed and `c`
re-registered with an annotation; the client lists again — one page now, under cursor "".  The page cached under cursor
"b" still holds the OLD `c`.  `c` is listed under its current definition, the repaired `lookupTool` finds it; the pinned
one, ranging over a map, may answer with the old one — and then the call is refused. -/
def opsF32 : List (Nat × SeqOp) :=
  [(0, .setTool wA wPlain), (0, .setTool wB wPlain), (0, .setTool wC wPlain), (0, .list []), (0, .list wB),
   (1, .delTool wB), (1, .setTool wC wProps), (2, .list [])]
theorem f32_unrepaired_disagrees : wC ∈ (finalM wCfg opsF32).listed ∧
    toolDef (finalW wCfg opsF32).server wC = some wProps ∧
    clientLookup (finalW wCfg opsF32) wC = some wProps ∧
    LookupAny (finalW wCfg opsF32) wC (some wPlain) ∧
    callWith idCodec (finalW wCfg opsF32) (some wPlain) wC wArgs = ([], .notOk (some (-32020)) true) := by
  refine ⟨by decide, by decide, by decide, ?_, by decide⟩
  refine ⟨{ key := wB, tools := [(wC, wPlain)], next := [], ttl := 0, recv := 0, cur := false }, ?_, by decide⟩
  decide

end witnesses

end Preflight
