import McpModel.Preflight.Props
import McpModel.Preflight.Monitor
import McpModel.Preflight.SeqProps
/-!
# C12 — clause soundness of the typed monitors (`Monitor.lean`)

For every clause a monitor can report, the corresponding clause of the property is stated as a predicate `P_…` on the
RECORD alone — the typed operation (the request / the helper's input) and the typed observation of the implementation —
written from the property text: no `verdict`, no `validateParamHeaders`, no monitor bookkeeping.  `sound_…`: whenever
the monitor reports the clause, the predicate is false on that record.  The records of this engine are independent
evaluations (the monitors are stateless), so an observation trace is one record.

Vocabulary shared with the model: the decodings the property itself refers to (`acceptTokens`: the tokens of `Accept`;
`unmarshalPrimitive`, `decodeHeaderValue`, `primitiveEqual`: what "the header equals the body value" means, `Mirrors`
in Props.lean; `bindings`: the `x-mcp-header` bindings of a tool, characterised independently of the walk by
`binding_path_resolves` / `bindings_complete` / `binding_paths_nodup`; `decodeName` / `decodeArgs`: the member called
exactly `name` / `arguments`, characterised by `dispatched_name_is_exact_member` / `args_are_last_member`).
-/
namespace Preflight
open Generated.Preflight

/-! ## the specification constants are the regenerated ones -/

theorem specJson_eq : specJson = appJson := by decide
theorem spec20260728_eq : spec20260728 = protocolVersion20260728 := by decide
theorem spec20260728_eq_min : spec20260728 = minVersionForStandardHeaders := by decide
theorem spec20250618_eq : spec20250618 = protocolVersion20250618 := by decide
theorem spec20250326_eq : spec20250326 = protocolVersion20250326 := by decide
theorem specSupported_eq : specSupported = supportedProtocolVersions := by decide
theorem specNamed_eq : specNamed = namedMethods := by decide
theorem specToolsCall_eq : specToolsCall = methodCallTool := by decide
theorem specDiscover_eq : specDiscover = methodDiscover := by decide
theorem specMaxSafe_eq : specMaxSafe = maxSafeInteger := by decide
theorem specMinSafe_eq : -specMaxSafe = minSafeInteger := by decide
theorem specDefaultLimit_eq : specDefaultLimit = (defaultMaxRequestBodyBytes : Int) := by decide

/-! ## the executable predicates of the monitors and their declarative readings -/

theorem specJsonTokens_eq : specJsonTokens = [tJson, tAppStar, tAny] := by decide
theorem specStreamTokens_eq : specStreamTokens = [tStream, tTextStar, tAny] := by decide

/-- The monitor's own reading of `Accept` and the model's `streamableAccepts` (regenerated `switch`) agree. -/
theorem specAccepts_eq (values : List Bytes) : specAccepts values = streamableAccepts values := by
  rw [accepts_table]
  unfold specAccepts
  simp only [specJsonTokens_eq, specStreamTokens_eq]
  congr 1 <;> (congr 1; funext t; simp [eq_comm])

theorem unmarshalPrimitive_safe {v : JV} {pr : Prim} (h : unmarshalPrimitive v = some pr) : primSafeB pr = true := by
  cases pr with
  | int n =>
    obtain ⟨h1, h2⟩ := unmarshalPrimitive_int_range h
    rw [← specMinSafe_eq] at h1
    rw [← specMaxSafe_eq] at h2
    simp [primSafeB, h1, h2]
  | _ => rfl

theorem primSafeB_int (n : Int) :
    primSafeB (.int n) = true ↔ -(9007199254740991 : Int) ≤ n ∧ n ≤ 9007199254740991 := by
  unfold primSafeB specMaxSafe
  rw [Bool.and_eq_true, decide_eq_true_eq, decide_eq_true_eq]

/-- The monitor's executable mirror test is the documented requirement `Mirrors`. -/
theorem bindingMirrors_iff (c : B64) (a : Args) (h : ParamHdrs) (b : Binding) :
    bindingMirrors c a h b = true ↔ Mirrors c a h b := by
  unfold bindingMirrors Mirrors
  cases hl : a.lookup b.path with
  | none => simp
  | some v =>
    cases v with
    | null => simp
    | _ =>
      all_goals
        simp only
        cases hu : unmarshalPrimitive _ with
        | none => simp
        | some pr =>
          simp only [unmarshalPrimitive_safe hu, Bool.true_and, Option.some.injEq, exists_eq_left']
          by_cases hh : h.get b.header = []
          · simp [hh]
          · simp only [hh, beq_iff_eq, if_false, false_and, false_or, ne_eq, not_false_eq_true, true_and]
            cases decodeHeaderValue c (h.get b.header) <;> simp

theorem bindingMirrors_false_iff (c : B64) (a : Args) (h : ParamHdrs) (b : Binding) :
    bindingMirrors c a h b = false ↔ ¬ Mirrors c a h b := by
  rw [← bindingMirrors_iff, Bool.not_eq_true]

/-- Arguments valid for the tool, as the property words it: every bound parameter that is present is `null`, a string, a
boolean, or an integer within ±(2^53−1) — in any spelling the JSON decoder reads as such. -/
def ArgsValidDoc (p : Props) (a : Args) : Prop :=
  ∀ b ∈ bindings p, ∀ v, a.lookup b.path = some v →
    v = .null ∨ ∃ pr, unmarshalPrimitive v = some pr ∧ ∀ n, pr = .int n → -(9007199254740991 : Int) ≤ n ∧ n ≤ 9007199254740991

theorem argsValidB_iff (p : Props) (a : Args) : argsValidB p a = true ↔ ArgsValidDoc p a := by
  unfold argsValidB ArgsValidDoc
  rw [List.all_eq_true]
  constructor
  · intro h b hb v hv
    have := h b hb
    rw [hv] at this
    cases v with
    | null => exact Or.inl rfl
    | _ =>
      all_goals
        right
        simp only at this
        cases hu : unmarshalPrimitive _ with
        | none => simp [hu] at this
        | some pr =>
          refine ⟨pr, rfl, ?_⟩
          intro n hn
          subst hn
          rw [hu] at this
          exact (primSafeB_int n).mp this
  · intro h b hb
    cases hl : a.lookup b.path with
    | none => rfl
    | some v =>
      rcases h b hb v hl with rfl | ⟨pr, hpr, hr⟩
      · rfl
      · cases v with
        | null => rfl
        | _ =>
          all_goals
            simp only [hpr]
            cases pr with
            | int n => exact (primSafeB_int n).mpr (hr n rfl)
            | _ => rfl

theorem argsValidDoc_prim {p : Props} {a : Args} (h : ArgsValidDoc p a) : ArgsPrim p a := by
  intro b hb v hv
  rcases h b hb v hv with h0 | ⟨pr, hpr, _⟩
  · exact Or.inl h0
  · exact Or.inr ⟨pr, hpr⟩

/-! ## whole requests: the documented preconditions, declaratively -/

/-- The per-request-metadata rules (SEP-2575) bind a request of the body: the protocol is ≥ 2026-07-28 (an absent version
header means 2025-03-26), or the request itself carries a `_meta` protocol version. -/
def MetaBinds (r : Req) (m : Msg) : Prop := bLe spec20260728 (specPv r) = true ∨ m.metaVersion ≠ []

/-- `Violates c r p`: the request `r` violates the documented precondition `p` (property text; `c`: base64). -/
def Violates (c : B64) (r : Req) : Precond → Prop
  | .host => r.protectionDisabled = false ∧ r.hasLocalAddr = true ∧ r.listenerLoopback = true ∧ r.hostLoopback = false
  | .origin => r.originRejects = true
  | .version => r.version ≠ [] ∧ r.version ∉ specSupported ∧ bLt r.version spec20260728 = true
  | .method => r.method ≠ .post
  | .media => r.baseMedia ≠ specJson
  | .accept => ¬ ((∃ t ∈ acceptTokens r.accept, t ∈ specJsonTokens) ∧ (∃ t ∈ acceptTokens r.accept, t ∈ specStreamTokens))
  | .session => r.kind ≠ .stateless ∧ r.sess = .unknown
  | .lastEventId => r.lastEventId = true
  | .size => specLimit r > 0 ∧ ((r.bodyLen : Int) > specLimit r ∨ ∃ d, r.declared = some d ∧ (d : Int) > specLimit r)
  | .delivered => r.readFails = true
  | .empty => r.bodyLen = 0
  | .malformed => (match r.content with | .malformed => True | _ => False)
  | .batch => reqIsBatch r = true ∧ bLe spec20250618 (specPv r) = true
  | .check => ∃ m ∈ reqMsgs r, m.isReq = true ∧ m.check ≠ .ok
  | .statefulNew => ∃ m ∈ reqMsgs r, m.isReq = true ∧ MetaBinds r m ∧ r.kind ≠ .stateless ∧ m.method ≠ specDiscover
  | .versionMissing => ∃ m ∈ reqMsgs r, m.isReq = true ∧ MetaBinds r m ∧ r.version = []
  | .metaMissing => ∃ m ∈ reqMsgs r, m.isReq = true ∧ MetaBinds r m ∧ m.metaVersion = []
  | .versionDiffers => ∃ m ∈ reqMsgs r, m.isReq = true ∧ MetaBinds r m ∧ r.version ≠ [] ∧ m.metaVersion ≠ [] ∧
      r.version ≠ m.metaVersion
  | .mcpMethod => ∃ m, soleMsg r = some m ∧ specNewProto r = true ∧ m.isReq = true ∧ r.mcpMethod ≠ m.method
  | .mcpName => ∃ m, soleMsg r = some m ∧ specNewProto r = true ∧ m.isReq = true ∧ m.method ∈ specNamed ∧
      (m.nameOk = false ∨ r.mcpName = [] ∨ r.mcpName ≠ m.name)
  | .mcpParam => ∃ m p, soleMsg r = some m ∧ specNewProto r = true ∧ m.isReq = true ∧ m.tool = some p ∧
      m.method = specToolsCall ∧ m.nameOk = true ∧ (match m.args with | .bad => False | _ => True) ∧
      ∃ b ∈ bindings p, ¬ Mirrors c m.args r.paramHdrs b
  | .sseNoSession => r.sess = .none
  | .sseOneMessage => soleMsg r = none

theorem metaBinds_iff (r : Req) (m : Msg) : metaBinds r m = true ↔ MetaBinds r m := by
  unfold metaBinds MetaBinds specNewProto
  simp

theorem soleMsg_none_iff (r : Req) :
    soleMsg r = none ↔ (match r.content with | .msgs false [_] => false | _ => true) = true := by
  unfold soleMsg
  split <;> simp_all

/-- The monitor's executable test is the declarative `Violates`. -/
theorem violatesB_iff (c : B64) (r : Req) (p : Precond) : violatesB c r p = true ↔ Violates c r p := by
  cases p
  case host => simp [violatesB, Violates, and_assoc]
  case origin => simp [violatesB, Violates]
  case version => simp [violatesB, Violates, and_assoc]
  case method => simp [violatesB, Violates]
  case media => simp [violatesB, Violates]
  case accept =>
    simp only [violatesB, Violates, specAccepts]
    have hA : ((acceptTokens r.accept).any specJsonTokens.contains) = true ↔
        ∃ t ∈ acceptTokens r.accept, t ∈ specJsonTokens := by simp [List.any_eq_true]
    have hB : ((acceptTokens r.accept).any specStreamTokens.contains) = true ↔
        ∃ t ∈ acceptTokens r.accept, t ∈ specStreamTokens := by simp [List.any_eq_true]
    rw [Bool.not_eq_true', ← Bool.not_eq_true, Bool.and_eq_true, hA, hB]
  case session => simp [violatesB, Violates]
  case lastEventId => simp [violatesB, Violates]
  case size =>
    simp only [violatesB, Violates]
    cases r.declared <;> simp
  case delivered => simp [violatesB, Violates]
  case empty => simp [violatesB, Violates]
  case malformed => simp only [violatesB, Violates]; cases r.content <;> simp
  case batch => simp [violatesB, Violates]
  case check => simp [violatesB, Violates, List.any_eq_true]
  case statefulNew => simp [violatesB, Violates, List.any_eq_true, metaBinds_iff, and_assoc]
  case versionMissing => simp [violatesB, Violates, List.any_eq_true, metaBinds_iff, and_assoc]
  case metaMissing => simp [violatesB, Violates, List.any_eq_true, metaBinds_iff, and_assoc]
  case versionDiffers => simp [violatesB, Violates, List.any_eq_true, metaBinds_iff, and_assoc]
  case mcpMethod => simp only [violatesB, Violates]; cases soleMsg r <;> simp [and_assoc]
  case mcpName => simp only [violatesB, Violates]; cases soleMsg r <;> simp [and_assoc, or_assoc]
  case mcpParam =>
    simp only [violatesB, Violates]
    cases soleMsg r with
    | none => simp
    | some m =>
      cases ht : m.tool with
      | none => simp [ht]
      | some q =>
        cases ha : m.args <;>
          simp [ht, ha, List.any_eq_true, bindingMirrors_false_iff, and_assoc]
  case sseNoSession => simp [violatesB, Violates]
  case sseOneMessage => exact (soleMsg_none_iff r).symm

theorem mem_violations (c : B64) (r : Req) (p : Precond) (a : List (Nat × Option Int)) :
    (p, a) ∈ violations c r ↔ p ∈ precondsOf r.kind ∧ Violates c r p ∧ a = mandated r.kind p := by
  unfold violations
  simp only [List.mem_map, List.mem_filter, Prod.mk.injEq, violatesB_iff]
  constructor
  · rintro ⟨q, ⟨h1, h2⟩, rfl, rfl⟩
    exact ⟨h1, h2, rfl⟩
  · rintro ⟨h1, h2, rfl⟩
    exact ⟨p, ⟨h1, h2⟩, rfl, rfl⟩

theorem violations_nil_iff (c : B64) (r : Req) : violations c r = [] ↔ ∀ p ∈ precondsOf r.kind, ¬ Violates c r p := by
  constructor
  · intro h p hp hv
    have := (mem_violations c r p _).mpr ⟨hp, hv, rfl⟩
    rw [h] at this
    cases this
  · intro h
    cases hv : violations c r with
    | nil => rfl
    | cons x xs =>
      obtain ⟨p, a⟩ := x
      have hm : (p, a) ∈ violations c r := by rw [hv]; exact List.mem_cons_self
      obtain ⟨h1, h2, _⟩ := (mem_violations c r p a).mp hm
      exact absurd h2 (h p h1)

/-! ### the clauses of the property on one `http` record -/

/-- *Refused ⇒ untouched*: a request that was not handed over reached no middleware and no handler. -/
def P_untouched (o : HttpObs) : Prop := o.disp ≠ 1 → o.reached = 0 ∧ o.handled = 0

/-- *dispatch_sound*: a POST whose messages were handed to the MCP server violates no documented precondition of the
handler it was sent to. -/
def P_dispatch_sound (c : B64) (r : Req) (o : HttpObs) : Prop :=
  o.disp = 1 → r.method = .post → ∀ p ∈ precondsOf r.kind, ¬ Violates c r p

/-- *violation_status*: a POST that was not handed over violates some documented precondition, and its answer (status,
JSON-RPC code) is one mandated for a precondition it violates. -/
def P_violation_status (c : B64) (r : Req) (o : HttpObs) : Prop :=
  o.disp ≠ 1 → r.method = .post → ∃ p ∈ precondsOf r.kind, Violates c r p ∧ (o.status, o.code) ∈ mandated r.kind p

/-- *The mirror seen from the handler*: under ≥ 2026-07-28, when the single request of the body names a tool / prompt /
resource and made exactly one handler run, that handler ran for the name `Mcp-Name` announced. -/
def P_handler_name (r : Req) (o : HttpObs) : Prop :=
  r.kind ≠ .sse → ∀ m, soleMsg r = some m → o.disp = 1 → o.handled = 1 → m.isReq = true →
    bLe spec20260728 r.version = true → m.method ∈ specNamed → o.names = [] ∨ o.names = [r.mcpName]

/-- What it takes for `httpMonitor` to report `cl`. -/
theorem httpMonitor_fires {c : B64} {r : Req} {o : HttpObs} {cl : Clause} (h : httpMonitor c r o = some cl) :
    (cl = .reached o.status ∧ o.disp ≠ 1 ∧ (o.reached ≠ 0 ∨ o.handled ≠ 0)) ∨
    (r.method = .post ∧ o.disp = 1 ∧ ∃ p a rest, violations c r = (p, a) :: rest ∧ cl = .dispatchSound p) ∨
    (r.method = .post ∧ o.disp ≠ 1 ∧ violations c r = [] ∧ (cl = .httpF6 ∨ cl = .refusedClean o.status o.code)) ∨
    (r.method = .post ∧ o.disp ≠ 1 ∧ (∀ v ∈ violations c r, (o.status, o.code) ∉ v.2) ∧
      (cl = .httpF30 ∨ cl = .notMandated o.status o.code)) := by
  unfold httpMonitor at h
  simp only at h
  split at h
  · rename_i h1
    cases h
    simp only [Bool.and_eq_true, Bool.not_eq_true', beq_eq_false_iff_ne, Bool.or_eq_true, bne_iff_ne] at h1
    exact Or.inl ⟨rfl, h1.1, h1.2⟩
  · split at h
    · cases h
    · rename_i h1 h2
      have hpost : r.method = .post := by simpa using h2
      split at h
      · rename_i hd
        have hd' : o.disp = 1 := by simpa using hd
        split at h
        · rename_i p a rest hv
          cases h
          exact Or.inr (Or.inl ⟨hpost, hd', p, a, rest, hv, rfl⟩)
        · cases h
      · rename_i hd
        have hd' : o.disp ≠ 1 := by simpa using hd
        split at h
        · rename_i hv
          refine Or.inr (Or.inr (Or.inl ⟨hpost, hd', hv, ?_⟩))
          split at h <;> cases h
          · exact Or.inl rfl
          · exact Or.inr rfl
        · split at h
          · cases h
          · rename_i hc
            refine Or.inr (Or.inr (Or.inr ⟨hpost, hd', ?_, ?_⟩))
            · intro v hv hin
              apply hc
              rw [List.any_eq_true]
              exact ⟨v, hv, by simpa using hin⟩
            · split at h <;> cases h
              · exact Or.inl rfl
              · exact Or.inr rfl

/-- **sound_reached.** -/
theorem sound_reached {c : B64} {r : Req} {o : HttpObs} {st : Nat} (h : httpMonitor c r o = some (.reached st)) :
    ¬ P_untouched o := by
  rcases httpMonitor_fires h with ⟨_, hd, hr⟩ | ⟨_, _, _, _, _, _, hc⟩ | ⟨_, _, _, hc⟩ | ⟨_, _, _, hc⟩
  · intro hp
    obtain ⟨h1, h2⟩ := hp hd
    rcases hr with hr | hr
    · exact hr h1
    · exact hr h2
  · cases hc
  · rcases hc with hc | hc <;> cases hc
  · rcases hc with hc | hc <;> cases hc

/-- **sound_dispatchSound.** When the monitor reports "dispatched although `p`", the request was a dispatched POST and it
does violate the documented precondition `p` of its handler … -/
theorem dispatchSound_names_violation {c : B64} {r : Req} {o : HttpObs} {p : Precond}
    (h : httpMonitor c r o = some (.dispatchSound p)) :
    o.disp = 1 ∧ r.method = .post ∧ p ∈ precondsOf r.kind ∧ Violates c r p := by
  rcases httpMonitor_fires h with ⟨hc, _⟩ | ⟨hm, hd, q, a, rest, hv, hc⟩ | ⟨_, _, _, hc⟩ | ⟨_, _, _, hc⟩
  · cases hc
  · cases hc
    have hmem : (p, a) ∈ violations c r := by rw [hv]; exact List.mem_cons_self
    obtain ⟨h1, h2, _⟩ := (mem_violations c r p a).mp hmem
    exact ⟨hd, hm, h1, h2⟩
  · rcases hc with hc | hc <;> cases hc
  · rcases hc with hc | hc <;> cases hc

/-- … so the clause *dispatch_sound* of the property is false on the record. -/
theorem sound_dispatchSound {c : B64} {r : Req} {o : HttpObs} {p : Precond}
    (h : httpMonitor c r o = some (.dispatchSound p)) : ¬ P_dispatch_sound c r o := by
  obtain ⟨hd, hm, hp, hv⟩ := dispatchSound_names_violation h
  exact fun hP => hP hd hm p hp hv

/-- What the four refusal clauses have in common: a POST that was not handed over, and no violated precondition mandates
its answer. -/
theorem refusal_clause_fires {c : B64} {r : Req} {o : HttpObs} {cl : Clause} (h : httpMonitor c r o = some cl)
    (hcl : cl = .httpF6 ∨ cl = .refusedClean o.status o.code ∨ cl = .httpF30 ∨ cl = .notMandated o.status o.code) :
    o.disp ≠ 1 ∧ r.method = .post ∧
      ∀ p ∈ precondsOf r.kind, Violates c r p → (o.status, o.code) ∉ mandated r.kind p := by
  rcases httpMonitor_fires h with ⟨hc, _⟩ | ⟨_, _, _, _, _, _, hc⟩ | ⟨hm, hd, hv, _⟩ | ⟨hm, hd, hv, _⟩
  · subst hc; rcases hcl with hc | hc | hc | hc <;> cases hc
  · subst hc; rcases hcl with hc | hc | hc | hc <;> cases hc
  · refine ⟨hd, hm, ?_⟩
    intro p hp hvio
    exact absurd hvio ((violations_nil_iff c r).mp hv p hp)
  · refine ⟨hd, hm, ?_⟩
    intro p hp hvio
    exact hv (p, mandated r.kind p) ((mem_violations c r p _).mpr ⟨hp, hvio, rfl⟩)

theorem not_violation_status {c : B64} {r : Req} {o : HttpObs}
    (h : o.disp ≠ 1 ∧ r.method = .post ∧
      ∀ p ∈ precondsOf r.kind, Violates c r p → (o.status, o.code) ∉ mandated r.kind p) :
    ¬ P_violation_status c r o := by
  intro hP
  obtain ⟨p, hp, hv, hm⟩ := hP h.1 h.2.1
  exact h.2.2 p hp hv hm

/-- **sound_refusedClean.** "A request meeting every precondition was refused": *violation_status* is false, and indeed no
precondition is violated. -/
theorem sound_refusedClean {c : B64} {r : Req} {o : HttpObs} {st : Nat} {code : Option Int}
    (h : httpMonitor c r o = some (.refusedClean st code)) :
    ¬ P_violation_status c r o ∧ ∀ p ∈ precondsOf r.kind, ¬ Violates c r p := by
  rcases httpMonitor_fires h with ⟨hc, _⟩ | ⟨_, _, _, _, _, _, hc⟩ | ⟨hm, hd, hv, hc⟩ | ⟨_, _, _, hc⟩
  · cases hc
  · cases hc
  · rcases hc with hc | hc <;> cases hc
    exact ⟨not_violation_status (refusal_clause_fires h (Or.inr (Or.inl rfl))), (violations_nil_iff c r).mp hv⟩
  · rcases hc with hc | hc <;> cases hc

/-- **sound_httpF6** (the shape of finding F6: refused with -32020 although nothing is violated). -/
theorem sound_httpF6 {c : B64} {r : Req} {o : HttpObs} (h : httpMonitor c r o = some .httpF6) :
    ¬ P_violation_status c r o :=
  not_violation_status (refusal_clause_fires h (Or.inl rfl))

/-- **sound_notMandated.** -/
theorem sound_notMandated {c : B64} {r : Req} {o : HttpObs} {st : Nat} {code : Option Int}
    (h : httpMonitor c r o = some (.notMandated st code)) : ¬ P_violation_status c r o := by
  have hst : st = o.status ∧ code = o.code := by
    rcases httpMonitor_fires h with ⟨hc, _⟩ | ⟨_, _, _, _, _, _, hc⟩ | ⟨_, _, _, hc⟩ | ⟨_, _, _, hc⟩
    · cases hc
    · cases hc
    · rcases hc with hc | hc <;> cases hc
    · rcases hc with hc | hc <;> cases hc
      exact ⟨rfl, rfl⟩
  obtain ⟨rfl, rfl⟩ := hst
  exact not_violation_status (refusal_clause_fires h (Or.inr (Or.inr (Or.inr rfl))))

/-- **sound_httpF30** (the shape of finding preflight-F30: 400 where 413 is mandated). -/
theorem sound_httpF30 {c : B64} {r : Req} {o : HttpObs} (h : httpMonitor c r o = some .httpF30) :
    ¬ P_violation_status c r o :=
  not_violation_status (refusal_clause_fires h (Or.inr (Or.inr (Or.inl rfl))))

/-- **sound_handlerName.** -/
theorem sound_handlerName {r : Req} {o : HttpObs} {names : List Bytes} {announced : Bytes}
    (h : handlerNameMonitor r o = some (.handlerName names announced)) : ¬ P_handler_name r o := by
  unfold handlerNameMonitor at h
  split at h
  · cases h
  · rename_i k ct m hct hk
    split at h
    · rename_i hc
      simp only [Bool.and_eq_true, beq_iff_eq, bne_iff_ne, ne_eq, List.contains_iff_mem] at hc
      obtain ⟨⟨⟨⟨⟨⟨h1, h2⟩, h3⟩, h4⟩, h5⟩, h6⟩, h7⟩ := hc
      intro hP
      have hsole : soleMsg r = some m := by unfold soleMsg; rw [hct]
      have hk' : r.kind ≠ .sse := hk
      rcases hP hk' m hsole h1 h2 h3 h4 h5 with hn | hn
      · exact h6 hn
      · exact h7 hn
    · cases h
  · cases h

/-- **sound_f31_http.** The clause of finding preflight-F31 is a re-labelling: it is only reported when one of the other
clauses fired, so one of the four statements above is false on the record. -/
theorem httpMonitorAll_fires {c : B64} {r : Req} {ins : List MsgIn} {o : HttpObs} {cl : Clause}
    (h : httpMonitorAll c r ins o = some cl) :
    ∃ v, (httpMonitor c r o = some v ∨ (httpMonitor c r o = none ∧ handlerNameMonitor r o = some v)) ∧
      (cl = v ∨ cl = .f31) := by
  unfold httpMonitorAll at h
  have key : ∀ x, (httpMonitor c r o).orElse (fun _ => handlerNameMonitor r o) = some x →
      (httpMonitor c r o = some x ∨ (httpMonitor c r o = none ∧ handlerNameMonitor r o = some x)) := by
    intro x hx
    cases hm : httpMonitor c r o with
    | none => rw [hm] at hx; exact Or.inr ⟨rfl, hx⟩
    | some y => rw [hm] at hx; exact Or.inl hx
  split at h
  · rename_i v mi hv
    split at h
    · split at h
      · cases h; exact ⟨v, key v hv, Or.inr rfl⟩
      · cases h; exact ⟨_, key _ hv, Or.inl rfl⟩
    · cases h; exact ⟨_, key _ hv, Or.inl rfl⟩
  · exact ⟨cl, key cl h, Or.inl rfl⟩

theorem handlerNameMonitor_shape {r : Req} {o : HttpObs} {v : Clause} (h : handlerNameMonitor r o = some v) :
    v = .handlerName o.names r.mcpName := by
  unfold handlerNameMonitor at h
  split at h
  · cases h
  · split at h <;> cases h
    rfl
  · cases h

/-- **sound_http (every clause, including the re-labelling preflight-F31).** Whatever the monitors of a whole request
report, one of the four clauses of the property is false on the record. -/
theorem sound_http {c : B64} {r : Req} {ins : List MsgIn} {o : HttpObs} {cl : Clause}
    (h : httpMonitorAll c r ins o = some cl) :
    ¬ (P_untouched o ∧ P_dispatch_sound c r o ∧ P_violation_status c r o ∧ P_handler_name r o) := by
  rintro ⟨p1, p2, p3, p4⟩
  obtain ⟨v, hv, _⟩ := httpMonitorAll_fires h
  rcases hv with hv | ⟨_, hv⟩
  · rcases httpMonitor_fires hv with ⟨hc, _⟩ | ⟨_, _, _, _, _, _, hc⟩ | ⟨_, _, _, hc⟩ | ⟨_, _, _, hc⟩
    · subst hc; exact sound_reached hv p1
    · subst hc; exact sound_dispatchSound hv p2
    · rcases hc with hc | hc <;> subst hc
      · exact sound_httpF6 hv p3
      · exact (sound_refusedClean hv).1 p3
    · rcases hc with hc | hc <;> subst hc
      · exact sound_httpF30 hv p3
      · exact sound_notMandated hv p3
  · have := handlerNameMonitor_shape hv
    subst this
    exact sound_handlerName hv p4

/-! ## helper records -/

/-- *accepts_table*: the flags are the documented reading of `Accept`. -/
def P_accepts (values : List Bytes) (impl : Bool × Bool) : Prop :=
  (impl.1 = true ↔ ∃ t ∈ acceptTokens values, t ∈ specJsonTokens) ∧
  (impl.2 = true ↔ ∃ t ∈ acceptTokens values, t ∈ specStreamTokens)

theorem sound_acceptsTable {values : List Bytes} {impl : Bool × Bool} {cl : Clause}
    (h : acceptsMonitor values impl = some cl) : ¬ P_accepts values impl := by
  unfold acceptsMonitor at h
  split at h
  · cases h
  · rename_i hne
    rintro ⟨h1, h2⟩
    apply hne
    obtain ⟨a, b⟩ := impl
    unfold specAccepts
    simp only [Prod.mk.injEq]
    constructor
    · rw [Bool.eq_iff_iff, h1]; simp [List.any_eq_true]
    · rw [Bool.eq_iff_iff, h2]; simp [List.any_eq_true]

/-- *decode_encode_header_value*: what the client encodes decodes to the value's canonical string. -/
def P_roundtrip (v : Prim) (decoded : Option Bytes) : Prop := decoded = some (primToString v)

theorem sound_rt {v : Prim} {decoded : Option Bytes} {cl : Clause} (h : rtMonitor v decoded = some cl) :
    ¬ P_roundtrip v decoded := by
  unfold rtMonitor at h
  intro hP
  rw [hP] at h
  simp at h

/-- *primitiveEqual_refl_on_safe_ints* / its analogue for strings and booleans: a value equals its own canonical string —
integers within ±(2^53−1). -/
def P_selfEqual (h : Bytes) (v : Prim) (impl : Bool) : Prop :=
  h = primToString v → (∀ n, v = .int n → -(9007199254740991 : Int) ≤ n ∧ n ≤ 9007199254740991) → impl = true

theorem sound_peq {h : Bytes} {v : Prim} {impl : Bool} {cl : Clause} (hm : peqMonitor h v impl = some cl) :
    ¬ P_selfEqual h v impl := by
  intro hP
  unfold peqMonitor at hm
  cases v with
  | int n =>
    simp only at hm
    split at hm
    · rename_i hc
      simp only [Bool.and_eq_true, beq_iff_eq, decide_eq_true_eq, Bool.not_eq_true'] at hc
      obtain ⟨⟨⟨h1, h2⟩, h3⟩, h4⟩ := hc
      have := hP h1 (by intro m hm'; cases hm'; exact ⟨by simpa [specMaxSafe] using h2, by simpa [specMaxSafe] using h3⟩)
      rw [h4] at this; cases this
    · cases hm
  | str s =>
    simp only at hm
    split at hm
    · rename_i hc
      simp only [Bool.and_eq_true, beq_iff_eq, Bool.not_eq_true'] at hc
      have := hP hc.1 (by intro m hm'; cases hm')
      rw [hc.2] at this; cases this
    · cases hm
  | bool b =>
    simp only at hm
    split at hm
    · rename_i hc
      simp only [Bool.and_eq_true, beq_iff_eq, Bool.not_eq_true'] at hc
      have := hP hc.1 (by intro m hm'; cases hm')
      rw [hc.2] at this; cases this
    · cases hm

/-- The binding designates, read from the root of the schema, a property annotated with exactly that (non-empty) header. -/
def Resolves (p : Props) (b : Binding) : Prop := b.header ≠ [] ∧ ∃ ty, propAt p b.path = some (ty, .str b.header)

theorem bindingResolves_iff (p : Props) (b : Binding) : bindingResolves p b = true ↔ Resolves p b := by
  unfold bindingResolves Resolves
  cases hp : propAt p b.path with
  | none => simp
  | some x =>
    obtain ⟨ty, xh⟩ := x
    cases xh with
    | str h =>
      simp only [Bool.and_eq_true, beq_iff_eq, bne_iff_ne, ne_eq, Option.some.injEq, Prod.mk.injEq, XH.str.injEq,
        exists_eq_left']
      constructor
      · rintro ⟨rfl, h2⟩; exact ⟨h2, rfl⟩
      · rintro ⟨h2, rfl⟩; exact ⟨rfl, h2⟩
    | _ => simp

theorem nodupPaths_iff (l : List (List Bytes)) : nodupPaths l = true ↔ l.Nodup := by
  induction l with
  | nil => simp [nodupPaths]
  | cons x xs ih => simp [nodupPaths, ih]

/-- *The bindings are the annotated properties, each under its own path*: for a schema whose `properties` maps have
distinct keys, every reported binding resolves, no path is reported twice, and there are as many bindings as annotated
properties. -/
def P_bindings (p : Props) (bs : List Binding) : Prop :=
  NamesDistinct p → (∀ b ∈ bs, Resolves p b) ∧ (bs.map (·.path)).Nodup ∧ bs.length = countBound p

theorem annotMonitor_fires {p : Props} {bs : List Binding} {cl : Clause} (h : annotMonitor p bs = some cl) :
    NamesDistinct p ∧
    ((∃ b ∈ bs, cl = .bindPath b ∧ ¬ Resolves p b) ∨
     (cl = .bindShared ∧ ¬ (bs.map (·.path)).Nodup) ∨
     (cl = .bindCount bs.length (countBound p) ∧ bs.length ≠ countBound p)) := by
  unfold annotMonitor at h
  split at h
  · cases h
  · rename_i hd
    refine ⟨(namesDistinctB_iff p).mp (by simpa using hd), ?_⟩
    split at h
    · rename_i b hb
      cases h
      have hmem := List.mem_of_find?_eq_some hb
      have hpred := List.find?_some hb
      refine Or.inl ⟨b, hmem, rfl, ?_⟩
      rw [← bindingResolves_iff]
      simpa using hpred
    · split at h
      · rename_i hn
        cases h
        refine Or.inr (Or.inl ⟨rfl, ?_⟩)
        rw [← nodupPaths_iff]
        simpa using hn
      · split at h
        · rename_i hl
          cases h
          exact Or.inr (Or.inr ⟨rfl, by simpa using hl⟩)
        · cases h

theorem sound_bindings {p : Props} {bs : List Binding} {cl : Clause} (h : annotMonitor p bs = some cl) :
    ¬ P_bindings p bs := by
  obtain ⟨hd, hc⟩ := annotMonitor_fires h
  intro hP
  obtain ⟨h1, h2, h3⟩ := hP hd
  rcases hc with ⟨b, hb, _, hr⟩ | ⟨_, hn⟩ | ⟨_, hl⟩
  · exact hr (h1 b hb)
  · exact hn h2
  · exact hl h3

/-- The tool is one the property speaks about. -/
def ToolValid (p : Props) : Prop := NamesDistinct p ∧ validateAnnotations p = true

theorem toolValidB_iff (p : Props) : toolValidB p = true ↔ ToolValid p := by
  unfold toolValidB ToolValid
  rw [Bool.and_eq_true, namesDistinctB_iff]

/-- *client_server_agree, client side*: for a valid tool and valid arguments the generated `Mcp-Param-*` headers mirror
the arguments, binding by binding, and no header is produced that no annotation binds. -/
def P_generated (c : B64) (p : Props) (a : Args) (h : ParamHdrs) : Prop :=
  ToolValid p → ArgsValidDoc p a →
    (∀ b ∈ bindings p, Mirrors c a h b) ∧ (∀ e ∈ h, ∃ b ∈ bindings p, lowerBytes b.header = e.1)

theorem genMonitor_fires {c : B64} {p : Props} {a : Args} {h : ParamHdrs} {cl : Clause}
    (hm : genMonitor c p a h = some cl) :
    ToolValid p ∧ ArgsValidDoc p a ∧
    ((∃ b ∈ bindings p, cl = .genMirror b ∧ ¬ Mirrors c a h b) ∨
     (cl = .genUnbound ∧ ∃ e ∈ h, ∀ b ∈ bindings p, lowerBytes b.header ≠ e.1)) := by
  unfold genMonitor at hm
  split at hm
  · cases hm
  · rename_i hv
    simp only [Bool.not_eq_true', Bool.and_eq_false_iff, not_or, Bool.not_eq_false] at hv
    refine ⟨(toolValidB_iff p).mp hv.1, (argsValidB_iff p a).mp hv.2, ?_⟩
    split at hm
    · rename_i b hb
      cases hm
      refine Or.inl ⟨b, List.mem_of_find?_eq_some hb, rfl, ?_⟩
      rw [← bindingMirrors_false_iff]
      simpa using List.find?_some hb
    · split at hm
      · rename_i hu
        cases hm
        refine Or.inr ⟨rfl, ?_⟩
        rw [List.any_eq_true] at hu
        obtain ⟨e, he, hne⟩ := hu
        refine ⟨e, he, ?_⟩
        intro b hb heq
        simp only [Bool.not_eq_true', List.any_eq_false, beq_iff_eq] at hne
        exact hne b hb heq
      · cases hm

theorem sound_gen {c : B64} {p : Props} {a : Args} {h : ParamHdrs} {cl : Clause}
    (hm : genMonitor c p a h = some cl) : ¬ P_generated c p a h := by
  obtain ⟨ht, ha, hc⟩ := genMonitor_fires hm
  intro hP
  obtain ⟨h1, h2⟩ := hP ht ha
  rcases hc with ⟨b, hb, _, hn⟩ | ⟨_, e, he, hn⟩
  · exact hn (h1 b hb)
  · obtain ⟨b, hb, heq⟩ := h2 e he
    exact hn b hb heq

def Args.isBad : Args → Prop
  | .bad => True
  | _ => False

/-- *Server side of the mirror*: `validateParamHeaders` accepts iff every binding mirrors the body (arguments that do
not decode are left to the dispatcher, which refuses them). -/
def P_validated (c : B64) (p : Props) (a : Args) (h : ParamHdrs) (impl : VphObs) : Prop :=
  impl = .ok ↔ (a.isBad ∨ ∀ b ∈ bindings p, Mirrors c a h b)

theorem vphSpec_iff (c : B64) (p : Props) (a : Args) (h : ParamHdrs) :
    vphSpec c p a h = true ↔ (a.isBad ∨ ∀ b ∈ bindings p, Mirrors c a h b) := by
  cases a <;> simp [vphSpec, Args.isBad, List.all_eq_true, bindingMirrors_iff]

/-- What it takes for `vphMonitor` to report a clause other than the re-labelling preflight-F31: the answer disagrees
with the mirror requirement. -/
theorem vphMonitor_fires {c : B64} {p : Props} {a au : Args} {rep : Bool} {h : ParamHdrs} {impl : VphObs} {cl : Clause}
    (hm : vphMonitor c p a au rep h impl = some cl) :
    (cl = .f31 ∧ rep = true ∧ impl ≠ vphModel c p a h ∧ impl = vphModel c p au h) ∨
    (cl ≠ .f31 ∧ ¬ P_validated c p a h impl) := by
  unfold vphMonitor at hm
  simp only at hm
  split at hm
  · rename_i hc
    cases hm
    simp only [Bool.and_eq_true, bne_iff_ne, ne_eq, beq_iff_eq] at hc
    exact Or.inl ⟨rfl, hc.1.1, hc.1.2, hc.2⟩
  · split at hm
    · cases hm
    · rename_i hne
      right
      constructor
      · split at hm
        · cases hm; simp
        · split at hm <;> cases hm <;> simp
      · intro hP
        apply hne
        unfold P_validated at hP
        rw [← vphSpec_iff] at hP
        rw [beq_iff_eq, Bool.eq_iff_iff, beq_iff_eq]
        exact hP

/-- **sound_vph** (clauses `vphF6`, `vphAccepts`, `vphRefuses`). -/
theorem sound_vph {c : B64} {p : Props} {a au : Args} {rep : Bool} {h : ParamHdrs} {impl : VphObs} {cl : Clause}
    (hm : vphMonitor c p a au rep h impl = some cl) (hcl : cl ≠ .f31) : ¬ P_validated c p a h impl := by
  rcases vphMonitor_fires hm with ⟨h1, _⟩ | ⟨_, h2⟩
  · exact absurd h1 hcl
  · exact h2

/-- **sound_f31_vph.** The clause of finding preflight-F31 says: the answer is not the one for the arguments the tool
handler receives (the last `arguments` member, `args_are_last_member`) but the one for the merged members. -/
theorem sound_f31_vph {c : B64} {p : Props} {a au : Args} {rep : Bool} {h : ParamHdrs} {impl : VphObs}
    (hm : vphMonitor c p a au rep h impl = some .f31) :
    impl ≠ vphModel c p a h ∧ impl = vphModel c p au h := by
  rcases vphMonitor_fires hm with ⟨_, _, h1, h2⟩ | ⟨h1, _⟩
  · exact ⟨h1, h2⟩
  · exact absurd rfl h1

/-- *The name is the exact member*: when `extractName` succeeds, the name it yields is the value of the params member
called exactly `name` / `uri` (`decodeName`; characterised by `strFieldFrom_last` / `dispatched_name_is_exact_member`:
the last such member that is a string, none of them being anything but a string or `null`). -/
def P_exact_name (method : Bytes) (p : RawParams) (implOk : Bool) (implName : Bytes) : Prop :=
  implOk = true → decodeName method p = some implName

/-- … and the protocol version `extractRequestMeta` yields is that of the exact `_meta` member's exact key. -/
def P_exact_meta (p : RawParams) (implVer : Bytes) : Prop := implVer = decodeMetaVersion p

theorem sound_params {method : Bytes} {p : RawParams} {implOk : Bool} {implName implVer : Bytes} {cl : Clause}
    (h : paramsMonitor method p implOk implName implVer = some cl) :
    (∃ k e, cl = .nameMirror implName k e ∧ ¬ P_exact_name method p implOk implName) ∨
    (∃ e, cl = .metaMirror implVer e ∧ ¬ P_exact_meta p implVer) := by
  unfold paramsMonitor at h
  simp only at h
  split at h
  · rename_i hc
    cases h
    simp only [Bool.and_eq_true, bne_iff_ne, ne_eq] at hc
    exact Or.inl ⟨_, _, rfl, fun hP => hc.2 (hP hc.1).symm⟩
  · split at h
    · rename_i hc
      cases h
      exact Or.inr ⟨_, rfl, fun hP => by simp [P_exact_meta] at hP; simp [hP] at hc⟩
    · cases h

/-- *client_server_agree, end to end*: a call the SDK client makes for a valid tool, an extractable name and valid
arguments is accepted by the SDK server, and the tool handler sees the arguments that were sent. -/
def P_agree (nameOk : Bool) (p : Props) (a : Args) (impl : E2eObs) : Prop :=
  nameOk = true → ToolValid p → ArgsValidDoc p a → impl = .okSame

/-- *Refused ⇒ untouched*, end to end: a call that fails reached no tool handler. -/
def P_quiet (impl : E2eObs) : Prop := impl ≠ .notOk false

theorem sound_e2e {c : B64} {nameOk : Bool} {p : Props} {a : Args} {impl : E2eObs} {cl : Clause}
    (h : e2eMonitor c nameOk p a impl = some cl) :
    ((cl = .e2eF6 ∨ cl = .e2eAgree) ∧ ¬ P_agree nameOk p a impl) ∨ (cl = .e2eReached ∧ ¬ P_quiet impl) := by
  unfold e2eMonitor at h
  simp only at h
  split at h
  · rename_i hc
    simp only [Bool.and_eq_true, bne_iff_ne, ne_eq] at hc
    obtain ⟨⟨⟨h1, h2⟩, h3⟩, h4⟩ := hc
    left
    refine ⟨?_, fun hP => h4 (hP h1 ((toolValidB_iff p).mp h2) ((argsValidB_iff p a).mp h3))⟩
    split at h <;> cases h
    · exact Or.inl rfl
    · exact Or.inr rfl
  · split at h
    · rename_i hc
      cases h
      exact Or.inr ⟨rfl, fun hP => hP (by simpa using hc)⟩
    · cases h

/-! ## the unsupported-version answer (clause shared by C06 and C12) -/

/-- A call whose `Mcp-Protocol-Version` header and `_meta` agree on a version this SDK does not implement and that is not
older than 2026-07-28, and which violates no other documented precondition, is answered with JSON-RPC -32022 (listing
supported versions: the harness prints another code otherwise) or -32602, and runs no handler. -/
def P_unsupportedAnswered (c : B64) (r : Req) (o : HttpObs) : Prop :=
  unsupportedNew r = true → violations c r = [] → (o.status, o.code) ∈ uvAllowed ∧ o.handled = 0

theorem sound_uv {c : B64} {r : Req} {o : HttpObs} {cl : Clause} (h : uvMonitor c r o = some cl) :
    cl = .unsupportedVersion o.status o.code o.handled ∧ ¬ P_unsupportedAnswered c r o := by
  unfold uvMonitor at h
  split at h
  · rename_i hc
    cases h
    refine ⟨rfl, fun hP => ?_⟩
    simp only [Bool.and_eq_true, List.isEmpty_iff, Bool.not_eq_true', Bool.and_eq_false_iff, beq_eq_false_iff_ne, ne_eq] at hc
    obtain ⟨⟨hu, hv⟩, hn⟩ := hc
    obtain ⟨h1, h2⟩ := hP hu hv
    rcases hn with hn | hn
    · rw [List.contains_iff_mem.mpr h1] at hn
      cases hn
    · exact hn h2
  · cases h

/-! ## `seq` records: one session over time

The predicates are stated on the record and on what an observer of the session knows (`SeqMon`: the server's tool table,
the names the server has given the client in tools/list results since that table last changed and since the last
list_changed) — not on the model's cache. -/

/-- *client_server_agree over time*: on a 2026-07-28 session, the call of a tool the client has listed under its current
definition (valid annotations) with valid arguments goes through, the handler sees the arguments sent, and the request
carries exactly the `Mcp-Param-*` headers that definition demands. -/
def P_seqCall (c : B64) (m : SeqMon) (n : Bytes) (a : Args) (hdrs : ParamHdrs) (out : CallOut) : Prop :=
  m.newProto = true → n ∈ m.listed → ∀ ps, toolDef m.server n = some ps → ToolValid ps → ArgsValidDoc ps a →
    out = .okSame ∧ P_generated c ps a hdrs

/-- … and `lookupTool` answers with exactly that definition, however often it is asked. -/
def P_seqLook (m : SeqMon) (n : Bytes) (defs : List (Option Props)) : Prop :=
  m.newProto = true → n ∈ m.listed → ∀ ps, toolDef m.server n = some ps → defs = [some ps]

/-- A legacy session: no mirror applies, a call of a tool the server has goes through. -/
def P_seqLegacy (m : SeqMon) (n : Bytes) (out : CallOut) : Prop :=
  m.newProto = false → (toolDef m.server n).isSome = true → out = .okSame

/-- *Refused ⇒ untouched*: a call that fails reached no tool handler. -/
def P_seqQuiet (out : CallOut) : Prop := ∀ code, out ≠ .notOk code false

/-- *the mirror is that of the server that serves the request*: on a 2026-07-28 session, a call routed to the handler's
second server — valid annotations, valid arguments — by a client that has just listed that server's tools goes through
and carries exactly the `Mcp-Param-*` headers THAT server's definition demands. -/
def P_seqCallB (c : B64) (m : SeqMon) (n : Bytes) (a : Args) (hdrs : ParamHdrs) (out : CallOut) : Prop :=
  m.newProto = true → ∀ ps, toolDef m.serverB n = some ps → ToolValid ps → ArgsValidDoc ps a →
    out = .okSame ∧ P_generated c ps a hdrs

def P_seqLegacyB (m : SeqMon) (n : Bytes) (out : CallOut) : Prop :=
  m.newProto = false → (toolDef m.serverB n).isSome = true → out = .okSame

theorem sound_seq_callB {c : B64} {m : SeqMon} {n : Bytes} {a : Args} {hdrs : ParamHdrs} {out : CallOut} {cl : Clause}
    (h : (seqMonStep c m (.callB n a) (.called hdrs out)).2 = some cl) :
    ((cl = .seqOtherServer ∨ cl = .seqAgree ∨ (∃ b, cl = .genMirror b) ∨ cl = .genUnbound) ∧
        ¬ P_seqCallB c m n a hdrs out) ∨
    (cl = .seqLegacy ∧ ¬ P_seqLegacyB m n out) ∨
    (cl = .e2eReached ∧ ¬ P_seqQuiet out) := by
  simp only [seqMonStep] at h
  have hreach : ∀ {o : CallOut}, (match o with | .notOk _ false => some Clause.e2eReached | _ => none) = some cl →
      cl = .e2eReached ∧ ¬ P_seqQuiet o := by
    intro o ho
    split at ho
    · cases ho
      exact ⟨rfl, fun hP => hP _ rfl⟩
    · cases ho
  split at h
  · rename_i ps hps
    split at h
    · rename_i hp
      split at h
      · rename_i hc
        simp only [Bool.and_eq_true] at hc
        obtain ⟨htv, hav⟩ := hc
        have htv' := (toolValidB_iff ps).mp htv
        have hav' := (argsValidB_iff ps a).mp hav
        left
        split at h
        · rename_i hne
          refine ⟨?_, fun hP => ?_⟩
          · split at h <;> cases h
            · exact Or.inl rfl
            · exact Or.inr (Or.inl rfl)
          · have := (hP hp ps hps htv' hav').1
            rw [this] at hne
            simp at hne
        · rename_i hg0
          refine ⟨?_, fun hP => sound_gen h ((hP hp ps hps htv' hav').2)⟩
          obtain ⟨_, _, hcase⟩ := genMonitor_fires h
          rcases hcase with ⟨b, _, hb, _⟩ | ⟨hb, _⟩
          · exact Or.inr (Or.inr (Or.inl ⟨b, hb⟩))
          · exact Or.inr (Or.inr (Or.inr hb))
      · exact Or.inr (Or.inr (hreach h))
    · rename_i hp
      split at h
      · rename_i hne
        cases h
        refine Or.inr (Or.inl ⟨rfl, fun hP => ?_⟩)
        have := hP (by simpa using hp) (by simp [hps])
        rw [this] at hne
        simp at hne
      · cases h
  · exact Or.inr (Or.inr (hreach h))

/-- *list_changed beats the cache*: on a 2026-07-28 session, once the client has handled a list_changed that followed the
server's last change of its tools, a `ListTools` answered from the client's cache (the server was not asked) returns the
server's current page — the definitions `CallTool` takes the `Mcp-Param-*` mirror from are the server's. -/
def P_seqList (m : SeqMon) (k : Bytes) (hit : Bool) (tools : Tools) : Prop :=
  m.newProto = true → m.fresh = true → hit = true → tools = monPage m k

theorem sound_staleHit {m : SeqMon} {k : Bytes} {hit : Bool} {tools : Tools} {cl : Clause}
    (h : staleHit m k hit tools = some cl) : cl = .seqStaleList ∧ ¬ P_seqList m k hit tools := by
  unfold staleHit at h
  split at h
  · rename_i hcnd
    simp only [Bool.and_eq_true, bne_iff_ne, ne_eq] at hcnd
    obtain ⟨⟨⟨hp, hf⟩, hh⟩, hne⟩ := hcnd
    cases h
    exact ⟨rfl, fun hP => hne (hP hp hf hh)⟩
  · cases h

/-- *filterValidTools*: a tools/list result the client fetched and hands on names no tool the server lists with invalid
`x-mcp-header` annotations. -/
def P_seqFiltered (m : SeqMon) (hit : Bool) (tools : Tools) : Prop :=
  hit = false → ∀ t ∈ tools, m.bad.contains t.1 = false

theorem sound_badListed {m : SeqMon} {hit : Bool} {tools : Tools} {cl : Clause}
    (h : badListed m hit tools = some cl) : cl = .seqBadListed ∧ ¬ P_seqFiltered m hit tools := by
  unfold badListed at h
  split at h
  · rename_i hcnd
    simp only [Bool.and_eq_true, Bool.not_eq_true', List.any_eq_true] at hcnd
    obtain ⟨hh, t, ht, hb⟩ := hcnd
    cases h
    refine ⟨rfl, fun hP => ?_⟩
    have := hP hh t ht
    rw [hb] at this
    cases this
  · cases h

/-- A clause on a `list` / `listSend` record is `seqStaleList` or `seqBadListed`, and the record refutes the predicate. -/
theorem sound_seq_list {c : B64} {m : SeqMon} {k : Bytes} {hit : Bool} {tools : Tools} {next : Bytes} {cl : Clause} :
    ((seqMonStep c m (.list k) (.listed hit tools next)).2 = some cl ∨
     (seqMonStep c m (.listSend k) (.listed hit tools next)).2 = some cl) →
    (cl = .seqStaleList ∧ ¬ P_seqList m k hit tools) ∨ (cl = .seqBadListed ∧ ¬ P_seqFiltered m hit tools) := by
  rintro (h | h)
  · simp only [seqMonStep] at h
    split at h
    · exact Or.inr (sound_badListed h)
    · cases hb : badListed m hit tools with
      | some x =>
        simp only [hb, Option.orElse] at h
        cases h
        exact Or.inr (sound_badListed hb)
      | none =>
        simp only [hb, Option.orElse] at h
        exact Or.inl (sound_staleHit h)
  · simp only [seqMonStep] at h
    exact Or.inl (sound_staleHit h)

/-- The arrival of a response in flight raises only `seqBadListed`. -/
theorem sound_seq_recv {c : B64} {m : SeqMon} {hit : Bool} {tools : Tools} {next : Bytes} {cl : Clause}
    (h : (seqMonStep c m .listRecv (.listed hit tools next)).2 = some cl) :
    cl = .seqBadListed ∧ ¬ P_seqFiltered m false tools := by
  simp only [seqMonStep] at h
  split at h
  · exact sound_badListed h
  · cases h

/-- A tool listed with invalid annotations (after a handled list_changed that followed the last change): no mirror … -/
def P_seqBadMirror (m : SeqMon) (n : Bytes) (hdrs : ParamHdrs) : Prop :=
  m.newProto = true → m.fresh = true → m.bad.contains n = true → hdrs = []

/-- … and the call still goes through where the server's registered definition demands no header for the arguments. -/
def P_seqBadCall (c : B64) (m : SeqMon) (n : Bytes) (a : Args) (out : CallOut) : Prop :=
  m.newProto = true → m.fresh = true → m.bad.contains n = true → ∀ ps, toolDef m.server n = some ps → ToolValid ps →
    ArgsValidDoc ps a → generateParamHeaders c ps a = [] → out = .okSame

theorem sound_badCall {c : B64} {m : SeqMon} {n : Bytes} {a : Args} {hdrs : ParamHdrs} {out : CallOut} {cl : Clause}
    (h : badCall c m n a hdrs out = some cl) :
    (cl = .seqBadMirror ∧ ¬ P_seqBadMirror m n hdrs) ∨ (cl = .seqBadCall ∧ ¬ P_seqBadCall c m n a out) := by
  unfold badCall at h
  split at h
  · rename_i hcnd
    simp only [Bool.and_eq_true] at hcnd
    obtain ⟨⟨hp, hf⟩, hb⟩ := hcnd
    split at h
    · rename_i hne
      cases h
      refine Or.inl ⟨rfl, fun hP => ?_⟩
      rw [hP hp hf hb] at hne
      simp at hne
    · split at h
      · rename_i ps hps
        split at h
        · rename_i hc2
          simp only [Bool.and_eq_true, List.isEmpty_iff, bne_iff_ne, ne_eq] at hc2
          obtain ⟨⟨⟨htv, hav⟩, hg⟩, hne⟩ := hc2
          cases h
          exact Or.inr ⟨rfl, fun hP => hne (hP hp hf hb ps hps ((toolValidB_iff ps).mp htv) ((argsValidB_iff ps a).mp hav) hg)⟩
        · cases h
      · cases h
  · cases h

/-- A clause on a `call` record comes from one of the two readings. -/
theorem seq_call_clause {c : B64} {m : SeqMon} {n : Bytes} {a : Args} {hdrs : ParamHdrs} {out : CallOut} {cl : Clause}
    (h : (seqMonStep c m (.call n a) (.called hdrs out)).2 = some cl) :
    badCall c m n a hdrs out = some cl ∨ callClause c m n a hdrs out = some cl := by
  simp only [seqMonStep] at h
  cases hb : badCall c m n a hdrs out with
  | some x =>
    simp only [hb, Option.orElse] at h
    exact Or.inl (by rw [h])
  | none =>
    simp only [hb, Option.orElse] at h
    exact Or.inr h

theorem sound_seq_look {c : B64} {m : SeqMon} {n : Bytes} {defs : List (Option Props)} {cl : Clause}
    (h : (seqMonStep c m (.look n) (.looked defs)).2 = some cl) :
    (cl = .seqStaleLook ∨ cl = .seqLostLook) ∧ ¬ P_seqLook m n defs := by
  simp only [seqMonStep] at h
  split at h
  · rename_i hc
    simp only [Bool.and_eq_true, List.contains_iff_mem] at hc
    split at h
    · rename_i ps hps
      split at h
      · cases h
      · rename_i hne
        refine ⟨?_, fun hP => hne (by rw [hP hc.1 hc.2 ps hps]; exact beq_self_eq_true _)⟩
        split at h <;> cases h
        · exact Or.inl rfl
        · exact Or.inr rfl
    · cases h
  · cases h

theorem sound_seq_call {c : B64} {m : SeqMon} {n : Bytes} {a : Args} {hdrs : ParamHdrs} {out : CallOut} {cl : Clause}
    (h : callClause c m n a hdrs out = some cl) :
    ((cl = .seqRefusedExact ∨ cl = .seqStaleCall ∨ cl = .seqLostCall ∨ cl = .seqAgree ∨ (∃ b, cl = .genMirror b) ∨ cl = .genUnbound) ∧
        ¬ P_seqCall c m n a hdrs out) ∨
    (cl = .seqLegacy ∧ ¬ P_seqLegacy m n out) ∨
    (cl = .e2eReached ∧ ¬ P_seqQuiet out) := by
  simp only [callClause] at h
  have hreach : ∀ {o : CallOut}, (match o with | .notOk _ false => some Clause.e2eReached | _ => none) = some cl →
      cl = .e2eReached ∧ ¬ P_seqQuiet o := by
    intro o ho
    split at ho
    · cases ho
      exact ⟨rfl, fun hP => hP _ rfl⟩
    · cases ho
  split at h
  · rename_i ps hps
    split at h
    · rename_i hp
      split at h
      · rename_i hc
        simp only [Bool.and_eq_true, List.contains_iff_mem] at hc
        obtain ⟨⟨hl, htv⟩, hav⟩ := hc
        have htv' := (toolValidB_iff ps).mp htv
        have hav' := (argsValidB_iff ps a).mp hav
        left
        split at h
        · rename_i hne
          refine ⟨?_, fun hP => ?_⟩
          · split at h
            · cases h; exact Or.inl rfl
            · split at h
              · cases h; exact Or.inr (Or.inl rfl)
              · split at h <;> cases h
                · exact Or.inr (Or.inr (Or.inl rfl))
                · exact Or.inr (Or.inr (Or.inr (Or.inl rfl)))
          · have := (hP hp hl ps hps htv' hav').1
            rw [this] at hne
            simp at hne
        · split at h
          · rename_i cl' hg
            refine ⟨?_, fun hP => sound_gen hg ((hP hp hl ps hps htv' hav').2)⟩
            split at h
            · cases h; exact Or.inr (Or.inl rfl)
            · cases h
              obtain ⟨_, _, hcase⟩ := genMonitor_fires hg
              rcases hcase with ⟨b, _, hb, _⟩ | ⟨hb, _⟩
              · exact Or.inr (Or.inr (Or.inr (Or.inr (Or.inl ⟨b, hb⟩))))
              · exact Or.inr (Or.inr (Or.inr (Or.inr (Or.inr hb))))
          · cases h
      · exact Or.inr (Or.inr (hreach h))
    · rename_i hp
      split at h
      · rename_i hne
        cases h
        refine Or.inr (Or.inl ⟨rfl, fun hP => ?_⟩)
        have := hP (by simpa using hp) (by simp [hps])
        rw [this] at hne
        simp at hne
      · cases h
  · exact Or.inr (Or.inr (hreach h))

/-! ## non-vacuity: every clause can fire -/

section witnesses
def sObs (st : Nat) (code : Option Int) (d : Nat) : HttpObs :=
  { status := st, code := code, allow := none, reached := 0, handled := 0, disp := d, names := [] }

example : httpMonitor idCodec (wReq .stateless) { (sObs 400 none 0) with reached := 1 } = some (.reached 400) := by decide
example : httpMonitor idCodec { wReq .stateless with hostLoopback := false } (sObs 200 none 1) = some (.dispatchSound .host) := by decide
example : httpMonitor idCodec { wReq .stateless with mcpName := [120] } (sObs 200 none 1) = some (.dispatchSound .mcpName) := by decide
example : httpMonitor idCodec (wReq .stateless) (sObs 400 none 0) = some (.refusedClean 400 none) := by decide
example : httpMonitor idCodec (wReq .stateless) (sObs 400 (some (-32020)) 0) = some .httpF6 := by decide
example : httpMonitor idCodec { wReq .stateless with hostLoopback := false } (sObs 400 none 0) = some (.notMandated 400 none) := by decide
def wF30 : Req :=
  { wReq .stateful with noSessionIds := true, bodyLen := 4194305, version := protocolVersion20250326, mcpMethod := [] }
example : httpMonitor idCodec wF30 (sObs 400 none 0) = some .httpF30 := by decide
example : handlerNameMonitor (wReq .stateless) { (sObs 200 none 1) with handled := 1, names := [[120]] } =
    some (.handlerName [[120]] wTool) := by decide
example : acceptsMonitor [[42, 47, 42]] (true, false) = some .acceptsTable := by decide
example : rtMonitor (.str [97]) (some [98]) = some .rtDiffers ∧ rtMonitor (.str [97]) none = some .rtUndecodable := by decide
example : peqMonitor [53] (.int 5) false = some .peqSafeInt ∧ peqMonitor [97] (.str [97]) false = some .peqValue := by
  constructor
  · have : intToDec 5 = [53] := by simp [intToDec, natToDec]
    simp [peqMonitor, this, specMaxSafe]
  · decide
example : annotMonitor wProps [{ path := [[120]], header := wHeader }] = some (.bindPath { path := [[120]], header := wHeader }) := by decide
example : annotMonitor wProps [{ path := [wRegion], header := wHeader }, { path := [wRegion], header := wHeader }] = some .bindShared := by decide
example : annotMonitor wProps [] = some (.bindCount 0 1) := by decide
example : genMonitor idCodec wProps wMsg.args [] = none ∧
    genMonitor idCodec wProps (.obj [(wRegion, .str [97])]) [] = some (.genMirror { path := [wRegion], header := wHeader }) ∧
    genMonitor idCodec wProps (.obj [(wRegion, .str [97])]) [(lowerBytes wHeader, [97]), ([120], [97])] = some .genUnbound := by decide
example : vphMonitor idCodec wProps (.obj [(wRegion, .str [97])]) (.obj [(wRegion, .str [97])]) false [] .ok =
      some (.vphAccepts (some { path := [wRegion], header := wHeader })) ∧
    vphMonitor idCodec wProps (.obj [(wRegion, .str [97])]) .missing false [(lowerBytes wHeader, [97])] (.err none) = some .vphRefuses ∧
    vphMonitor idCodec wProps wMsg.args wMsg.args false [] (.err none) = some .vphF6 ∧
    vphMonitor idCodec wProps (.obj [(wRegion, .str [97])]) .missing true [] .ok = some .f31 := by decide
example : paramsMonitor methodCallTool (.obj [([110, 97, 109, 101], .str [116])]) true [120] [] =
      some (.nameMirror [120] (some [110, 97, 109, 101]) (some [116])) ∧
    paramsMonitor methodCallTool (.obj [([110, 97, 109, 101], .str [116])]) true [116] [120] = some (.metaMirror [120] []) := by decide
example : e2eMonitor idCodec true wProps (.obj [(wRegion, .str [97])]) (.notOk true) = some .e2eAgree ∧
    e2eMonitor idCodec true wProps wMsg.args (.notOk true) = some .e2eF6 ∧
    e2eMonitor idCodec false wProps wMsg.args (.notOk false) = some .e2eReached := by decide
/-- An observer who saw the server give the client tool `a` (annotated `region`) since the table last changed. -/
def wMon : SeqMon := { newProto := true, server := [(wA, wProps)], listed := [wA], seen := [(wA, wProps), (wA, wPlain)] }
example : (seqMonStep idCodec wMon (.look wA) (.looked [none])).2 = some .seqLostLook ∧
    (seqMonStep idCodec wMon (.look wA) (.looked [some wPlain, some wProps])).2 = some .seqStaleLook ∧
    (seqMonStep idCodec wMon (.look wA) (.looked [some wProps])).2 = none := by decide
example : (seqMonStep idCodec wMon (.call wA wArgs) (.called [] (.notOk (some (-32020)) true))).2 = some .seqStaleCall ∧
    (seqMonStep idCodec { wMon with seen := [] } (.call wA wArgs) (.called [] (.notOk (some (-32020)) true))).2 = some .seqLostCall ∧
    (seqMonStep idCodec wMon (.call wA wArgs) (.called [([120], [97])] (.notOk (some (-32020)) true))).2 = some .seqAgree ∧
    (seqMonStep idCodec wMon (.call wA wArgs) (.called wHdrs .okSame)).2 = none ∧
    (seqMonStep idCodec wMon (.call wA wArgs) (.called wHdrs (.notOk (some (-32020)) true))).2 = some .seqRefusedExact ∧
    (seqMonStep idCodec { wMon with newProto := false } (.call wA wArgs) (.called [] (.notOk none true))).2 = some .seqLegacy ∧
    (seqMonStep idCodec { wMon with listed := [] } (.call wA wArgs) (.called [] (.notOk none false))).2 = some .e2eReached := by decide
/-- Seeded change C12-m16, two servers behind one handler: the second server's `a` has no annotation, the client (rightly)
sends no header, the handler refuses — judged by the first server's `a`. -/
example : (seqMonStep idCodec { wMon with serverB := [(wA, wPlain)] } (.callB wA wArgs) (.called [] (.notOk (some (-32020)) true))).2 = some .seqOtherServer ∧
    (seqMonStep idCodec { wMon with serverB := [(wA, wPlain)] } (.callB wA wArgs) (.called [] .okSame)).2 = none ∧
    (seqMonStep idCodec { wMon with serverB := [(wA, wProps)] } (.callB wA wArgs) (.called [] (.notOk (some (-32020)) true))).2 = some .seqAgree := by decide
/-- Seeded change C12-m13 as the observer sees it: tool `a` listed (response in flight), re-registered with the annotation,
list_changed handled, the overtaken response arrives; the next `ListTools` is answered from the cache with the OLD page. -/
def wMonFresh : SeqMon :=
  { newProto := true, server := [(wA, wProps)], listed := [], seen := [], pageSize := 2, fresh := true }
example : (seqMonStep idCodec wMonFresh (.list []) (.listed true [(wA, wPlain)] [])).2 = some .seqStaleList ∧
    (seqMonStep idCodec wMonFresh (.listSend []) (.listed true [(wA, wPlain)] [])).2 = some .seqStaleList ∧
    (seqMonStep idCodec wMonFresh (.list []) (.listed true [(wA, wProps)] [])).2 = none ∧
    (seqMonStep idCodec wMonFresh (.list []) (.listed false [(wA, wProps)] [])).2 = none ∧
    (seqMonStep idCodec { wMonFresh with fresh := false } (.list []) (.listed true [(wA, wPlain)] [])).2 = none := by decide
/-- … and what the observer learns from a response in flight: nothing if a list_changed was handled since the request,
nothing (and it forgets) if the table changed since, the names otherwise. -/
example : (seqMonStep idCodec { wMon with listed := [], pend := some (true, true) } .listRecv (.listed false [(wA, wPlain)] [])).1.listed = [] ∧
    (seqMonStep idCodec { wMon with pend := some (true, false) } .listRecv (.listed false [(wA, wPlain)] [])).1.listed = [] ∧
    (seqMonStep idCodec { wMon with listed := [], pend := some (false, false) } .listRecv (.listed false [(wA, wProps)] [])).1.listed = [wA] := by decide
/-- A foreign server's invalid annotations as the observer judges them. -/
example : (seqMonStep idCodec { wMonFresh with bad := [wA] } (.list []) (.listed false [(wA, wProps)] [])).2 = some .seqBadListed ∧
    (seqMonStep idCodec { wMonFresh with bad := [wA] } (.list []) (.listed false [] [])).2 = none ∧
    (seqMonStep idCodec { wMonFresh with bad := [wA] } (.call wA wArgs) (.called wHdrs .okSame)).2 = some .seqBadMirror ∧
    (seqMonStep idCodec { wMonFresh with bad := [wA] } (.call wA wArgs) (.called [] (.notOk (some (-32020)) true))).2 = none ∧
    (seqMonStep idCodec { wMonFresh with bad := [wA], server := [(wA, wPlain)] } (.call wA wArgs) (.called [] (.notOk (some (-32020)) true))).2 = some .seqBadCall ∧
    (seqMonStep idCodec { wMonFresh with bad := [wA], server := [(wA, wPlain)] } (.call wA wArgs) (.called [] .okSame)).2 = none := by decide
end witnesses

end Preflight
