import McpModel.Preflight.Bytes
import McpModel.Generated.PreflightGen
/-!
# E8 Preflight — executable model of the HTTP precondition gates and of the header mirror (C12)

Transliteration of
* `mcp/streamable.go`: `StreamableHTTPHandler.ServeHTTP`, `serveStateless`, `serveStateful{,GET,POST,DELETE}`,
  `streamableAccepts`, `streamableServerConn.servePOST` (up to the enqueue), the client's header calls in
  `streamableClientConn.Write`;
* `mcp/streamable_headers.go` (all of it);
* `mcp/sse.go`: `SSEHandler.ServeHTTP`, `SSEServerTransport.ServeHTTP`.

Strings are byte lists (`Bytes`).  Opaque library results enter as inputs of the abstract request:
`util.IsLoopback` of the listener address and of `Host`, `CrossOriginProtection.Check`, the base media
type returned by `mime.ParseMediaType`, the result of `checkRequest`, whether the non-identifying members of `params`
decode (second result of `extractName`), and `base64.StdEncoding` (a pair `enc`/`dec`; the theorems assume only `dec (enc s) = some s`).
`params` itself is NOT an opaque input: §E′ decodes the member list of the JSON text (exact member names, repeated
members) into the name, the arguments and the `_meta` version the gates compare the headers with.
Core Lean only: linked into `drv_preflight`.  All functions are total.
-/
namespace Preflight
open Generated.Preflight

/-! ## A. `streamableAccepts` -/

/-- `strings.Split(s, sep)` for a one-byte separator. -/
def splitOn (sep : Nat) : Bytes → List Bytes
  | [] => [[]]
  | c :: cs =>
    if c = sep then [] :: splitOn sep cs
    else match splitOn sep cs with
      | [] => [[c]]
      | h :: t => (c :: h) :: t

def isCont (b : Nat) : Bool := 0x80 ≤ b && b ≤ 0xBF

/-- `utf8.DecodeRune`: the first rune of a non-empty byte string and its width; an invalid byte yields U+FFFD, width 1. -/
def decode1 (s : Bytes) : Nat × Nat :=
  match s with
  | [] => (0xFFFD, 1)
  | b0 :: rest =>
    if b0 < 0x80 then (b0, 1)
    else if 0xC2 ≤ b0 && b0 ≤ 0xDF then
      match rest with
      | b1 :: _ => if isCont b1 then ((b0 - 0xC0) * 64 + (b1 - 0x80), 2) else (0xFFFD, 1)
      | _ => (0xFFFD, 1)
    else if 0xE0 ≤ b0 && b0 ≤ 0xEF then
      let lo := if b0 = 0xE0 then 0xA0 else 0x80
      let hi := if b0 = 0xED then 0x9F else 0xBF
      match rest with
      | b1 :: b2 :: _ =>
        if lo ≤ b1 && b1 ≤ hi && isCont b2 then ((b0 - 0xE0) * 4096 + (b1 - 0x80) * 64 + (b2 - 0x80), 3)
        else (0xFFFD, 1)
      | _ => (0xFFFD, 1)
    else if 0xF0 ≤ b0 && b0 ≤ 0xF4 then
      let lo := if b0 = 0xF0 then 0x90 else 0x80
      let hi := if b0 = 0xF4 then 0x8F else 0xBF
      match rest with
      | b1 :: b2 :: b3 :: _ =>
        if lo ≤ b1 && b1 ≤ hi && isCont b2 && isCont b3 then
          ((b0 - 0xF0) * 262144 + (b1 - 0x80) * 4096 + (b2 - 0x80) * 64 + (b3 - 0x80), 4)
        else (0xFFFD, 1)
      | _ => (0xFFFD, 1)
    else (0xFFFD, 1)

def decodeRunesF : Nat → Bytes → List Nat
  | 0, _ => []
  | _, [] => []
  | fuel + 1, s => (decode1 s).1 :: decodeRunesF fuel (s.drop (decode1 s).2)

/-- Go's UTF-8 decoding as done by `range`/`strings.Map`/`TrimSpace`: a byte string to code points, every invalid
byte yielding U+FFFD (and consuming one byte).  Fuel = length suffices (each step consumes ≥ 1 byte). -/
def decodeRunes (s : Bytes) : List Nat := decodeRunesF s.length s

/-- `unicode.IsSpace`. -/
def isSpaceRune (r : Nat) : Bool :=
  r = 0x20 || (0x09 ≤ r && r ≤ 0x0D) || r = 0x85 || r = 0xA0 || r = 0x1680 || (0x2000 ≤ r && r ≤ 0x200A) ||
  r = 0x2028 || r = 0x2029 || r = 0x202F || r = 0x205F || r = 0x3000

def trimLeft (l : List Nat) : List Nat := l.dropWhile isSpaceRune
/-- `strings.TrimSpace` on code points. -/
def trimSpace (l : List Nat) : List Nat := (trimLeft (trimLeft l).reverse).reverse

/-- `unicode.ToLower`, as far as the result can be an ASCII letter: `A`–`Z`, U+0130 (İ ↦ i), U+212A (K ↦ k).
Other runes are only ever compared with the ASCII table entries, so their image is irrelevant as long as
it is not ASCII; they are left unchanged. -/
def toLowerRune (r : Nat) : Nat :=
  if 65 ≤ r && r ≤ 90 then r + 32 else if r = 0x130 then 105 else if r = 0x212A then 107 else r

/-- `strings.ToLower(strings.TrimSpace(base))` for `token := TrimSpace(raw); base, _, _ := Cut(token, ";")`. -/
def normToken (raw : Bytes) : List Nat :=
  let token := trimSpace (decodeRunes raw)
  let base := token.takeWhile (· ≠ 0x3B)
  (trimSpace base).map toLowerRune

/-- The `switch`: flags of a normalised token, by the regenerated table (no match: neither flag). -/
def acceptFlags (tab : List (List Nat × Bool × Bool)) (tok : List Nat) : Bool × Bool :=
  match tab.find? (fun e => e.1 == tok) with
  | some e => e.2
  | none => (false, false)

def orPair (a b : Bool × Bool) : Bool × Bool := (a.1 || b.1, a.2 || b.2)

/-- All normalised tokens of the `Accept` header values. -/
def acceptTokens (values : List Bytes) : List (List Nat) :=
  values.flatMap (fun v => (splitOn 0x2C v).map normToken)

/-- `streamableAccepts(values) (jsonOK, streamOK)` — the two nested loops. -/
def streamableAcceptsWith (tab : List (List Nat × Bool × Bool)) (values : List Bytes) : Bool × Bool :=
  values.foldl (fun acc value =>
    (splitOn 0x2C value).foldl (fun acc raw => orPair acc (acceptFlags tab (normToken raw))) acc) (false, false)

def streamableAccepts (values : List Bytes) : Bool × Bool := streamableAcceptsWith acceptTable values

/-! ## B. Header value codec -/

/-- `base64.StdEncoding` as an abstract pair; the theorems assume `∀ s, dec (enc s) = some s`. -/
structure B64 where
  enc : Bytes → Bytes
  dec : Bytes → Option Bytes

def B64.Lawful (c : B64) : Prop := ∀ s, c.dec (c.enc s) = some s

/-- The three Go values `unmarshalPrimitive` can return (besides nil). -/
inductive Prim where
  | str (s : Bytes)
  | bool (b : Bool)
  | int (n : Int)
  deriving DecidableEq, Repr

def natToDec (n : Nat) : Bytes :=
  if n < 10 then [48 + n] else natToDec (n / 10) ++ [48 + n % 10]
termination_by n
decreasing_by omega

/-- `strconv.FormatInt(v, 10)`. -/
def intToDec (n : Int) : Bytes :=
  if n < 0 then 45 :: natToDec n.natAbs else natToDec n.natAbs

def bTrue : Bytes := [116, 114, 117, 101]
def bFalse : Bytes := [102, 97, 108, 115, 101]

/-- `primitiveToString`. -/
def primToString : Prim → Bytes
  | .str s => s
  | .bool b => if b then bTrue else bFalse
  | .int n => intToDec n

def isBlank (c : Nat) : Bool := c = 32 || c = 9

/-- `requiresBase64Encoding`. (`for _, c := range s { c < 0x20 || c > 0x7E }` on runes holds for some rune
iff it holds for some byte: every non-ASCII or invalid sequence has a byte ≥ 0x80.) -/
def requiresBase64 (s : Bytes) : Bool :=
  match s with
  | [] => false
  | c :: _ =>
    isBlank c || (match s.getLast? with | some d => isBlank d | none => false) ||
    s.any (fun c => c < 0x20 || c > 0x7E) ||
    (base64Prefix.isPrefixOf s && base64Suffix.isSuffixOf s)

def encodeBase64 (c : B64) (s : Bytes) : Bytes := base64Prefix ++ c.enc s ++ base64Suffix

/-- `encodeHeaderValue` (the value is always one of the three primitive kinds here). -/
def encodeHeaderValue (c : B64) (v : Prim) : Bytes :=
  let s := primToString v
  if requiresBase64 s then encodeBase64 c s else s

/-- `strings.CutPrefix`. -/
def cutPrefix (p : Bytes) (s : Bytes) : Option Bytes :=
  if p.isPrefixOf s then some (s.drop p.length) else none
/-- `strings.CutSuffix`. -/
def cutSuffix (p : Bytes) (s : Bytes) : Option Bytes :=
  if p.isSuffixOf s then some (s.take (s.length - p.length)) else none

/-- `decodeHeaderValue`: `none` = "not a valid Base64 encoded value". -/
def decodeHeaderValue (c : B64) (h : Bytes) : Option Bytes :=
  if h = [] then some h
  else match cutPrefix base64Prefix h with
    | some rest =>
      match cutSuffix base64Suffix rest with
      | some e => c.dec e
      | none => some h
    | none => some h

/-! ## C. Numbers: JSON number → float64 → int64, and `strconv.ParseFloat` of a header -/

/-- A number text `±mant·10^exp10` (JSON number literal, parsed by the driver). -/
structure NumLit where
  neg : Bool
  mant : Nat
  exp10 : Int
  deriving DecidableEq, Repr

def pow2_53 : Nat := 9007199254740992

/-- Round the positive rational `num/den` to the nearest float64 (ties to even), exactly.
`none` = overflow (±Inf, `ErrRange`); otherwise the value as a fraction whose denominator is a power of two. -/
def roundF64 (num den : Nat) : Option (Nat × Nat) :=
  if num = 0 || den = 0 then some (0, 1) else
  let k0 : Int := 52 - ((Nat.log2 num : Int) - (Nat.log2 den : Int))
  -- scale so that a/b = (num/den)·2^k
  let scale (k : Int) : Nat × Nat := if k ≥ 0 then (num * 2 ^ k.toNat, den) else (num, den * 2 ^ (-k).toNat)
  let k1 : Int := let (a, b) := scale k0; if a / b < 2 ^ 52 then k0 + 1 else k0
  let k : Int := if k1 > 1074 then 1074 else k1
  let (a, b) := scale k
  let q := a / b
  let r := a % b
  let q := if 2 * r > b || (2 * r = b && q % 2 = 1) then q + 1 else q
  if k ≥ 0 then some (q, 2 ^ k.toNat)
  else
    let v := q * 2 ^ (-k).toNat
    if v ≥ 2 ^ 1024 then none else some (v, 1)

def numDigits (n : Nat) : Nat := (natToDec n).length

/-- float64 nearest to `mant·10^e` (sign handled by the caller).  Integers below 2^53 are exact; huge and tiny
exponents are decided without computing the power. -/
def f64OfDec (mant : Nat) (e : Int) : Option (Nat × Nat) :=
  if mant = 0 then some (0, 1)
  else if e > 400 then none
  else if e + (numDigits mant : Int) < -400 then some (0, 1)
  else if e ≥ 0 then
    let n := mant * 10 ^ e.toNat
    if n < pow2_53 then some (n, 1) else roundF64 n 1
  else
    let d := 10 ^ (-e).toNat
    if mant % d = 0 && mant / d < pow2_53 then some (mant / d, 1) else roundF64 mant d

/-- float64 nearest to `mant·2^e` (hexadecimal floats). -/
def f64OfBin (mant : Nat) (e : Int) : Option (Nat × Nat) :=
  if mant = 0 then some (0, 1)
  else if e > 1100 then none
  else if e + (Nat.log2 mant : Int) < -1200 then some (0, 1)
  else if e ≥ 0 then roundF64 (mant * 2 ^ e.toNat) 1
  else roundF64 mant (2 ^ (-e).toNat)

/-- What the code does with a finite float64 `v = ±num/den`:
`v != math.Trunc(v)` ⇒ reject; `v < minSafeInteger || v > maxSafeInteger` ⇒ reject; else `int64(v)`. -/
def safeIntOfF64 (neg : Bool) (v : Nat × Nat) : Option Int :=
  if v.2 = 0 || v.1 % v.2 ≠ 0 then none
  else
    let n : Int := if neg then -((v.1 / v.2 : Nat) : Int) else ((v.1 / v.2 : Nat) : Int)
    if n < minSafeInteger || n > maxSafeInteger then none else some n

/-- JSON values as the Go code sees them after `Unmarshal`; arrays are opaque (never primitive, never an object). -/
inductive JV where
  | null
  | bool (b : Bool)
  | num (l : NumLit)
  | str (s : Bytes)
  | arr
  | obj (fields : List (Bytes × JV))

/-- `unmarshalPrimitive(raw)`: `none` = Go `nil`. -/
def unmarshalPrimitive : JV → Option Prim
  | .str s => some (.str s)
  | .bool b => some (.bool b)
  | .num l =>
    match f64OfDec l.mant l.exp10 with
    | none => none            -- out of float64 range: `Unmarshal` fails
    | some v => (safeIntOfF64 l.neg v).map Prim.int
  | _ => none

/-! ### `strconv.ParseFloat(s, 64)` -/

def isDigit (c : Nat) : Bool := 48 ≤ c && c ≤ 57
def lowerB (c : Nat) : Nat := if 65 ≤ c && c ≤ 90 then c + 32 else c
def isHexLetter (c : Nat) : Bool := 97 ≤ lowerB c && lowerB c ≤ 102
def hexVal (c : Nat) : Nat := if isDigit c then c - 48 else lowerB c - 87

/-- `underscoreOK`, after the optional sign: state `'^'`=0 start, `'0'`=1 digit, `'_'`=2, `'!'`=3 other. -/
def underscoreOKGo (hex : Bool) : Bytes → Nat → Bool
  | [], st => st != 2
  | c :: cs, st =>
    if isDigit c || (hex && isHexLetter c) then underscoreOKGo hex cs 1
    else if c = 95 then (if st != 1 then false else underscoreOKGo hex cs 2)
    else if st = 2 then false
    else underscoreOKGo hex cs 3

def underscoreOK (s : Bytes) : Bool :=
  let s := match s with | 43 :: r => r | 45 :: r => r | _ => s
  match s with
  | 48 :: x :: r =>
    if lowerB x = 98 || lowerB x = 111 || lowerB x = 120 then underscoreOKGo (lowerB x = 120) r 1
    else underscoreOKGo false s 0
  | _ => underscoreOKGo false s 0

/-- Mantissa scan of `readFloat`: returns (mantissa, digits after the point, saw digits, saw dot, saw `_`, rest). -/
def scanMant (hex : Bool) : Bytes → Nat → Nat → Bool → Bool → Bool → Nat × Nat × Bool × Bool × Bool × Bytes
  | [], m, fr, sd, dot, us => (m, fr, sd, dot, us, [])
  | c :: cs, m, fr, sd, dot, us =>
    if c = 95 then scanMant hex cs m fr sd dot true
    else if c = 46 then (if dot then (m, fr, sd, dot, us, c :: cs) else scanMant hex cs m fr sd true us)
    else if isDigit c || (hex && isHexLetter c) then
      scanMant hex cs (m * (if hex then 16 else 10) + hexVal c) (if dot then fr + 1 else fr) true dot us
    else (m, fr, sd, dot, us, c :: cs)

/-- Exponent digits (with `_`): value (capped like Go: stops growing past 10000), saw `_`, rest. -/
def scanExp : Bytes → Nat → Bool → Nat × Bool × Bytes
  | [], e, us => (e, us, [])
  | c :: cs, e, us =>
    if c = 95 then scanExp cs e true
    else if isDigit c then scanExp cs (if e < 10000 then e * 10 + (c - 48) else e) us
    else (e, us, c :: cs)

/-- `strconv.ParseFloat(s, 64)` restricted to finite results: `none` = syntax error, ±Inf, NaN or out of range;
`some (neg, num, den)` = the float64 `±num/den`.  (`inf`/`infinity`/`nan` are never numbers to the callers.) -/
def parseFloatGeneral (s : Bytes) : Option (Bool × Nat × Nat) :=
  let (neg, s1) := match s with | 43 :: r => (false, r) | 45 :: r => (true, r) | _ => (false, s)
  let (hex, s2) := match s1 with
    | 48 :: x :: r => if lowerB x = 120 then (true, r) else (false, s1)
    | _ => (false, s1)
  let (m, fr, sd, _dot, us, rest) := scanMant hex s2 0 0 false false false
  if !sd then none else
  let expChar := if hex then 112 else 101
  let fin (e : Int) (us : Bool) (rest : Bytes) : Option (Bool × Nat × Nat) :=
    if rest != [] then none
    else if us && !underscoreOK s then none
    else
      let v := if hex then f64OfBin m (e - 4 * (fr : Int)) else f64OfDec m (e - (fr : Int))
      v.map (fun v => (neg, v.1, v.2))
  match rest with
  | c :: r =>
    if lowerB c = expChar then
      let (esign, r1) : Int × Bytes := match r with | 43 :: t => (1, t) | 45 :: t => (-1, t) | _ => (1, r)
      match r1 with
      | d :: _ =>
        if !isDigit d then none else
        let (e, us2, rest2) := scanExp r1 0 us
        fin (esign * (e : Int)) us2 rest2
      | [] => none
    else if hex then none else fin 0 us rest
  | [] => if hex then none else fin 0 us rest

/-- Digits only → value. -/
def digitsVal : Bytes → Nat → Option Nat
  | [], acc => some acc
  | c :: cs, acc => if isDigit c then digitsVal cs (acc * 10 + (c - 48)) else none

/-- A plain decimal integer `-?[0-9]+`. -/
def decInt? (s : Bytes) : Option (Bool × Nat) :=
  match s with
  | [] => none
  | 45 :: rest => if rest = [] then none else (digitsVal rest 0).map (fun n => (true, n))
  | _ => (digitsVal s 0).map (fun n => (false, n))

/-- `ParseFloat`: plain decimal integers are read directly (exact below 2^53); everything else goes through
the general scanner.  On plain integers the two coincide (checked by the driver on every evaluation). -/
def parseFloat (s : Bytes) : Option (Bool × Nat × Nat) :=
  match decInt? s with
  | some (neg, n) => if n < pow2_53 then some (neg, n, 1) else (roundF64 n 1).map (fun v => (neg, v.1, v.2))
  | none => parseFloatGeneral s

/-- `primitiveEqual(headerStr, bodyVal)`. -/
def primitiveEqual (h : Bytes) : Prim → Bool
  | .int n =>
    match parseFloat h with
    | none => false
    | some (neg, num, den) =>
      match safeIntOfF64 neg (num, den) with
      | none => false
      | some m => m == n
  | v => h == primToString v

/-! ## D. Schemas and `x-mcp-header` annotations -/

/-- The raw `x-mcp-header` member of a property. -/
inductive XH where
  | absent
  | null
  | str (s : Bytes)
  | other               -- any JSON value that is neither null nor a string
  deriving DecidableEq, Repr

/-- `map[string]headerSchemaProperty`, first-child / next-sibling encoded:
`cons name type xh children rest`. -/
inductive Props where
  | nil
  | cons (name : Bytes) (ty : Bytes) (xh : XH) (children : Props) (rest : Props)
  deriving DecidableEq

structure Ann where
  path : List Bytes
  ty : Bytes
  xh : XH
  deriving DecidableEq, Repr

/-- Every property that carries an `x-mcp-header` member, at any depth, with its property-name path. -/
def annotated (pre : List Bytes) : Props → List Ann
  | .nil => []
  | .cons name ty xh children rest =>
    (if xh = .absent then [] else [{ path := pre ++ [name], ty := ty, xh := xh }]) ++
      annotated (pre ++ [name]) children ++ annotated pre rest

structure Binding where
  path : List Bytes
  header : Bytes
  deriving DecidableEq, Repr

/-- `extractParamHeaderAnnotations` / `collectParamHeaderAnnotations`: an annotation binds iff it unmarshals into a
non-empty string (`null` unmarshals into `""`). -/
def bindings (p : Props) : List Binding :=
  (annotated [] p).filterMap (fun a => match a.xh with
    | .str s => if s = [] then none else some { path := a.path, header := s }
    | _ => none)

/-! ### Resolving a property-name path in the schema tree (the specification side of the bindings)

`bindings` is a transliteration of the recursive walk of `collectParamHeaderAnnotations` (which carries a `prefix`
slice down the tree).  `propAt` is the independent reading of a path: start at the root `properties` map, look the
first name up, descend into that property's own `properties`, and so on.  The theorems `binding_path_resolves`,
`bindings_complete` and `binding_paths_nodup` (Props.lean) tie the two together for trees of any depth and width. -/

/-- `props[name]` (a Go map has one entry per name: the first sibling called `name`). -/
def Props.find (name : Bytes) : Props → Option (Bytes × XH × Props)
  | .nil => none
  | .cons n ty xh children rest => if n = name then some (ty, xh, children) else rest.find name

/-- The property (its `type` and `x-mcp-header` member) that the property-name path designates. -/
def propAt : Props → List Bytes → Option (Bytes × XH)
  | _, [] => none
  | p, [k] => (p.find k).map (fun e => (e.1, e.2.1))
  | p, k :: k' :: rest =>
    match p.find k with
    | some e => propAt e.2.2 (k' :: rest)
    | none => none

/-- The names of one `properties` map. -/
def siblingNames : Props → List Bytes
  | .nil => []
  | .cons n _ _ _ rest => n :: siblingNames rest

/-- Every `properties` map of the tree has pairwise distinct keys (true of anything decoded into a Go map). -/
def NamesDistinct : Props → Prop
  | .nil => True
  | .cons n _ _ children rest => n ∉ siblingNames rest ∧ NamesDistinct children ∧ NamesDistinct rest

/-- Executable form of `NamesDistinct` (used by the driver to validate its input). -/
def namesDistinctB : Props → Bool
  | .nil => true
  | .cons n _ _ children rest => !(siblingNames rest).contains n && namesDistinctB children && namesDistinctB rest

/-- `isTChar` on a byte (non-ASCII runes are never tchars, and they consist of bytes ≥ 0x80). -/
def isTChar (c : Nat) : Bool :=
  isDigit c || (65 ≤ c && c ≤ 90) || (97 ≤ c && c ≤ 122) || tcharSpecials.contains c

def lowerBytes (s : Bytes) : Bytes := s.map lowerB

/-- One annotated property passes `validateParamHeadersIn` (apart from the duplicate check). -/
def annOK (a : Ann) : Bool :=
  primitiveTypes.contains a.ty &&
  (match a.xh with
   | .str s => s != [] && s.all isTChar
   | _ => false)

def annHeader (a : Ann) : Bytes := match a.xh with | .str s => lowerBytes s | _ => []

def nodupB : List Bytes → Bool
  | [] => true
  | x :: xs => !xs.contains x && nodupB xs

/-- `validateParamHeaderAnnotations(tool) == nil`. The Go code walks the tree with a `seen` set and stops at the
first problem; whether there is one does not depend on the (random) map order. -/
def validateAnnotations (p : Props) : Bool :=
  let as := annotated [] p
  as.all annOK && nodupB (as.map annHeader)

/-! ## E. Arguments, `generateParamHeaders`, `validateParamHeaders`, `validateMcpHeaders` -/

/-- `map[string]json.RawMessage` lookup; a repeated key keeps the last value. -/
def fieldGet (k : Bytes) : List (Bytes × JV) → Option JV
  | [] => none
  | (k', v) :: rest =>
    match fieldGet k rest with
    | some x => some x
    | none => if k' = k then some v else none

/-- `lookupArgument(args, path)`. -/
def lookupArgument (args : List (Bytes × JV)) : List Bytes → Option JV
  | [] => none
  | [k] => fieldGet k args
  | k :: rest =>
    match fieldGet k args with
    | some (.obj f) => lookupArgument f rest
    | _ => none

/-- `params.arguments` as the two functions unmarshal it. -/
inductive Args where
  | bad                                   -- `Unmarshal(params, &raw)` fails
  | missing                               -- absent or `null`: nil map
  | obj (fields : List (Bytes × JV))

def Args.lookup (a : Args) (path : List Bytes) : Option JV :=
  match a with
  | .obj f => lookupArgument f path
  | _ => none

/-- HTTP headers restricted to `Mcp-Param-*`: (lower-cased annotation name, value). `Get` of an absent header is `""`. -/
abbrev ParamHdrs := List (Bytes × Bytes)

def ParamHdrs.get (h : ParamHdrs) (name : Bytes) : Bytes :=
  match h.find? (fun e => e.1 == lowerBytes name) with
  | some e => e.2
  | none => []

/-- `header.Set(k, v)`. -/
def ParamHdrs.set (h : ParamHdrs) (name : Bytes) (v : Bytes) : ParamHdrs :=
  (lowerBytes name, v) :: h.filter (fun e => e.1 != lowerBytes name)

/-- The value `generateParamHeaders` computes for one binding (`none` = the loop `continue`s). -/
def genValue (c : B64) (a : Args) (b : Binding) : Option Bytes :=
  match a.lookup b.path with
  | none => none
  | some .null => none
  | some v => (unmarshalPrimitive v).map (encodeHeaderValue c)

def genStep (c : B64) (a : Args) (acc : ParamHdrs) (b : Binding) : ParamHdrs :=
  match genValue c a b with
  | none => acc
  | some v => acc.set b.header v

/-- `generateParamHeaders(tool, params)`: the headers the client adds, in binding order. -/
def generateParamHeaders (c : B64) (p : Props) (a : Args) : ParamHdrs :=
  match a with
  | .obj _ => (bindings p).foldl (genStep c a) []
  | _ => []

inductive PErr where
  | unexpected | missing | badBase64 | notPrimitive | mismatch
  deriving DecidableEq, Repr

/-- One iteration of the loop of `validateParamHeaders` (REPAIRED behaviour, fix F06: an absent/empty header is
accepted when the body value is the empty string, which the client encodes as an empty header value). -/
def checkBinding (c : B64) (a : Args) (h : ParamHdrs) (b : Binding) : Option PErr :=
  let hv := h.get b.header
  match a.lookup b.path with
  | none => if hv != [] then some .unexpected else none
  | some .null => if hv != [] then some .unexpected else none
  | some v =>
    if hv = [] then
      (if unmarshalPrimitive v = some (.str []) then none else some .missing)
    else match decodeHeaderValue c hv with
      | none => some .badBase64
      | some d =>
        match unmarshalPrimitive v with
        | none => some .notPrimitive
        | some pv => if primitiveEqual d pv then none else some .mismatch

/-- `validateParamHeaders(header, msg, tool)`: first failing binding (in list order), or `none`. -/
def validateParamHeaders (c : B64) (p : Props) (a : Args) (h : ParamHdrs) : Option PErr :=
  match a with
  | .bad => none
  | _ => (bindings p).findSome? (checkBinding c a h)

/-- A JSON-RPC message of the body, as far as the gates look at it. -/
inductive CheckRes where
  | ok | notHandled | invalid
  deriving DecidableEq, Repr

structure Msg where
  isReq : Bool                -- `*jsonrpc.Request` (else a response)
  method : Bytes
  isCall : Bool               -- has an id
  check : CheckRes            -- opaque: `checkRequest(jreq, methodInfos)`
  metaVersion : Bytes         -- `_meta["io.modelcontextprotocol/protocolVersion"]` if a string, else ""
  nameOk : Bool               -- opaque: `extractName` second result
  name : Bytes                -- opaque: `extractName` first result
  args : Args
  tool : Option Props         -- the input schema of the server tool called `name`, if any (`toolLookup`)

inductive MErr where
  | missingMethod | methodMismatch | missingName | nameExtract | nameMismatch | param (e : PErr)
  deriving DecidableEq, Repr

/-- `validateMcpHeaders(header, msg, toolLookup)`. -/
def validateMcpHeaders (c : B64) (pv mMethod mName : Bytes) (ph : ParamHdrs) (m : Msg) : Option MErr :=
  if standardHeadersSkipped pv then none
  else if !m.isReq then none
  else if mMethod = [] then some .missingMethod
  else if mMethod ≠ m.method then some .methodMismatch
  else
    let named := namedMethods.contains m.method
    if named && mName = [] then some .missingName
    else if named && !m.nameOk then some .nameExtract
    else if named && mName ≠ m.name then some .nameMismatch
    else if m.method = methodCallTool then
      match m.tool with
      | some p => (validateParamHeaders c p m.args ph).map MErr.param
      | none => none
    else none

/-- What `setStandardHeaders` puts on a request: (Mcp-Method, Mcp-Name, Mcp-Param-*); `none` = header not set.
`tool` is the client's cached definition of the tool (context value), if any. -/
def setStandardHeaders (c : B64) (pv : Bytes) (m : Msg) (tool : Option Props) : Option Bytes × Option Bytes × ParamHdrs :=
  if standardHeadersSkipped pv then (none, none, [])
  else if !m.isReq then (none, none, [])
  else
    (some m.method,
     (if m.nameOk then some m.name else none),
     (if m.method = methodCallTool then
        match tool with
        | some p => generateParamHeaders c p m.args
        | none => []
      else []))

/-! ## E′. `params` as the JSON text has it, and its (case-sensitive) decoding

A foreign peer may send any JSON object as `params`: members the SDK does not know, the same member twice, members
whose names differ from a known one only in case (`"Name"`, `"URI"`, `"Arguments"`, `"_META"`).  The SDK decodes with
`internal/json`, which matches member names byte for byte; `encoding/json` would also match case-insensitively.  What
the gates compare the headers with must be what the dispatcher (the same decoder) later hands to the handler, so the
model decodes the member list itself instead of taking `extractName`'s / `extractRequestMeta`'s results as inputs. -/

/-- The `params` member of a request: absent, `null`, some other non-object, or the object's members in source order —
repeated names and names differing only in case are all kept. -/
inductive RawParams where
  | absent
  | null
  | other
  | obj (members : List (Bytes × JV))

/-- Decoding the `string` field with json name `key` of a Go struct: member names are matched exactly; a repeated
member overwrites; `null` leaves the field as it is; any other value is an error (`none`).  `cur` = the field so far. -/
def strFieldFrom (key : Bytes) : Bytes → List (Bytes × JV) → Option Bytes
  | cur, [] => some cur
  | cur, (k, v) :: rest =>
    if k = key then
      match v with
      | .str s => strFieldFrom key s rest
      | .null => strFieldFrom key cur rest
      | _ => none
    else strFieldFrom key cur rest

/-- Decoding a map-typed field (`map[string]json.RawMessage`, `Meta`): an object is merged into the map so far (a later
entry of the same name wins, see `fieldGet`), `null` resets the map to nil, any other value is an error.
`cur = none` is the nil map. -/
def mapFieldFrom (key : Bytes) : Option (List (Bytes × JV)) → List (Bytes × JV) → Option (Option (List (Bytes × JV)))
  | cur, [] => some cur
  | cur, (k, v) :: rest =>
    if k = key then
      match v with
      | .obj f => mapFieldFrom key (some (cur.getD [] ++ f)) rest
      | .null => mapFieldFrom key none rest
      | _ => none
    else mapFieldFrom key cur rest

/-- The member `extractName` returns for `method` (regenerated from its `switch` and the json tags). -/
def nameMemberOf (method : Bytes) : Option Bytes :=
  (nameMember.find? (fun e => e.1 == method)).map (·.2)

/-- The first result of `extractName(method, params)` as far as the identifying member decides it: `none` = the
decoding fails or the method has no name (`"", false`). -/
def decodeName (method : Bytes) (p : RawParams) : Option Bytes :=
  match nameMemberOf method with
  | none => none
  | some key =>
    match p with
    | .obj ms => strFieldFrom key [] ms
    | .null => some []
    | _ => none

/-- Decoding a `json.RawMessage` field: the value of the last member called exactly `key` (`cur` = the field so far). -/
def rawFieldFrom (key : Bytes) : Option JV → List (Bytes × JV) → Option JV
  | cur, [] => cur
  | cur, (k, v) :: rest => if k = key then rawFieldFrom key (some v) rest else rawFieldFrom key cur rest

/-- `params.arguments` as `validateParamHeaders` / `generateParamHeaders` decode it — REPAIRED behaviour (fix
preflight-F31): the arguments are those of the LAST member called exactly `arguments`, which is what the dispatcher
hands to the tool handler (`CallToolParamsRaw.Arguments` is a `json.RawMessage`: a repeated member overwrites).  The
pinned tree decodes straight into a `map[string]json.RawMessage`, which MERGES repeated members (`decodeArgsUnrepaired`). -/
def decodeArgs : RawParams → Args
  | .obj ms =>
    match rawFieldFrom memberArguments none ms with
    | none => .missing
    | some .null => .missing
    | some (.obj f) => .obj f
    | some _ => .bad
  | .null => .missing
  | _ => .bad

/-- The pinned tree's decoding of `params.arguments` (before fix preflight-F31): repeated `arguments` members are merged. -/
def decodeArgsUnrepaired : RawParams → Args
  | .obj ms =>
    match mapFieldFrom memberArguments none ms with
    | none => .bad
    | some none => .missing
    | some (some f) => .obj f
  | .null => .missing
  | _ => .bad

/-- `extractRequestMeta(params)[MetaKeyProtocolVersion].(string)`, `""` when there is none. -/
def decodeMetaVersion : RawParams → Bytes
  | .obj ms =>
    match mapFieldFrom memberMeta none ms with
    | some (some f) =>
      (match fieldGet metaKeyProtocolVersion f with
       | some (.str s) => s
       | _ => [])
    | _ => []
  | _ => []

/-- `server.getServerTool(name)`: the registered tools (name, input-schema properties). -/
def lookupTool (tools : List (Bytes × Props)) (name : Bytes) : Option Props :=
  (tools.find? (fun e => e.1 == name)).map (·.2)

/-- A message of the body before its `params` are decoded. -/
structure RawMsg where
  isReq : Bool
  method : Bytes
  isCall : Bool
  check : CheckRes               -- opaque: `checkRequest(jreq, methodInfos)`
  decodeOk : Bool                -- opaque: the members other than the identifying one decode into the method's params type
  params : RawParams
  tools : List (Bytes × Props)   -- the server's tool table

/-- What the gates see of a message: name, `_meta` version, arguments and the called tool, all decoded from the member
list with exact member names. -/
def RawMsg.decode (m : RawMsg) : Msg :=
  { isReq := m.isReq, method := m.method, isCall := m.isCall, check := m.check,
    metaVersion := decodeMetaVersion m.params,
    nameOk := m.decodeOk && (decodeName m.method m.params).isSome,
    name := (decodeName m.method m.params).getD [],
    args := decodeArgs m.params,
    tool := lookupTool m.tools ((decodeName m.method m.params).getD []) }

/-! ## F. The gate chain -/

inductive HKind where
  | stateless | stateful | sse
  deriving DecidableEq, Repr

inductive Meth where
  | get | post | delete | other
  deriving DecidableEq, Repr

/-- The session the request names (`Mcp-Session-Id` header, or `?sessionid=` for SSE). -/
inductive SessRef where
  | none | known | unknown
  deriving DecidableEq, Repr

inductive Content where
  | malformed                                   -- `readBatch` / `DecodeMessage` fails (includes the empty batch)
  | msgs (isBatch : Bool) (l : List Msg)

structure Req where
  kind : HKind
  protectionDisabled : Bool
  hasLocalAddr : Bool
  listenerLoopback : Bool        -- opaque: util.IsLoopback(localAddr.String())
  hostLoopback : Bool            -- opaque: util.IsLoopback(req.Host)
  originRejects : Bool           -- opaque: CrossOriginProtection configured ∧ Check(req) ≠ nil
  method : Meth
  baseMedia : Bytes              -- opaque: baseMediaType(Content-Type)
  accept : List Bytes
  version : Bytes                -- Mcp-Protocol-Version header
  sess : SessRef
  noSessionIds : Bool            -- the server's `ServerOptions.GetSessionID` returns "": a stateful handler then serves every
                                 -- POST without a session id on an ephemeral session (`ephemeralConnectOpts`), like a stateless one
  lastEventId : Bool             -- a Last-Event-ID header is present
  limit : Int                    -- StreamableHTTPOptions.MaxRequestBodyBytes as configured
  bodyLen : Nat                  -- bytes the body reader delivers (before it ends or fails)
  declared : Option Nat          -- `req.ContentLength` if ≥ 0; `none` = no declared length (chunked upload, HTTP/2 stream)
  readFails : Bool               -- the body reader ends with an error instead of EOF (upload aborted after `bodyLen` bytes)
  content : Content
  mcpMethod : Bytes
  mcpName : Bytes
  paramHdrs : ParamHdrs

inductive Outcome where
  | reject (status : Nat) (code : Option Int) (allow : Option Bytes)
  | dispatched (hasCalls : Bool)       -- every message is pushed on the connection's incoming queue (202 / 200)
  | served (status : Nat)              -- GET stream attached (200) / DELETE done (204): no message involved
  deriving DecidableEq, Repr

def rej (status : Nat) : Outcome := .reject status none none
def rejRpc (status : Nat) (code : Int) : Outcome := .reject status (some code) none

def appJson : Bytes := [97, 112, 112, 108, 105, 99, 97, 116, 105, 111, 110, 47, 106, 115, 111, 110]
def allowPost : Bytes := [80, 79, 83, 84]
def allowGetPostDelete : Bytes := [71, 69, 84, 44, 32, 80, 79, 83, 84, 44, 32, 68, 69, 76, 69, 84, 69]
def allowGetPost : Bytes := [71, 69, 84, 44, 32, 80, 79, 83, 84]

/-- `NewStreamableHTTPHandler`: zero means the default. -/
def effLimit (limit : Int) : Int := if limit = 0 then (defaultMaxRequestBodyBytes : Int) else limit

/-- `http.MaxBytesReader(w, body, n)` makes `io.ReadAll` fail iff more than `n` bytes arrive; installed only when `n > 0`. -/
def tooLarge (r : Req) : Bool := effLimit r.limit > 0 && (r.bodyLen : Int) > effLimit r.limit

/-- What `io.ReadAll(req.Body)` yields where the handler reads the body: `*http.MaxBytesError` (413) as soon as more
than the limit has been delivered — whatever length was declared, if any —, any other read error: 400. -/
def bodyGate (r : Req) : Option Outcome :=
  if tooLarge r then some (rej 413)
  else if r.readFails then some (rej 400)
  else none

/-- The gate's answer if it has one, else go on. -/
def gateThen (g : Option Outcome) (k : Outcome) : Outcome :=
  match g with
  | some o => o
  | none => k

/-- DNS-rebinding gate shared by both handlers. -/
def hostGateRejects (r : Req) : Bool :=
  !r.protectionDisabled && r.hasLocalAddr && r.listenerLoopback && !r.hostLoopback

/-- `protocolVersion := header; if "" then 2025-03-26` (servePOST). -/
def effVersion (v : Bytes) : Bytes := if v = [] then protocolVersion20250326 else v

/-- The per-message part of the loop of `servePOST` (`none` = the message passes).  `isBatch` is the flag `readBatch`
returned for the body (a JSON array, of any length ≥ 1): it is in scope in the loop, and the regenerated condition
`perRequestMetaApplies` is given it; the theorems `meta_gate_ignores_batch` / `msgGate_ignores_batch` (Props.lean) state
that the SEP-2575 block does not consult it. -/
def msgGate (stateless isBatch : Bool) (version : Bytes) (m : Msg) : Option Outcome :=
  if !m.isReq then none else
  let pv := effVersion version
  match m.check with
  | .notHandled =>
    if methodNotFoundAs404 pv && m.isCall then some (rejRpc 404 codeMethodNotFound) else some (rej 400)
  | .invalid => some (rej 400)
  | .ok =>
    if perRequestMetaApplies isBatch pv m.metaVersion then
      if !stateless && m.method ≠ methodDiscover then some (rejRpc 400 codeUnsupportedProtocolVersion)
      else if version = [] then some (rejRpc 400 codeHeaderMismatch)
      else if m.metaVersion = [] then some (rejRpc 400 codeInvalidParams)
      else if version ≠ m.metaVersion then some (rejRpc 400 codeHeaderMismatch)
      else none
    else none

/-- `!isBatch && len(incoming) == 1`: the single message of a non-batch body (also what `DecodeMessage` yields for SSE). -/
def soleMsg (r : Req) : Option Msg :=
  match r.content with
  | .msgs false [m] => some m
  | _ => none

/-- `streamableServerConn.servePOST` from the top to the enqueue.  `bodyRead` = the handler has already read the
body (stateless: `ephemeralConnectOpts`), so the 413 arm cannot fire here.  Gate order after the body is read:
`readBatch` (malformed ⇒ 400; it also yields `isBatch`), the batch gate (`isBatch` and header version ≥ 2025-06-18 ⇒ 400),
the per-message loop over ALL messages of the body in order (first failing message answers), and only then — for
`!isBatch && len(incoming) == 1` — the standard-header mirror. -/
def servePOST (c : B64) (stateless bodyRead : Bool) (r : Req) : Outcome :=
  if r.lastEventId then rej 400
  else match (if bodyRead then none else bodyGate r) with
  | some o => o
  | none =>
  if r.bodyLen = 0 then rej 400
  else match r.content with
    | .malformed => rej 400
    | .msgs isBatch l =>
      if batchGateRejects isBatch (effVersion r.version) then rej 400
      else match l.findSome? (msgGate stateless isBatch r.version) with
        | some o => o
        | none =>
          let hdr : Option MErr := match soleMsg r with
            | some m => validateMcpHeaders c r.version r.mcpMethod r.mcpName r.paramHdrs m
            | none => none
          match hdr with
          | some _ => rejRpc 400 codeHeaderMismatch
          | none => .dispatched (l.any (fun m => m.isReq && m.isCall))

/-- `serveStateless`. -/
def serveStateless (c : B64) (r : Req) : Outcome :=
  if r.method ≠ .post then .reject 405 none (some allowPost)
  else if r.baseMedia ≠ appJson then rej 415
  else if !((streamableAccepts r.accept).1 && (streamableAccepts r.accept).2) then rej 400
  else match bodyGate r with
    | some o => o
    | none => servePOST c true true r

/-- `serveStateful` and its three arms. -/
def serveStateful (c : B64) (r : Req) : Outcome :=
  match r.method with
  | .get =>
    if !(streamableAccepts r.accept).2 then rej 400
    else match r.sess with
      | .none => rej 400
      | .unknown => rej 404
      | .known => .served 200
  | .delete =>
    match r.sess with
    | .none => rej 400
    | .unknown => rej 404
    | .known => .served 204
  | .post =>
    if r.baseMedia ≠ appJson then rej 415
    else if !((streamableAccepts r.accept).1 && (streamableAccepts r.accept).2) then rej 400
    else match r.sess with
      | .unknown => rej 404
      | .known => servePOST c false false r
      | .none =>
        if r.noSessionIds then
          -- ephemeral session: `ephemeralConnectOpts` reads the body first (REPAIRED behaviour, fix preflight-F30:
          -- `*http.MaxBytesError` is answered 413 here too, as in `serveStateless`; the pinned tree answers 400)
          gateThen (bodyGate r) (servePOST c false true r)
        else servePOST c false false r
  | .other => .reject 405 none (some allowGetPostDelete)

/-- `StreamableHTTPHandler.ServeHTTP`. -/
def serveStreamable (c : B64) (r : Req) : Outcome :=
  if hostGateRejects r then rej 403
  else if r.originRejects then rej 403
  else if versionGateRejects r.version then rej 400
  else if r.kind = .stateless then serveStateless c r else serveStateful c r

/-- `SSEHandler.ServeHTTP` followed by `SSEServerTransport.ServeHTTP` for POST (a GET opens a session: `served 200`). -/
def serveSSE (r : Req) : Outcome :=
  if hostGateRejects r then rej 403
  else if r.method = .post && r.baseMedia ≠ appJson then rej 415
  else match r.method with
    | .post =>
      (match r.sess with
       | .none => rej 400
       | .unknown => rej 404
       | .known =>
         if r.readFails then rej 400
         else match soleMsg r with
         | some m => if m.isReq && m.check ≠ .ok then rej 400 else .dispatched false
         | none => rej 400)
    | .get => .served 200
    | _ => .reject 405 none (some allowGetPost)

/-- The decision function: what the handler of kind `r.kind` answers to the abstract request `r`. -/
def verdict (c : B64) (r : Req) : Outcome :=
  match r.kind with
  | .sse => serveSSE r
  | _ => serveStreamable c r

end Preflight
