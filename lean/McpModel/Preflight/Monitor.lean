import McpModel.Preflight.Model
/-!
# E8 Preflight — the typed core of the C12 monitors

The driver (`Driver.lean`) parses every harness record into a typed operation and a typed observation of the
IMPLEMENTATION, calls one of the monitors below and renders the clause it returns.  Everything that decides WHETHER a
clause of C12 is violated, and WHICH one, is in this file; the token parser, the renderer of the model's observation and
the clause texts stay in the driver (the string layer).

The monitors are the property written as decidable predicates on what the implementation did.  They have their own
copies of the specification constants (2^53−1, the media types, the versions, the codes — `spec…` below, literal text),
not the regenerated tables the model uses.  Base64 is a parameter (`c : B64`); the driver instantiates it with a concrete
`StdEncoding`.

Bridging theorems: `Bridge.lean` (no clause fires on an observation the model allows — for ALL inputs) and `Sound.lean`
(a clause that fires refutes the corresponding clause of the property, stated on the record alone).
Core Lean only: linked into `drv_preflight`.
-/
namespace Preflight

/-! ## specification constants (literal) -/

/-- The bytes of an ASCII text. -/
def asc (s : String) : Bytes := s.toList.map Char.toNat

def specMaxSafe : Int := 9007199254740991
def specJson : Bytes := asc "application/json"
def spec20260728 : Bytes := asc "2026-07-28"
def spec20250618 : Bytes := asc "2025-06-18"
def spec20250326 : Bytes := asc "2025-03-26"
def specSupported : List Bytes := ["2026-07-28", "2025-11-25", "2025-06-18", "2025-03-26", "2024-11-05"].map asc
def specNamed : List Bytes := ["tools/call", "resources/read", "prompts/get"].map asc
def specToolsCall : Bytes := asc "tools/call"
def specDiscover : Bytes := asc "server/discover"
def specJsonTokens : List (List Nat) := ["application/json", "application/*", "*/*"].map asc
def specStreamTokens : List (List Nat) := ["text/event-stream", "text/*", "*/*"].map asc
def specDefaultLimit : Int := 4194304

/-- The documented reading of `Accept`: some token admits JSON, some token admits an event stream. -/
def specAccepts (values : List Bytes) : Bool × Bool :=
  let toks := acceptTokens values
  (toks.any specJsonTokens.contains, toks.any specStreamTokens.contains)

/-! ## the clauses -/

/-- The documented preconditions of a message-carrying POST (texts: `Driver.precondText`). -/
inductive Precond where
  | host            -- a loopback-bound listener requires a loopback Host
  | origin          -- cross-origin protection
  | version         -- a declared protocol version is supported
  | method          -- POST
  | media           -- Content-Type application/json
  | accept          -- Accept admits both response types
  | session         -- the session named exists
  | lastEventId     -- no Last-Event-ID on POST
  | size            -- body within the limit
  | delivered       -- body delivered completely
  | empty           -- body not empty
  | malformed       -- body is JSON-RPC
  | batch           -- no JSON-array body from 2025-06-18 on
  | check           -- `checkRequest` passes
  | statefulNew     -- per-request metadata only on a stateless server (or `server/discover`)
  | versionMissing  -- per-request metadata needs the version header
  | metaMissing     -- … and a `_meta` protocol version
  | versionDiffers  -- … and the two are equal
  | mcpMethod       -- Mcp-Method = method
  | mcpName         -- Mcp-Name = name / uri
  | mcpParam        -- Mcp-Param-* = the bound arguments
  | sseNoSession    -- SSE: a session id is given
  | sseOneMessage   -- SSE: the body is one message
  deriving DecidableEq, Repr

/-- What a monitor reports (texts: `Driver.clauseText`). -/
inductive Clause where
  | acceptsTable
  | rtDiffers | rtUndecodable
  | peqSafeInt | peqValue
  | bindPath (b : Binding) | bindShared | bindCount (got want : Nat)
  | genMirror (b : Binding) | genUnbound
  | f31
  | vphF6 | vphAccepts (b : Option Binding) | vphRefuses
  | nameMirror (impl : Bytes) (key : Option Bytes) (exact : Option Bytes) | metaMirror (impl exact : Bytes)
  | e2eF6 | e2eAgree | e2eReached
  -- `seq` records (the session over time): a tool the client has listed under its current definition
  | seqStaleLook | seqLostLook       -- lookupTool answers with a superseded definition (preflight-F32) / does not find it
  | seqStaleCall | seqLostCall | seqAgree   -- the call is refused: headers of a superseded definition (preflight-F32) / none / other
  | seqRefusedExact                  -- … although it carries exactly the headers the server's current definition demands
  | seqLegacy                        -- a legacy session's call is refused
  | seqBadListed | seqBadMirror | seqBadCall   -- a tool listed with invalid annotations: handed on / mirrored / no longer callable
  | seqOtherServer                   -- a call to one server of a handler is judged by the same-named tool of another
  | seqStaleList                     -- ListTools serves from its cache a page from before a change whose list_changed the client handled
  -- a request naming an unimplemented version ≥ 2026-07-28 in header and `_meta` is not answered -32022 / -32602 (C06 and C12)
  | unsupportedVersion (status : Nat) (code : Option Int) (handled : Nat)
  | reached (status : Nat)
  | dispatchSound (p : Precond)
  | httpF6
  | refusedClean (status : Nat) (code : Option Int)
  | httpF30
  | notMandated (status : Nat) (code : Option Int)
  | handlerName (names : List Bytes) (announced : Bytes)
  deriving DecidableEq, Repr

/-! ## helper records -/

/-- `accepts`: the two flags `streamableAccepts` returned. -/
def acceptsMonitor (values : List Bytes) (impl : Bool × Bool) : Option Clause :=
  if impl = specAccepts values then none else some .acceptsTable

/-- `rt`: what `decodeHeaderValue (encodeHeaderValue v)` returned (`none`: it did not decode). -/
def rtMonitor (v : Prim) (decoded : Option Bytes) : Option Clause :=
  match decoded with
  | some d => if d = primToString v then none else some .rtDiffers
  | none => some .rtUndecodable

/-- `peq`: the answer of `primitiveEqual(header, value)`. -/
def peqMonitor (h : Bytes) (v : Prim) (impl : Bool) : Option Clause :=
  match v with
  | .int n => if h == intToDec n && -specMaxSafe ≤ n && n ≤ specMaxSafe && !impl then some .peqSafeInt else none
  | _ => if h == primToString v && !impl then some .peqValue else none

/-- Number of properties of the tree annotated with a non-empty string (read off the tree, no paths involved). -/
def countBound : Props → Nat
  | .nil => 0
  | .cons _ _ xh children rest =>
    (match xh with | .str s => if s = [] then 0 else 1 | _ => 0) + countBound children + countBound rest

def nodupPaths : List (List Bytes) → Bool
  | [] => true
  | x :: xs => !xs.contains x && nodupPaths xs

/-- The binding designates, read from the root of the schema, a property annotated with exactly that header. -/
def bindingResolves (p : Props) (b : Binding) : Bool :=
  match propAt p b.path with
  | some (_, .str h) => h == b.header && h != []
  | _ => false

/-- `annot`: the bindings `extractParamHeaderAnnotations` reported (`binding_path_resolves` / `binding_paths_nodup` /
`bindings_complete`): each designates the property annotated with that header, no path twice, as many as annotated
properties. -/
def annotMonitor (p : Props) (bs : List Binding) : Option Clause :=
  if !namesDistinctB p then none else
  match bs.find? (fun b => !bindingResolves p b) with
  | some b => some (.bindPath b)
  | none =>
    if !nodupPaths (bs.map (·.path)) then some .bindShared
    else if bs.length != countBound p then some (.bindCount bs.length (countBound p))
    else none

/-- A string, a boolean, or an integer within ±(2^53−1). -/
def primSafeB : Prim → Bool
  | .int n => -specMaxSafe ≤ n && n ≤ specMaxSafe
  | _ => true

/-- One `Mcp-Param-*` binding mirrors the body (the documented requirement): absent/null argument ⇒ no header;
otherwise the argument is a string, a boolean or an integer within ±(2^53−1) and the (decoded) header equals it;
the empty string may travel as an empty/absent header. -/
def bindingMirrors (c : B64) (a : Args) (h : ParamHdrs) (b : Binding) : Bool :=
  let hv := h.get b.header
  match a.lookup b.path with
  | none => hv == []
  | some .null => hv == []
  | some v =>
    match unmarshalPrimitive v with
    | none => false
    | some p =>
      primSafeB p && (if hv == [] then p == .str [] else
        match decodeHeaderValue c hv with
        | none => false
        | some d => primitiveEqual d p)

/-- Every bound, present, non-null argument is a string, a boolean or an integer within ±(2^53−1). -/
def argsValidB (p : Props) (a : Args) : Bool :=
  (bindings p).all (fun b => match a.lookup b.path with
    | none => true | some .null => true
    | some v => match unmarshalPrimitive v with
      | some pr => primSafeB pr
      | none => false)

/-- The tool is one the property speaks about: distinct property names per map, annotations that pass the SDK's validation. -/
def toolValidB (p : Props) : Bool := namesDistinctB p && validateAnnotations p

/-- `gen` (client side of the mirror): for a valid tool and valid arguments every binding's header mirrors the argument
at the binding's own path, and no other `Mcp-Param-*` header is produced. -/
def genMonitor (c : B64) (p : Props) (a : Args) (h : ParamHdrs) : Option Clause :=
  if !(toolValidB p && argsValidB p a) then none else
  match (bindings p).find? (fun b => !bindingMirrors c a h b) with
  | some b => some (.genMirror b)
  | none =>
    if h.any (fun e => !(bindings p).any (fun b => lowerBytes b.header == e.1)) then some .genUnbound else none

/-- More than one member of `params` is called exactly `arguments` (the shape of preflight-F31). -/
def repeatedArguments : RawParams → Bool
  | .obj ms => (ms.filter (fun kv => kv.1 == Generated.Preflight.memberArguments)).length ≥ 2
  | _ => false

/-- The answer of `validateParamHeaders`: accepted, refused (with the error kind when the harness prints it: one
binding), or anything else. -/
inductive VphObs where
  | ok
  | err (e : Option PErr)
  | other
  deriving DecidableEq, Repr

/-- The model's answer (`detail`: the tool has exactly one binding, the error kind is printed). -/
def vphModel (c : B64) (p : Props) (a : Args) (h : ParamHdrs) : VphObs :=
  match validateParamHeaders c p a h with
  | none => .ok
  | some e => if (bindings p).length == 1 then .err (some e) else .err none

/-- Every binding mirrors, and some bound argument is the empty string travelling as an empty header (the shape of F6). -/
def f6Like (c : B64) (p : Props) (a : Args) (h : ParamHdrs) : Bool :=
  (bindings p).any (fun b => h.get b.header == [] && (match a.lookup b.path with
    | some v => unmarshalPrimitive v == some (.str []) | none => false)) &&
  (bindings p).all (bindingMirrors c a h)

/-- The mirror requirement on a whole header set: every binding mirrors (arguments that do not decode are the
dispatcher's business). -/
def vphSpec (c : B64) (p : Props) (a : Args) (h : ParamHdrs) : Bool :=
  match a with | .bad => true | _ => (bindings p).all (bindingMirrors c a h)

/-- `vph` (server side of the mirror): `validateParamHeaders` accepts iff every binding mirrors the body.  `au`, `rep`:
the arguments as the pinned tree decoded them (repeated `arguments` members merged) and whether the two can differ. -/
def vphMonitor (c : B64) (p : Props) (a au : Args) (rep : Bool) (h : ParamHdrs) (impl : VphObs) : Option Clause :=
  let spec := vphSpec c p a h
  if rep && impl != vphModel c p a h && impl == vphModel c p au h then some .f31
  else if (impl == .ok) == spec then none
  else if impl != .ok && f6Like c p a h then some .vphF6
  else if impl == .ok then some (.vphAccepts ((bindings p).find? (fun b => !bindingMirrors c a h b)))
  else some .vphRefuses

/-- `params`: the results of `extractName` (`implOk`: its second result) and `extractRequestMeta` against the member
list: the name is the value of the member called exactly `name` / `uri`, the version that of the exact `_meta` key. -/
def paramsMonitor (method : Bytes) (p : RawParams) (implOk : Bool) (implName implVer : Bytes) : Option Clause :=
  let dn := decodeName method p
  let mv := decodeMetaVersion p
  if implOk && some implName != dn then some (.nameMirror implName (nameMemberOf method) dn)
  else if implVer != mv then some (.metaMirror implVer mv)
  else none

/-- The model's `params` observation: (`n`, the name, the version). -/
def paramsModel (method : Bytes) (p : RawParams) (implOk : Bool) : Bool × Bytes × Bytes :=
  let dn := decodeName method p
  let ok := implOk && dn.isSome
  (ok, if ok then dn.getD [] else [], decodeMetaVersion p)

/-- The outcome of an end-to-end call: the handler ran once with the arguments sent; the call succeeded otherwise;
it did not succeed (`quiet`: no handler ran). -/
inductive E2eObs where
  | okSame
  | okOther
  | notOk (quiet : Bool)
  deriving DecidableEq, Repr

def e2eModel (c : B64) (nameOk : Bool) (p : Props) (a : Args) : E2eObs :=
  if !nameOk then .notOk true
  else match validateParamHeaders c p a (generateParamHeaders c p a) with
    | none => .okSame
    | some _ => .notOk true

/-- `e2e` (client_server_agree): for a valid tool and valid arguments the SDK client's call goes through the SDK server
and the handler sees the arguments sent; a refused call reaches no tool handler. -/
def e2eMonitor (c : B64) (nameOk : Bool) (p : Props) (a : Args) (impl : E2eObs) : Option Clause :=
  let valid := nameOk && toolValidB p && argsValidB p a
  if valid && impl != .okSame then
    (if f6Like c p a (generateParamHeaders c p a) then some .e2eF6 else some .e2eAgree)
  else if impl == .notOk false then some .e2eReached
  else none

/-! ## whole requests -/

/-- A message as the harness describes it: the undecoded message for the model, and what the implementation's own
extractors returned for it (`extractName`, `extractRequestMeta`). -/
structure MsgIn where
  raw : RawMsg
  implNameOk : Bool
  implName : Bytes
  implMeta : Bytes

/-- What the harness saw of one `ServeHTTP` call. -/
structure HttpObs where
  status : Nat
  code : Option Int          -- JSON-RPC error code of a JSON error body
  allow : Option Bytes       -- `Allow` header
  reached : Nat              -- messages the receiving middleware saw
  handled : Nat              -- tool / prompt / resource handler runs
  disp : Nat                 -- 1: the request passed the last gate of `servePOST` (Cache-Control witness) or was answered 202
  names : List Bytes         -- the names the handlers were run for (sorted)
  deriving DecidableEq, Repr

def reqMsgs (r : Req) : List Msg := match r.content with | .msgs _ l => l | .malformed => []
def reqIsBatch (r : Req) : Bool := match r.content with | .msgs b _ => b | .malformed => false

/-- `Mcp-Protocol-Version` absent means 2025-03-26. -/
def specPv (r : Req) : Bytes := if r.version = [] then spec20250326 else r.version
def specNewProto (r : Req) : Bool := bLe spec20260728 (specPv r)
def specLimit (r : Req) : Int := if r.limit = 0 then specDefaultLimit else r.limit
/-- The per-request-metadata rules bind the request: protocol ≥ 2026-07-28, or the request carries a `_meta` version. -/
def metaBinds (r : Req) (m : Msg) : Bool := specNewProto r || m.metaVersion != []

/-- The request violates the documented precondition (declarative: no ordering is implied). -/
def violatesB (c : B64) (r : Req) : Precond → Bool
  | .host => !r.protectionDisabled && r.hasLocalAddr && r.listenerLoopback && !r.hostLoopback
  | .origin => r.originRejects
  | .version => r.version != [] && !specSupported.contains r.version && bLt r.version spec20260728
  | .method => r.method != .post
  | .media => r.baseMedia != specJson
  | .accept => !((specAccepts r.accept).1 && (specAccepts r.accept).2)
  | .session => r.kind != .stateless && r.sess == .unknown
  | .lastEventId => r.lastEventId
  -- the limit bounds what is delivered, with or without a declared length; declaring more than the limit is over it too
  | .size => specLimit r > 0 && ((r.bodyLen : Int) > specLimit r ||
      (match r.declared with | some d => (d : Int) > specLimit r | none => false))
  | .delivered => r.readFails
  | .empty => r.bodyLen == 0
  | .malformed => (match r.content with | .malformed => true | _ => false)
  | .batch => reqIsBatch r && bLe spec20250618 (specPv r)
  | .check => (reqMsgs r).any (fun m => m.isReq && m.check != .ok)
  -- the per-request-metadata rules bind every request of the body, whether the body is one message or a JSON array
  | .statefulNew => (reqMsgs r).any (fun m => m.isReq && metaBinds r m && r.kind != .stateless && m.method != specDiscover)
  | .versionMissing => (reqMsgs r).any (fun m => m.isReq && metaBinds r m && r.version == [])
  | .metaMissing => (reqMsgs r).any (fun m => m.isReq && metaBinds r m && m.metaVersion == [])
  | .versionDiffers => (reqMsgs r).any (fun m => m.isReq && metaBinds r m && r.version != [] && m.metaVersion != [] &&
      r.version != m.metaVersion)
  | .mcpMethod => (match soleMsg r with
      | some m => specNewProto r && m.isReq && r.mcpMethod != m.method
      | none => false)
  -- the name is the value of the params member called exactly `name` / `uri`: the one the dispatcher decodes and runs
  | .mcpName => (match soleMsg r with
      | some m => specNewProto r && m.isReq && specNamed.contains m.method &&
          (!m.nameOk || r.mcpName == [] || r.mcpName != m.name)
      | none => false)
  | .mcpParam => (match soleMsg r with
      | some m => specNewProto r && m.isReq &&
          (match m.tool with
           | some p => m.method == specToolsCall && m.nameOk && (match m.args with | .bad => false | _ => true) &&
               (bindings p).any (fun b => !bindingMirrors c m.args r.paramHdrs b)
           | none => false)
      | none => false)
  | .sseNoSession => r.sess == .none
  | .sseOneMessage => (match r.content with | .msgs false [_] => false | _ => true)

/-- The answers the code mandates for a violated precondition (status, optional JSON-RPC code). -/
def mandated (k : HKind) : Precond → List (Nat × Option Int)
  | .host => [(403, none)]
  | .origin => [(403, none)]
  | .version => [(400, none)]
  | .method => if k = .sse then [(405, none)] else [(405, none), (400, none), (404, none)]
  | .media => [(415, none)]
  | .accept => [(400, none)]
  | .session => [(404, none)]
  | .lastEventId => [(400, none)]
  | .size => [(413, none)]
  | .delivered => [(400, none)]
  | .empty => [(400, none)]
  | .malformed => [(400, none)]
  | .batch => [(400, none)]
  | .check => if k = .sse then [(400, none)] else [(400, none), (404, some (-32601))]
  | .statefulNew => [(400, some (-32022))]
  | .versionMissing => [(400, some (-32020))]
  | .metaMissing => [(400, some (-32602))]
  | .versionDiffers => [(400, some (-32020))]
  | .mcpMethod => [(400, some (-32020))]
  | .mcpName => [(400, some (-32020))]
  | .mcpParam => [(400, some (-32020))]
  | .sseNoSession => [(400, none)]
  | .sseOneMessage => [(400, none)]

/-- The preconditions of the handler of kind `k`, in the order in which the monitor names them. -/
def precondsOf : HKind → List Precond
  | .sse => [.host, .method, .media, .sseNoSession, .session, .delivered, .sseOneMessage, .check]
  | _ => [.host, .origin, .version, .method, .media, .accept, .session, .lastEventId, .size, .delivered, .empty,
          .malformed, .batch, .check, .statefulNew, .versionMissing, .metaMissing, .versionDiffers,
          .mcpMethod, .mcpName, .mcpParam]

/-- The documented preconditions of a message-carrying POST that `r` violates, each with the answers mandated for it. -/
def violations (c : B64) (r : Req) : List (Precond × List (Nat × Option Int)) :=
  ((precondsOf r.kind).filter (violatesB c r)).map (fun p => (p, mandated r.kind p))

/-- F6 shape: some bound argument is the empty string travelling as an empty header. -/
def f6Shape (r : Req) : Bool :=
  match r.content with
  | .msgs false [m] =>
    (match m.tool with
     | some p => (bindings p).any (fun b => r.paramHdrs.get b.header == [] && (match m.args.lookup b.path with
        | some v => unmarshalPrimitive v == some (.str []) | none => false))
     | none => false)
  | _ => false

/-- The answers a dispatched call may still get from the session layer under >= 2026-07-28
(`extractErrorStatus`: SEP-2575 maps these JSON-RPC errors to an HTTP status). Not this property's business. -/
def lateErrors : List (Nat × Option Int) := [(404, some (-32601)), (400, some (-32602)), (400, some (-32022)), (400, some (-32021))]

/-- The observation the model allows for the outcome `o` of request `r`.  What the session does with a dispatched
message is not this property's business: the counters of the implementation's observation `ob` are echoed, and so is the
status of a call under >= 2026-07-28 when it is one of the SEP-2575 error mappings.  But WHICH tool / prompt / resource
runs is: when the single message of the body made one handler run, it ran for the name the model decoded from the member
list (exact member name; the dispatcher's decoder).  A request that is refused, or served without carrying a message
(GET stream, DELETE), reaches nothing. -/
def modelObs (r : Req) (o : Outcome) (ob : HttpObs) : HttpObs :=
  match o with
  | .reject st code allow =>
    { status := st, code := code, allow := allow, reached := 0, handled := 0, disp := 0, names := [] }
  | .dispatched calls =>
    let x := match soleMsg r with
      | some m => if ob.handled == 1 && m.isReq then [m.name] else ob.names
      | none => ob.names
    if !calls then { status := 202, code := none, allow := none, reached := ob.reached, handled := ob.handled, disp := 1, names := x }
    else if bLe spec20260728 r.version && lateErrors.contains (ob.status, ob.code) then
      { status := ob.status, code := ob.code, allow := none, reached := ob.reached, handled := ob.handled, disp := 1, names := x }
    else { status := 200, code := none, allow := none, reached := ob.reached, handled := ob.handled, disp := 1, names := x }
  | .served st =>
    { status := st, code := none, allow := none, reached := 0, handled := 0, disp := 0, names := [] }

/-- The mirror seen from the handler's side: under >= 2026-07-28 a tool / prompt / resource handler ran for a name other
than the one `Mcp-Name` announced. -/
def handlerNameMonitor (r : Req) (o : HttpObs) : Option Clause :=
  match r.kind, r.content with
  | .sse, _ => none
  | _, .msgs false [m] =>
    if o.disp == 1 && o.handled == 1 && m.isReq && bLe spec20260728 r.version && specNamed.contains m.method &&
        o.names != [] && o.names != [r.mcpName] then
      some (.handlerName o.names r.mcpName)
    else none
  | _, _ => none

/-- * `dispatch_sound`      — a dispatched request satisfies every documented precondition;
* `rejected ⇒ untouched` — anything else: no middleware / handler saw a message (`R=0 H=0`);
* `violation_status`    — a refusal carries a status/code mandated by one of the violated preconditions, and a
                          request violating nothing is not refused (F6 and F30 have their own clauses). -/
def httpMonitor (c : B64) (r : Req) (o : HttpObs) : Option Clause :=
  let viol := violations c r
  let carries := r.method == .post
  let dispatched := o.disp == 1
  if !dispatched && (o.reached != 0 || o.handled != 0) then some (.reached o.status)
  else if !carries then none
  else if dispatched then
    match viol with
    | (p, _) :: _ => some (.dispatchSound p)
    | [] => none
  else
    match viol with
    | [] =>
      if o.code == some (-32020) && f6Shape r then some .httpF6
      else some (.refusedClean o.status o.code)
    | _ =>
      if viol.any (fun p => p.2.contains (o.status, o.code)) then none
      else if o.status == 400 && o.code == none && r.kind == .stateful && r.noSessionIds && r.sess == .none &&
          viol.any (fun p => p.2 == [(413, none)]) then some .httpF30
      else some (.notMandated o.status o.code)

/-- The request as the pinned tree (before fix preflight-F31) sees it: repeated `arguments` members merged. -/
def unrepairedReq (r : Req) (mi : MsgIn) : Req :=
  { r with content := match r.content with
    | .msgs b [m] => .msgs b [{ m with args := decodeArgsUnrepaired mi.raw.params }]
    | x => x }

/-- The monitors of a whole request.  preflight-F31: a violation is reported under the clause of that finding when the
observation is exactly what merging the repeated `arguments` members (pinned tree) produces. -/
def httpMonitorAll (c : B64) (r : Req) (ins : List MsgIn) (o : HttpObs) : Option Clause :=
  match (httpMonitor c r o).orElse (fun _ => handlerNameMonitor r o), ins with
  | some v, [mi] =>
    if repeatedArguments mi.raw.params then
      (if modelObs (unrepairedReq r mi) (verdict c (unrepairedReq r mi)) o == o then some .f31 else some v)
    else some v
  | v, _ => v

/-! ## the unsupported-version answer (shared with C06)

C06: "Requests carrying the 2026-07-28 per-request metadata are served without a handshake only if that metadata is complete
and names a supported version; otherwise they are answered with invalid-params (-32602) or unsupported-version (-32022,
listing the supported versions)".  C12: "a declared protocol version must be supported … violations receive the mandated
status".  The HTTP front door lets a version header it does not know through when it is not older than 2026-07-28, so that
the session can give that structured answer (a peer implementing a newer revision learns what to fall back to). -/

/-- The single request of the body is a call whose `Mcp-Protocol-Version` header and `_meta` agree on a version that this
SDK does not implement and that is not older than 2026-07-28 (streamable handlers). -/
def unsupportedNew (r : Req) : Bool :=
  r.method == .post && r.kind != .sse &&
  (match soleMsg r with
   | some m => m.isReq && m.isCall && r.version != [] && r.version == m.metaVersion &&
       bLe spec20260728 r.version && !specSupported.contains r.version
   | none => false)

/-- The answers the property names: JSON-RPC -32022 (the harness prints another code when the error data does not list
supported versions) or -32602 (incomplete metadata) — as an HTTP 400 with a JSON body (SEP-2575 status mapping), or, on an
established stateful session, as the answer on the POST's own stream (HTTP 200). -/
def uvAllowed : List (Nat × Option Int) :=
  [(400, some (-32022)), (400, some (-32602)), (200, some (-32022)), (200, some (-32602))]

/-- Such a request that violates no other documented precondition gets one of these answers and runs no handler. -/
def uvMonitor (c : B64) (r : Req) (o : HttpObs) : Option Clause :=
  if unsupportedNew r && (violations c r).isEmpty && !(uvAllowed.contains (o.status, o.code) && o.handled == 0) then
    some (.unsupportedVersion o.status o.code o.handled)
  else none

/-- The observation the model allows, exact on the unsupported-version rows: the request passes the HTTP gates
(`dispatched`), the session refuses it with -32022 (or -32602 — which of the two is the session gate's business, C06) and
no handler runs. -/
def modelObsV (r : Req) (o : Outcome) (ob : HttpObs) : HttpObs :=
  match o with
  | .dispatched _ =>
    if unsupportedNew r then
      -- which of the allowed answers is the session's business (C06, transport): echoed if it is one, else 400 / -32022
      { status := if uvAllowed.contains (ob.status, ob.code) then ob.status else 400,
        code := if uvAllowed.contains (ob.status, ob.code) then ob.code else some (-32022),
        allow := none, reached := ob.reached, handled := 0, disp := 1, names := [] }
    else modelObs r o ob
  | _ => modelObs r o ob

/-- All monitors of a whole request; the unsupported-version clause (shared with C06) is reported first. -/
def httpMonitorAllV (c : B64) (r : Req) (ins : List MsgIn) (o : HttpObs) : Option Clause :=
  (uvMonitor c r o).orElse (fun _ => httpMonitorAll c r ins o)

end Preflight
