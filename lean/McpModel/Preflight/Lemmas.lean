import McpModel.Preflight.Model
/-!
Helper lemmas for the C12 property theorems (E8 Preflight).
-/
namespace Preflight
open Generated.Preflight

/-! ### folds of `orPair` -/

theorem orPair_assoc (a b c : Bool × Bool) : orPair (orPair a b) c = orPair a (orPair b c) := by
  simp [orPair, Bool.or_assoc]

theorem foldl_orPair {α : Type} (f : α → Bool × Bool) (l : List α) (init : Bool × Bool) :
    l.foldl (fun acc x => orPair acc (f x)) init =
      orPair init (l.any (fun x => (f x).1), l.any (fun x => (f x).2)) := by
  induction l generalizing init with
  | nil => simp [orPair]
  | cons x xs ih =>
    simp only [List.foldl_cons, List.any_cons]
    rw [ih]
    simp [orPair, Bool.or_assoc]

/-! ### prefixes and suffixes -/

theorem cutPrefix_append (p x : Bytes) : cutPrefix p (p ++ x) = some x := by
  have h : p.isPrefixOf (p ++ x) = true := List.isPrefixOf_iff_prefix.mpr (List.prefix_append p x)
  simp [cutPrefix, h]

theorem cutSuffix_append (x p : Bytes) : cutSuffix p (x ++ p) = some x := by
  have h : p.isSuffixOf (x ++ p) = true := List.isSuffixOf_iff_suffix.mpr (List.suffix_append x p)
  simp [cutSuffix, h]

theorem cutPrefix_some {p s r : Bytes} (h : cutPrefix p s = some r) : p.isPrefixOf s = true ∧ r = s.drop p.length := by
  unfold cutPrefix at h
  split at h
  · next hp => exact ⟨hp, by simpa using h.symm⟩
  · simp at h

theorem cutSuffix_some {p s r : Bytes} (h : cutSuffix p s = some r) : p.isSuffixOf s = true := by
  unfold cutSuffix at h
  split at h
  · next hp => exact hp
  · simp at h

/-! ### decimal digits -/

theorem isDigit_digit (d : Nat) (h : d < 10) : isDigit (48 + d) = true := by
  simp [isDigit]; omega

theorem natToDec_ne_nil (n : Nat) : natToDec n ≠ [] := by
  rw [natToDec]
  split <;> simp

theorem natToDec_all_digits (n : Nat) : ∀ c ∈ natToDec n, isDigit c = true := by
  induction n using Nat.strongRecOn with
  | _ n ih =>
    rw [natToDec]
    split
    · next h => intro c hc; simp at hc; subst hc; exact isDigit_digit n h
    · next h =>
      intro c hc
      simp only [List.mem_append, List.mem_singleton] at hc
      rcases hc with hc | hc
      · exact ih (n / 10) (by omega) c hc
      · subst hc; exact isDigit_digit (n % 10) (Nat.mod_lt _ (by omega))

theorem digitsVal_append (a b : Bytes) (acc : Nat) :
    digitsVal (a ++ b) acc = (digitsVal a acc).bind (fun x => digitsVal b x) := by
  induction a generalizing acc with
  | nil => simp [digitsVal]
  | cons c cs ih =>
    simp only [List.cons_append, digitsVal]
    split
    · exact ih _
    · simp

theorem digitsVal_natToDec (n : Nat) : digitsVal (natToDec n) 0 = some n := by
  induction n using Nat.strongRecOn with
  | _ n ih =>
    rw [natToDec]
    split
    · next h =>
      have hd : isDigit (48 + n) = true := isDigit_digit n h
      simp [digitsVal, hd]
    · next h =>
      rw [digitsVal_append, ih (n / 10) (by omega)]
      have hd : isDigit (48 + n % 10) = true := isDigit_digit (n % 10) (Nat.mod_lt _ (by omega))
      simp [digitsVal, hd]
      omega

theorem decInt?_digits (s : Bytes) (hne : s ≠ []) (hd : ∀ c ∈ s, isDigit c = true) :
    decInt? s = (digitsVal s 0).map (fun n => (false, n)) := by
  cases s with
  | nil => exact absurd rfl hne
  | cons c cs =>
    have hc : isDigit c = true := hd c (by simp)
    have h45 : c ≠ 45 := by
      intro h; subst h; simp [isDigit] at hc
    unfold decInt?
    split
    · simp_all
    · next heq => simp at heq; exact absurd heq.1 h45
    · rfl

theorem decInt?_intToDec (n : Int) : decInt? (intToDec n) = some (decide (n < 0), n.natAbs) := by
  unfold intToDec
  split
  · next h =>
    have hne := natToDec_ne_nil n.natAbs
    simp [decInt?, hne, digitsVal_natToDec, h]
  · next h =>
    rw [decInt?_digits _ (natToDec_ne_nil _) (natToDec_all_digits _), digitsVal_natToDec]
    simp [h]

end Preflight

namespace Preflight
open Generated.Preflight

/-! ### the header map -/

theorem get_set_same (h : ParamHdrs) (n v : Bytes) : (h.set n v).get n = v := by
  simp [ParamHdrs.set, ParamHdrs.get]

theorem find_filter_ne (h : ParamHdrs) (k k' : Bytes) (hne : k ≠ k') :
    (h.filter (fun e => e.1 != k)).find? (fun e => e.1 == k') = h.find? (fun e => e.1 == k') := by
  induction h with
  | nil => rfl
  | cons e es ih =>
    by_cases h1 : e.1 = k
    · have h2 : (e.1 == k') = false := by
        rw [beq_eq_false_iff_ne]; intro h; exact hne (h1.symm.trans h)
      have h3 : (e.1 != k) = false := by simp [h1]
      rw [List.filter_cons, List.find?_cons]
      simp only [h3, h2]
      exact ih
    · have h3 : (e.1 != k) = true := by simp [h1]
      rw [List.filter_cons]
      simp only [h3, if_true]
      rw [List.find?_cons, List.find?_cons, ih]

theorem get_set_other (h : ParamHdrs) (n n' v : Bytes) (hne : lowerBytes n ≠ lowerBytes n') :
    (h.set n v).get n' = h.get n' := by
  unfold ParamHdrs.set ParamHdrs.get
  have : ((lowerBytes n == lowerBytes n') = false) := by simpa using hne
  rw [List.find?_cons]
  simp only [this]
  rw [find_filter_ne h _ _ hne]

/-- Keys of a binding list are pairwise distinct (case-insensitively). -/
def DistinctKeys (bs : List Binding) : Prop :=
  bs.Pairwise (fun b1 b2 => lowerBytes b1.header ≠ lowerBytes b2.header)

theorem fold_get_other (c : B64) (a : Args) (bs : List Binding) (acc : ParamHdrs) (n : Bytes)
    (h : ∀ b ∈ bs, lowerBytes b.header ≠ lowerBytes n) :
    (bs.foldl (genStep c a) acc).get n = acc.get n := by
  induction bs generalizing acc with
  | nil => rfl
  | cons x xs ih =>
    simp only [List.foldl_cons]
    rw [ih _ (fun b hb => h b (List.mem_cons_of_mem _ hb))]
    unfold genStep
    split
    · rfl
    · exact get_set_other _ _ _ _ (h x (by simp))

theorem fold_get_mem (c : B64) (a : Args) (bs : List Binding) (acc : ParamHdrs) (hd : DistinctKeys bs)
    (b : Binding) (hb : b ∈ bs) :
    (bs.foldl (genStep c a) acc).get b.header =
      (match genValue c a b with | some v => v | none => acc.get b.header) := by
  induction bs generalizing acc with
  | nil => simp at hb
  | cons x xs ih =>
    simp only [List.foldl_cons]
    have hd' := List.pairwise_cons.mp hd
    rcases List.mem_cons.mp hb with hbx | hbx
    · subst hbx
      rw [fold_get_other c a xs _ _ (fun y hy => (hd'.1 y hy).symm)]
      unfold genStep
      split <;> simp_all [get_set_same]
    · rw [ih _ hd'.2 hbx]
      have hne : lowerBytes x.header ≠ lowerBytes b.header := hd'.1 b hbx
      unfold genStep
      split
      · rfl
      · split
        · rfl
        · exact get_set_other _ _ _ _ hne

/-! ### bindings of a validated schema have distinct keys -/

def toBinding (a : Ann) : Option Binding :=
  match a.xh with
  | .str s => if s = [] then none else some { path := a.path, header := s }
  | _ => none

theorem bindings_eq (p : Props) : bindings p = (annotated [] p).filterMap toBinding := rfl

theorem toBinding_key {a : Ann} {b : Binding} (h : toBinding a = some b) : lowerBytes b.header = annHeader a := by
  unfold toBinding at h
  split at h
  · next s hs =>
    split at h
    · simp at h
    · simp at h; subst h; simp [annHeader, hs]
  · simp at h

theorem nodupB_cons (x : Bytes) (xs : List Bytes) : nodupB (x :: xs) = true ↔ x ∉ xs ∧ nodupB xs = true := by
  simp [nodupB]

theorem distinct_of_nodup (as : List Ann) (h : nodupB (as.map annHeader) = true) :
    DistinctKeys (as.filterMap toBinding) := by
  induction as with
  | nil => exact List.Pairwise.nil
  | cons a rest ih =>
    simp only [List.map_cons] at h
    obtain ⟨hnot, hrest⟩ := (nodupB_cons _ _).mp h
    simp only [List.filterMap_cons]
    split
    · exact ih hrest
    · next b hb =>
      refine List.pairwise_cons.mpr ⟨?_, ih hrest⟩
      intro b' hb'
      obtain ⟨a', ha', hab'⟩ := List.mem_filterMap.mp hb'
      rw [toBinding_key hb, toBinding_key hab']
      intro heq
      exact hnot (heq ▸ List.mem_map_of_mem ha')

theorem bindings_distinct (p : Props) (h : validateAnnotations p = true) : DistinctKeys (bindings p) := by
  unfold validateAnnotations at h
  simp only [Bool.and_eq_true] at h
  exact distinct_of_nodup _ h.2

/-! ### encoded values -/

theorem primToString_nil {v : Prim} (h : primToString v = []) : v = .str [] := by
  cases v with
  | str s => simpa [primToString] using h
  | bool b => cases b <;> simp [primToString, bTrue, bFalse] at h
  | int n =>
    exfalso
    simp only [primToString, intToDec] at h
    split at h
    · simp at h
    · exact natToDec_ne_nil _ h

theorem encode_nil (c : B64) {v : Prim} (h : encodeHeaderValue c v = []) : v = .str [] := by
  unfold encodeHeaderValue at h
  simp only at h
  split at h
  · exfalso
    unfold encodeBase64 at h
    have := congrArg List.length h
    simp at this
    have : base64Prefix = [] := this.1
    revert this; decide
  · exact primToString_nil h

theorem safeIntOfF64_range {neg : Bool} {v : Nat × Nat} {n : Int} (h : safeIntOfF64 neg v = some n) :
    minSafeInteger ≤ n ∧ n ≤ maxSafeInteger := by
  unfold safeIntOfF64 at h
  split at h
  · simp at h
  · simp only at h
    split at h <;>
    · simp at h
      obtain ⟨⟨a, b⟩, rfl⟩ := h
      exact ⟨a, b⟩

theorem unmarshalPrimitive_int_range {v : JV} {n : Int} (h : unmarshalPrimitive v = some (.int n)) :
    minSafeInteger ≤ n ∧ n ≤ maxSafeInteger := by
  cases v with
  | num l =>
    simp only [unmarshalPrimitive] at h
    split at h
    · simp at h
    · next v hv =>
      cases hs : safeIntOfF64 l.neg v with
      | none => simp [hs] at h
      | some m =>
        simp [hs] at h
        subst h
        exact safeIntOfF64_range hs
  | str s => simp [unmarshalPrimitive] at h
  | bool b => simp [unmarshalPrimitive] at h
  | null => simp [unmarshalPrimitive] at h
  | arr => simp [unmarshalPrimitive] at h
  | obj f => simp [unmarshalPrimitive] at h

/-! ## Paths of the annotation walk (`annotated`/`bindings`) against the path reading `propAt` -/

theorem namesDistinctB_iff (p : Props) : namesDistinctB p = true ↔ NamesDistinct p := by
  induction p with
  | nil => simp [namesDistinctB, NamesDistinct]
  | cons n ty xh ch rest ihc ihr =>
    simp only [namesDistinctB, NamesDistinct, Bool.and_eq_true, Bool.not_eq_true', ihc, ihr]
    constructor
    · rintro ⟨⟨h1, h2⟩, h3⟩
      exact ⟨by simpa using h1, h2, h3⟩
    · rintro ⟨h1, h2, h3⟩
      exact ⟨⟨by simpa using h1, h2⟩, h3⟩

theorem find_some_mem {k : Bytes} {p : Props} {e : Bytes × XH × Props} (h : p.find k = some e) :
    k ∈ siblingNames p := by
  induction p with
  | nil => simp [Props.find] at h
  | cons n ty xh ch rest _ ih =>
    simp only [Props.find] at h
    by_cases hn : n = k
    · simp [siblingNames, hn]
    · simp only [hn, if_false] at h
      simp [siblingNames, ih h]

theorem propAt_head_mem {p : Props} {k : Bytes} {π : List Bytes} {x : Bytes × XH}
    (h : propAt p (k :: π) = some x) : k ∈ siblingNames p := by
  cases π with
  | nil =>
    simp only [propAt] at h
    cases hf : p.find k with
    | none => simp [hf] at h
    | some e => exact find_some_mem hf
  | cons k' r =>
    simp only [propAt] at h
    cases hf : p.find k with
    | none => simp [hf] at h
    | some e => exact find_some_mem hf

theorem propAt_cons_ne {n ty : Bytes} {xh : XH} {ch rest : Props} {k : Bytes} (π : List Bytes) (hne : n ≠ k) :
    propAt (.cons n ty xh ch rest) (k :: π) = propAt rest (k :: π) := by
  cases π with
  | nil => simp [propAt, Props.find, hne]
  | cons k' r => simp [propAt, Props.find, hne]

theorem propAt_cons_eq_one {n ty : Bytes} {xh : XH} {ch rest : Props} :
    propAt (.cons n ty xh ch rest) [n] = some (ty, xh) := by
  simp [propAt, Props.find]

theorem propAt_cons_eq_more {n ty : Bytes} {xh : XH} {ch rest : Props} {π : List Bytes} (hπ : π ≠ []) :
    propAt (.cons n ty xh ch rest) (n :: π) = propAt ch π := by
  cases π with
  | nil => exact absurd rfl hπ
  | cons k' r => simp [propAt, Props.find]

/-- Soundness of the walk: every collected annotation sits at the path it is recorded under. -/
theorem annotated_resolves (p : Props) (hd : NamesDistinct p) (pre : List Bytes) :
    ∀ a ∈ annotated pre p, ∃ π, a.path = pre ++ π ∧ π ≠ [] ∧ propAt p π = some (a.ty, a.xh) ∧ a.xh ≠ .absent := by
  induction p generalizing pre with
  | nil => intro a ha; simp [annotated] at ha
  | cons n ty xh ch rest ihc ihr =>
    obtain ⟨hn, hdc, hdr⟩ := hd
    intro a ha
    simp only [annotated, List.mem_append] at ha
    rcases ha with (ha | ha) | ha
    · by_cases hx : xh = .absent
      · simp [hx] at ha
      · simp only [hx, if_false, List.mem_singleton] at ha
        subst ha
        exact ⟨[n], rfl, by simp, propAt_cons_eq_one, hx⟩
    · obtain ⟨π, h1, h2, h3, h4⟩ := ihc hdc (pre ++ [n]) a ha
      refine ⟨n :: π, by simp [h1], by simp, ?_, h4⟩
      rw [propAt_cons_eq_more h2]; exact h3
    · obtain ⟨π, h1, h2, h3, h4⟩ := ihr hdr pre a ha
      refine ⟨π, h1, h2, ?_, h4⟩
      cases π with
      | nil => exact absurd rfl h2
      | cons k r =>
        have hk : k ∈ siblingNames rest := propAt_head_mem h3
        have hne : n ≠ k := fun e => hn (e ▸ hk)
        rw [propAt_cons_ne r hne]; exact h3

/-- Completeness of the walk: every property reachable by a path that carries an `x-mcp-header` member is collected,
under exactly that path. -/
theorem annotated_complete (p : Props) (pre π : List Bytes) (ty : Bytes) (xh : XH)
    (h : propAt p π = some (ty, xh)) (hx : xh ≠ .absent) :
    ({ path := pre ++ π, ty := ty, xh := xh } : Ann) ∈ annotated pre p := by
  induction p generalizing pre π with
  | nil =>
    cases π with
    | nil => simp [propAt] at h
    | cons k r => cases r <;> simp [propAt, Props.find] at h
  | cons n ty' xh' ch rest ihc ihr =>
    simp only [annotated, List.mem_append]
    cases π with
    | nil => simp [propAt] at h
    | cons k r =>
      by_cases hk : n = k
      · subst hk
        cases r with
        | nil =>
          rw [propAt_cons_eq_one] at h
          simp only [Option.some.injEq, Prod.mk.injEq] at h
          obtain ⟨rfl, rfl⟩ := h
          left; left
          simp [hx]
        | cons k' r' =>
          rw [propAt_cons_eq_more (by simp)] at h
          left; right
          have := ihc (pre ++ [n]) (k' :: r') h
          simpa using this
      · rw [propAt_cons_ne r hk] at h
        right
        exact ihr pre (k :: r) h


/-- No aliasing: distinct annotated properties are recorded under distinct paths, at any depth and width. -/
theorem annotated_paths_nodup (p : Props) (hd : NamesDistinct p) (pre : List Bytes) :
    ((annotated pre p).map (·.path)).Nodup := by
  induction p generalizing pre with
  | nil => simp [annotated]
  | cons n ty xh ch rest ihc ihr =>
    have hres := annotated_resolves (.cons n ty xh ch rest) hd
    obtain ⟨hn, hdc, hdr⟩ := hd
    simp only [annotated, List.map_append]
    rw [List.nodup_append, List.nodup_append]
    refine ⟨⟨?_, ihc hdc _, ?_⟩, ihr hdr _, ?_⟩
    · by_cases hx : xh = .absent <;> simp [hx]
    · -- own path vs. children's paths
      intro x hx y hy
      by_cases hxa : xh = .absent
      · simp [hxa] at hx
      · simp only [hxa, if_false, List.map_cons, List.map_nil, List.mem_singleton] at hx
        subst hx
        obtain ⟨a, ha, rfl⟩ := List.mem_map.mp hy
        obtain ⟨π, h1, h2, _, _⟩ := annotated_resolves ch hdc (pre ++ [n]) a ha
        intro e
        rw [h1] at e
        have := congrArg List.length e
        simp at this
        exact h2 this
    · -- own and children's paths vs. the later siblings' paths
      intro x hx y hy
      obtain ⟨b, hb, rfl⟩ := List.mem_map.mp hy
      obtain ⟨π, h1, h2, h3, _⟩ := annotated_resolves rest hdr pre b hb
      have hxform : ∃ σ, x = pre ++ n :: σ := by
        rcases List.mem_append.mp hx with hx | hx
        · by_cases hxa : xh = .absent
          · simp [hxa] at hx
          · simp only [hxa, if_false, List.map_cons, List.map_nil, List.mem_singleton] at hx
            exact ⟨[], by simp [hx]⟩
        · obtain ⟨a, ha, rfl⟩ := List.mem_map.mp hx
          obtain ⟨σ, g1, _, _, _⟩ := annotated_resolves ch hdc (pre ++ [n]) a ha
          exact ⟨σ, by simp [g1]⟩
      obtain ⟨σ, rfl⟩ := hxform
      intro e
      rw [h1] at e
      have e' := List.append_cancel_left e
      cases π with
      | nil => exact h2 rfl
      | cons k r =>
        have hk : k ∈ siblingNames rest := propAt_head_mem h3
        simp only [List.cons.injEq] at e'
        exact hn (e'.1 ▸ hk)

theorem toBinding_path {a : Ann} {b : Binding} (h : toBinding a = some b) : b.path = a.path := by
  unfold toBinding at h
  cases hx : a.xh with
  | str s =>
    simp only [hx] at h
    by_cases hs : s = []
    · simp [hs] at h
    · simp only [hs, if_false, Option.some.injEq] at h
      subst h; rfl
  | absent => simp [hx] at h
  | null => simp [hx] at h
  | other => simp [hx] at h

theorem filterMap_paths_sublist (l : List Ann) :
    List.Sublist ((l.filterMap toBinding).map (·.path)) (l.map (·.path)) := by
  induction l with
  | nil => simp
  | cons a as ih =>
    simp only [List.filterMap_cons, List.map_cons]
    cases hb : toBinding a with
    | none => exact List.Sublist.cons _ ih
    | some b =>
      simp only [List.map_cons, toBinding_path hb]
      exact List.Sublist.cons_cons _ ih


end Preflight
