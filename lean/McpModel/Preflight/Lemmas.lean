import McpModel.Preflight.Model
/-!
Helper lemmas for the C12 property theorems (E8 Preflight).
-/
namespace Preflight
open Generated.Preflight

/-! ### folds of `orPair` -/

theorem orPair_assoc (a b c : Bool × Bool) : orPair (orPair a b) c = orPair a (orPair b c) := by
  simp [orPair, Bool.or_assoc]

theorem foldl_orPair {α : Type} (f : α → Bool × Bool) (l : List α) (init : Bool × Bool) :
    l.foldl (fun acc x => orPair acc (f x)) init =
      orPair init (l.any (fun x => (f x).1), l.any (fun x => (f x).2)) := by
  induction l generalizing init with
  | nil => simp [orPair]
  | cons x xs ih =>
    simp only [List.foldl_cons, List.any_cons]
    rw [ih]
    simp [orPair, Bool.or_assoc]

/-! ### prefixes and suffixes -/

theorem cutPrefix_append (p x : Bytes) : cutPrefix p (p ++ x) = some x := by
  have h : p.isPrefixOf (p ++ x) = true := List.isPrefixOf_iff_prefix.mpr (List.prefix_append p x)
  simp [cutPrefix, h]

theorem cutSuffix_append (x p : Bytes) : cutSuffix p (x ++ p) = some x := by
  have h : p.isSuffixOf (x ++ p) = true := List.isSuffixOf_iff_suffix.mpr (List.suffix_append x p)
  simp [cutSuffix, h]

theorem cutPrefix_some {p s r : Bytes} (h : cutPrefix p s = some r) : p.isPrefixOf s = true ∧ r = s.drop p.length := by
  unfold cutPrefix at h
  split at h
  · next hp => exact ⟨hp, by simpa using h.symm⟩
  · simp at h

theorem cutSuffix_some {p s r : Bytes} (h : cutSuffix p s = some r) : p.isSuffixOf s = true := by
  unfold cutSuffix at h
  split at h
  · next hp => exact hp
  · simp at h

/-! ### decimal digits -/

theorem isDigit_digit (d : Nat) (h : d < 10) : isDigit (48 + d) = true := by
  simp [isDigit]; omega

theorem natToDec_ne_nil (n : Nat) : natToDec n ≠ [] := by
  rw [natToDec]
  split <;> simp

theorem natToDec_all_digits (n : Nat) : ∀ c ∈ natToDec n, isDigit c = true := by
  induction n using Nat.strongRecOn with
  | _ n ih =>
    rw [natToDec]
    split
    · next h => intro c hc; simp at hc; subst hc; exact isDigit_digit n h
    · next h =>
      intro c hc
      simp only [List.mem_append, List.mem_singleton] at hc
      rcases hc with hc | hc
      · exact ih (n / 10) (by omega) c hc
      · subst hc; exact isDigit_digit (n % 10) (Nat.mod_lt _ (by omega))

theorem digitsVal_append (a b : Bytes) (acc : Nat) :
    digitsVal (a ++ b) acc = (digitsVal a acc).bind (fun x => digitsVal b x) := by
  induction a generalizing acc with
  | nil => simp [digitsVal]
  | cons c cs ih =>
    simp only [List.cons_append, digitsVal]
    split
    · exact ih _
    · simp

theorem digitsVal_natToDec (n : Nat) : digitsVal (natToDec n) 0 = some n := by
  induction n using Nat.strongRecOn with
  | _ n ih =>
    rw [natToDec]
    split
    · next h =>
      have hd : isDigit (48 + n) = true := isDigit_digit n h
      simp [digitsVal, hd]
    · next h =>
      rw [digitsVal_append, ih (n / 10) (by omega)]
      have hd : isDigit (48 + n % 10) = true := isDigit_digit (n % 10) (Nat.mod_lt _ (by omega))
      simp [digitsVal, hd]
      omega

theorem decInt?_digits (s : Bytes) (hne : s ≠ []) (hd : ∀ c ∈ s, isDigit c = true) :
    decInt? s = (digitsVal s 0).map (fun n => (false, n)) := by
  cases s with
  | nil => exact absurd rfl hne
  | cons c cs =>
    have hc : isDigit c = true := hd c (by simp)
    have h45 : c ≠ 45 := by
      intro h; subst h; simp [isDigit] at hc
    unfold decInt?
    split
    · simp_all
    · next heq => simp at heq; exact absurd heq.1 h45
    · rfl

theorem decInt?_intToDec (n : Int) : decInt? (intToDec n) = some (decide (n < 0), n.natAbs) := by
  unfold intToDec
  split
  · next h =>
    have hne := natToDec_ne_nil n.natAbs
    simp [decInt?, hne, digitsVal_natToDec, h]
  · next h =>
    rw [decInt?_digits _ (natToDec_ne_nil _) (natToDec_all_digits _), digitsVal_natToDec]
    simp [h]

end Preflight
