import McpModel.Order.Model
/-!
Engine `order` — sessionless streamable servers and POST bodies with several messages (C03).

A foreign peer on a protocol version before 2025-06-18 may POST a JSON-RPC batch to a sessionless
`StreamableHTTPHandler` (`Stateless`, or `GetSessionID` returning "").  The whole body is served by ONE temporary
session (`serveEphemeral`): `servePOST` hands its members to that session in body order, the session's single
dispatcher handles them as any session does — a synchronous member (notification, `initialize`) finishes before the
next member starts, calls are released by `Async` —, and the POST is answered only when the session is through:
`session.Wait()` for a body without calls, the complete response stream followed by the graceful `session.Close()`
(which waits for the handlers still running) for a body with calls.  Two POSTs share nothing.

`stepB` is `stepE` (one temporary session per POST) extended by `bsend`:
  `bsend ps i`  message `i` is sent in one POST body in which `ps` stand before it (`send i` = `bsend [] i`);
  `start i`     enabled only when every SYNCHRONOUS member before `i` in its body is done (members that are calls may
                still be running, or may not even have started their user code: `Async` released the dispatcher);
  `ret i`       the POST that carried `i` is answered: `i` and every other member of its body are done.
This file is linked into the driver: core Lean only; the theorems are in `EphemeralBodyProps`.
-/
namespace Order

def stepB (kind : Nat → Kind) (s : State) : Label → Option State
  | .send i => if s.phase i = .unsent then some (s.setPhase i .sending) else none
  | .bsend ps i =>
    if s.phase i = .unsent ∧ ∀ p ∈ ps, s.phase p ≠ .unsent then
      some { (s.setPhase i .sending) with after := s.after ++ ps.map fun p => (p, i) }
    else none
  | .start i =>
    if s.phase i = .sending ∧ ∀ p ∈ s.after, p.2 = i → (kind p.1).sync = true → s.phase p.1 = .done then
      some (s.setPhase i .running)
    else none
  | .cb i => if s.phase i = .running then some s else none
  | .fin i => if s.phase i = .running then some (s.setPhase i .done) else none
  | .ret i =>
    if i ∈ s.returned then none
    else if s.phase i = .done ∧ ∀ p ∈ s.after, (p.2 = i → s.phase p.1 = .done) ∧ (p.1 = i → s.phase p.2 = .done) then
      some { s with returned := i :: s.returned }
    else none
  | _ => none

def runB (kind : Nat → Kind) : State → List Label → Option State
  | s, [] => some s
  | s, l :: ls =>
    match stepB kind s l with
    | some s' => runB kind s' ls
    | none => none

end Order
