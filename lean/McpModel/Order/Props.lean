import McpModel.Order.Lemmas
/-
Engine `order` — property theorems for C03 (end-to-end half).

C03: "Messages from one peer are dispatched to handlers in the order they were sent.  The handler of a
notification (and of initialize) finishes before the handler of any later message from that peer
starts, so once a notifying method has returned, any notification or call the same goroutine sends
afterwards is observed by the peer after it.  Ordinary calls, by contrast, may run concurrently with
one another and with later messages."

Every theorem quantifies over ALL classifications `kind`, ALL label lists (= all message sequences, all
interleavings of sender, transport, dispatcher and handlers, all handler durations: a duration is just
the number of other labels between `start i` and `fin i`).  "Later" is read as the property states it:
`ret i` (the notifying method has returned) occurs before `send j` (the next API call begins) — this
covers one goroutine issuing both, and any goroutine started after the first call returned.
-/
set_option linter.unusedSimpArgs false
set_option linter.unusedVariables false
namespace Order

/-! ### generic facts about runs -/

theorem run_append (kind : Nat → Kind) (s : State) (a b : List Label) :
    run kind s (a ++ b) = (run kind s a).bind fun s' => run kind s' b := by
  induction a generalizing s with
  | nil => simp [run]
  | cons l ls ih =>
    simp only [List.cons_append, run]
    cases step kind s l with
    | none => simp
    | some s1 => simp [ih]

theorem run_append_some {kind : Nat → Kind} {s s' : State} {a b : List Label}
    (h : run kind s (a ++ b) = some s') : ∃ m, run kind s a = some m ∧ run kind m b = some s' := by
  rw [run_append] at h
  cases hm : run kind s a with
  | none => simp [hm] at h
  | some m => exact ⟨m, rfl, by simpa [hm] using h⟩

theorem run_cons_some {kind : Nat → Kind} {s s' : State} {l : Label} {ls : List Label}
    (h : run kind s (l :: ls) = some s') : ∃ m, step kind s l = some m ∧ run kind m ls = some s' := by
  simp only [run] at h
  cases hm : step kind s l with
  | none => simp [hm] at h
  | some m => exact ⟨m, rfl, by simpa [hm] using h⟩

/-- Every state reachable from the initial one satisfies the invariant. -/
theorem inv_reachable {kind : Nat → Kind} {ls : List Label} {s : State}
    (h : run kind init ls = some s) : Inv kind s := inv_run (inv_init kind) h

/-! ### monotonicity of the ghost state -/

theorem step_returned_mono {kind : Nat → Kind} {s s' : State} {l : Label} (h : step kind s l = some s')
    {i : Nat} (hi : i ∈ s.returned) : i ∈ s'.returned := by
  cases l <;> simp only [step] at h
  case disp k =>
    split at h
    · split at h <;> simp at h; subst h; exact hi
    · simp at h
  case ret k =>
    split at h
    · simp at h
    · split at h <;> simp at h; subst h; exact List.mem_cons_of_mem _ hi
  all_goals (split at h <;> simp at h; subst h; exact hi)

theorem step_pred_mono {kind : Nat → Kind} {s s' : State} {l : Label} (h : step kind s l = some s')
    {p : Nat × Nat} (hp : p ∈ s.pred) : p ∈ s'.pred := by
  cases l <;> simp only [step] at h
  case disp k =>
    split at h
    · split at h <;> simp at h; subst h; exact hp
    · simp at h
  case ret k =>
    split at h
    · simp at h
    · split at h <;> simp at h; subst h; exact hp
  case send k =>
    split at h <;> simp at h; subst h; simp; left; exact hp
  case bsend ps k =>
    split at h <;> simp at h; subst h; simp; left; exact hp
  all_goals (split at h <;> simp at h; subst h; exact hp)

theorem run_returned_mono {kind : Nat → Kind} {s s' : State} {ls : List Label} (h : run kind s ls = some s')
    {i : Nat} (hi : i ∈ s.returned) : i ∈ s'.returned := by
  induction ls generalizing s with
  | nil => simp [run] at h; subst h; exact hi
  | cons l ls ih => obtain ⟨m, h1, h2⟩ := run_cons_some h; exact ih h2 (step_returned_mono h1 hi)

theorem run_pred_mono {kind : Nat → Kind} {s s' : State} {ls : List Label} (h : run kind s ls = some s')
    {p : Nat × Nat} (hp : p ∈ s.pred) : p ∈ s'.pred := by
  induction ls generalizing s with
  | nil => simp [run] at h; subst h; exact hp
  | cons l ls ih => obtain ⟨m, h1, h2⟩ := run_cons_some h; exact ih h2 (step_pred_mono h1 hp)

theorem step_ret_returned {kind : Nat → Kind} {s s' : State} {i : Nat} (h : step kind s (.ret i) = some s') :
    i ∈ s'.returned := by
  simp only [step] at h
  split at h
  · simp at h
  · split at h <;> simp at h; subst h; simp

theorem step_send_pred {kind : Nat → Kind} {s s' : State} {i j : Nat} (h : step kind s (.send j) = some s')
    (hi : i ∈ s.returned) (hs : (kind i).sync = true) : (i, j) ∈ s'.pred := by
  simp only [step] at h
  split at h <;> simp at h
  subst h
  simp
  right; exact ⟨hi, hs⟩

/-- A handler that is done was finished by a `fin` label. -/
theorem done_has_fin {kind : Nat → Kind} {s s' : State} {ls : List Label} (h : run kind s ls = some s')
    {i : Nat} (hd : s'.phase i = .done) : s.phase i = .done ∨ Label.fin i ∈ ls := by
  induction ls generalizing s with
  | nil => simp [run] at h; subst h; left; exact hd
  | cons l ls ih =>
    obtain ⟨m, h1, h2⟩ := run_cons_some h
    rcases ih h2 with hm | hm
    · -- the phase became `done` in this step, or was already
      by_cases hl : l = .fin i
      · right; simp [hl]
      · left
        cases l <;> simp only [step] at h1
        case disp k =>
          split at h1
          · split at h1 <;> simp at h1; subst h1
            simp only [setPhase_phase] at hm; split at hm <;> simp_all
          · simp at h1
        case ret k =>
          split at h1
          · simp at h1
          · split at h1 <;> simp at h1; subst h1; exact hm
        case fin k =>
          split at h1 <;> simp at h1; subst h1
          simp only [setPhase_phase] at hm
          split at hm
          · rename_i e; subst e; simp at hl
          · exact hm
        case cb k => split at h1 <;> simp at h1; subst h1; exact hm
        all_goals (split at h1 <;> simp at h1; subst h1; simp only [setPhase_phase] at hm; split at hm <;> simp_all)
    · right; exact List.mem_cons_of_mem _ hm

/-! ### (1) the handler of a notification (or initialize) finishes before any later message starts -/

/-- State form: in every reachable state in which the user handler of `j` can start, every synchronous
message `i` whose sending call had returned before `j` was sent is done. -/
theorem sync_finished_when_later_starts {kind : Nat → Kind} {ls : List Label} {s s' : State}
    (h : run kind init ls = some s) {i j : Nat} (hp : (i, j) ∈ s.pred)
    (hs : step kind s (.start j) = some s') : s.phase i = .done := by
  obtain ⟨_, _, h3⟩ := (inv_reachable h).pred i j hp
  simp only [step] at hs
  split at hs <;> simp at hs
  rename_i hc
  rcases h3 with q | q | ⟨q, _⟩
  · exact q
  · rcases hc with ⟨e, _⟩ | e <;> simp [e] at q
  · rcases hc with ⟨e, _⟩ | e <;> simp [e] at q

/-- Trace form, for ALL label lists: if the sending call of the synchronous message `i` returned, then
the sending call of `j` began, and later the handler of `j` starts, then the handler of `i` finished
before that start. -/
theorem sync_end_before_later_start {kind : Nat → Kind} {l₁ l₂ l₃ : List Label} {i j : Nat} {s : State}
    (h : run kind init (l₁ ++ .ret i :: (l₂ ++ .send j :: (l₃ ++ [.start j]))) = some s)
    (hsync : (kind i).sync = true) :
    Label.fin i ∈ l₁ ++ .ret i :: (l₂ ++ .send j :: l₃) := by
  have h' : run kind init ((l₁ ++ .ret i :: (l₂ ++ .send j :: l₃)) ++ [.start j]) = some s := by
    simpa [List.append_assoc] using h
  obtain ⟨m, hm, hlast⟩ := run_append_some h'
  obtain ⟨s1, hs1, hrest⟩ := run_append_some hm
  obtain ⟨s2, hret, hrest⟩ := run_cons_some hrest
  obtain ⟨s3, hs3, hrest⟩ := run_append_some hrest
  obtain ⟨s4, hsend, hrest⟩ := run_cons_some hrest
  have hr : i ∈ s3.returned := run_returned_mono hs3 (step_ret_returned hret)
  have hp : (i, j) ∈ m.pred := run_pred_mono hrest (step_send_pred hsend hr hsync)
  obtain ⟨s5, hstart, _⟩ := run_cons_some hlast
  have hd := sync_finished_when_later_starts hm hp hstart
  rcases done_has_fin hm hd with q | q
  · simp [init] at q
  · exact q

/-- Non-vacuity: such runs exist (notification 0 with a handler that calls back, then call 1). -/
example : (run (fun k => if k = 0 then .note else .call) init
    [.send 0, .write 0, .ret 0, .send 1, .write 1, .disp 0, .start 0, .cb 0, .fin 0, .disp 1, .rel 1, .start 1]).isSome = true := by
  decide

/-- While a synchronous handler runs it holds the dispatcher: nothing else can be dispatched — in
particular not after the handler called back into the peer (`cb`), which leaves the state unchanged. -/
theorem sync_handler_holds_dispatcher {kind : Nat → Kind} {ls : List Label} {s : State}
    (h : run kind init ls = some s) {i : Nat} (hr : s.phase i = .running) (hs : (kind i).sync = true) (j : Nat) :
    s.busy = some i ∧ step kind s (.disp j) = none := by
  have hb := ((inv_reachable h).busy i).2 (Or.inr ⟨hr, hs⟩)
  refine ⟨hb, ?_⟩
  simp [step, hb]

theorem callback_releases_nothing {kind : Nat → Kind} {s s' : State} {i : Nat}
    (h : step kind s (.cb i) = some s') : s' = s := by
  simp only [step] at h
  split at h <;> simp at h
  exact h.symm

/-- Two synchronous handlers never run at the same time. -/
theorem sync_handlers_exclusive {kind : Nat → Kind} {ls : List Label} {s : State}
    (h : run kind init ls = some s) {i j : Nat} (hi : s.phase i = .running) (hj : s.phase j = .running)
    (si : (kind i).sync = true) (sj : (kind j).sync = true) : i = j := by
  have a := ((inv_reachable h).busy i).2 (Or.inr ⟨hi, si⟩)
  have b := ((inv_reachable h).busy j).2 (Or.inr ⟨hj, sj⟩)
  rw [a] at b
  exact Option.some.inj b

/-! ### (2) no message overtakes another: dispatch order = write order -/

def writesOf (ls : List Label) : List Nat := ls.filterMap fun | .write i => some i | _ => none
def dispsOf (ls : List Label) : List Nat := ls.filterMap fun | .disp i => some i | _ => none

theorem fifo_general {kind : Nat → Kind} {s s' : State} {ls : List Label} (h : run kind s ls = some s') :
    s.queue ++ writesOf ls = dispsOf ls ++ s'.queue := by
  induction ls generalizing s with
  | nil => simp [run] at h; subst h; simp [writesOf, dispsOf]
  | cons l ls ih =>
    obtain ⟨m, h1, h2⟩ := run_cons_some h
    have := ih h2
    cases l <;> simp only [step] at h1
    case write k =>
      split at h1 <;> simp at h1; subst h1
      simp [writesOf, dispsOf] at this ⊢; exact this
    case disp k =>
      split at h1
      · rename_i hd q hb hq
        split at h1 <;> simp at h1
        rename_i e; subst e; subst h1
        simp [writesOf, dispsOf, hq] at this ⊢; exact this
      · simp at h1
    case ret k =>
      split at h1
      · simp at h1
      · split at h1 <;> simp at h1; subst h1; simpa [writesOf, dispsOf] using this
    all_goals (split at h1 <;> simp at h1; subst h1; simpa [writesOf, dispsOf] using this)

/-- For ALL label lists: the messages handed to the dispatcher so far, followed by the receiver's
queue, are exactly the messages written so far, in write order. -/
theorem dispatch_order_is_write_order {kind : Nat → Kind} {ls : List Label} {s : State}
    (h : run kind init ls = some s) : dispsOf ls ++ s.queue = writesOf ls := by
  have := fifo_general h
  simpa [init] using this.symm

theorem dispatched_is_prefix_of_written {kind : Nat → Kind} {ls : List Label} {s : State}
    (h : run kind init ls = some s) : dispsOf ls <+: writesOf ls :=
  ⟨s.queue, dispatch_order_is_write_order h⟩

/-! ### (3) ordinary calls are NOT constrained (so the monitor must not demand it) -/

/-- Two calls, written in the order 0, 1, whose user handlers run at the same time. -/
theorem calls_may_overlap :
    (run (fun _ => .call) init
      [.send 0, .write 0, .send 1, .write 1, .disp 0, .rel 0, .disp 1, .rel 1, .start 0, .start 1]).map
      (fun s => (s.phase 0, s.phase 1)) = some (.running, .running) := by decide

/-- Two calls, written (and dispatched) in the order 0, 1; the user handler of 1 starts — and even
finishes — before that of 0 starts. -/
theorem calls_may_start_out_of_order :
    (run (fun _ => .call) init
      [.send 0, .write 0, .send 1, .write 1, .disp 0, .rel 0, .disp 1, .rel 1, .start 1, .fin 1, .start 0]).map
      (fun s => (s.phase 0, s.phase 1)) = some (.running, .done) := by decide

/-- A call also runs concurrently with a later notification. -/
theorem call_may_overlap_later_notification :
    (run (fun k => if k = 0 then .call else .note) init
      [.send 0, .write 0, .disp 0, .rel 0, .start 0, .send 1, .write 1, .ret 1, .disp 1, .start 1]).map
      (fun s => (s.phase 0, s.phase 1)) = some (.running, .running) := by decide

/-! ### (4) when the notifying call has returned the message is already in the receiver's FIFO -/

theorem written_has_write {kind : Nat → Kind} {s s' : State} {ls : List Label} (hinv : Inv kind s)
    (h : run kind s ls = some s') {i : Nat} (hw : s'.phase i ≠ .unsent ∧ s'.phase i ≠ .sending) :
    (s.phase i ≠ .unsent ∧ s.phase i ≠ .sending) ∨ Label.write i ∈ ls := by
  induction ls generalizing s with
  | nil => simp [run] at h; subst h; left; exact hw
  | cons l ls ih =>
    obtain ⟨m, h1, h2⟩ := run_cons_some h
    rcases ih (inv_step hinv h1) h2 with hm | hm
    · by_cases hl : l = .write i
      · right; simp [hl]
      · left
        cases l <;> simp only [step] at h1
        case disp k =>
          split at h1
          · rename_i hd q hb hq
            split at h1 <;> simp at h1
            rename_i e; subst e; subst h1
            simp only [setPhase_phase] at hm
            split at hm
            · rename_i e; subst e
              have : s.phase i = .queued := (hinv.qmem i).1 (by rw [hq]; simp)
              simp [this]
            · exact hm
          · simp at h1
        case ret k =>
          split at h1
          · simp at h1
          · split at h1 <;> simp at h1; subst h1; exact hm
        case cb k => split at h1 <;> simp at h1; subst h1; exact hm
        case write k =>
          split at h1 <;> simp at h1; subst h1
          simp only [setPhase_phase] at hm
          split at hm
          · rename_i e; subst e; simp at hl
          · exact hm
        case start k =>
          split at h1 <;> simp at h1; subst h1
          rename_i hc
          simp only [setPhase_phase] at hm
          split at hm
          · rename_i e; subst e
            rcases hc with ⟨e, _⟩ | e <;> simp [e]
          · exact hm
        all_goals (split at h1 <;> simp at h1; subst h1; simp only [setPhase_phase] at hm; split at hm <;> simp_all)
    · right; exact List.mem_cons_of_mem _ hm

/-- For ALL label lists: when the sending call of a notification returns, its `write` into the
receiver's FIFO has already happened. -/
theorem notify_returns_after_queued {kind : Nat → Kind} {l₁ : List Label} {i : Nat} {s : State}
    (h : run kind init (l₁ ++ [.ret i]) = some s) (hn : kind i = .note) : Label.write i ∈ l₁ := by
  obtain ⟨m, hm, hlast⟩ := run_append_some h
  obtain ⟨s1, hret, _⟩ := run_cons_some hlast
  simp only [step] at hret
  split at hret
  · simp at hret
  · split at hret <;> simp at hret
    rename_i hok
    rcases hok with ⟨_, h1, h2⟩ | ⟨h1, _⟩
    · rcases written_has_write (inv_init kind) hm ⟨h1, h2⟩ with q | q
      · simp [init] at q
      · exact q
    · exact absurd hn h1

/-- State form: a synchronous message whose sending call has returned is in the receiver's queue,
holds the dispatcher, or has been handled — it can no longer be overtaken. -/
theorem returned_sync_is_queued_or_beyond {kind : Nat → Kind} {ls : List Label} {s : State}
    (h : run kind init ls = some s) {i : Nat} (hr : i ∈ s.returned) (hs : (kind i).sync = true) :
    s.phase i = .queued ∨ s.busy = some i ∨ s.phase i = .done := (inv_reachable h).ret i hr hs

theorem step_not_unsent {kind : Nat → Kind} {s s' : State} {l : Label} (h : step kind s l = some s')
    {j : Nat} (hj : s.phase j ≠ .unsent) : s'.phase j ≠ .unsent := by
  cases l <;> simp only [step] at h
  case disp k =>
    split at h
    · split at h <;> simp at h; subst h; simp only [setPhase_phase]; split <;> simp_all
    · simp at h
  case ret k =>
    split at h
    · simp at h
    · split at h <;> simp at h; subst h; exact hj
  case cb k => split at h <;> simp at h; subst h; exact hj
  all_goals (split at h <;> simp at h; subst h; simp only [setPhase_phase]; split <;> simp_all)

theorem run_not_unsent {kind : Nat → Kind} {s s' : State} {ls : List Label} (h : run kind s ls = some s')
    {j : Nat} (hj : s.phase j ≠ .unsent) : s'.phase j ≠ .unsent := by
  induction ls generalizing s with
  | nil => simp [run] at h; subst h; exact hj
  | cons l ls ih => obtain ⟨m, h1, h2⟩ := run_cons_some h; exact ih h2 (step_not_unsent h1 hj)

theorem write_not_unsent {kind : Nat → Kind} {s s' : State} {ls : List Label} (h : run kind s ls = some s')
    {j : Nat} (hw : Label.write j ∈ ls) : s'.phase j ≠ .unsent := by
  induction ls generalizing s with
  | nil => simp at hw
  | cons l ls ih =>
    obtain ⟨m, h1, h2⟩ := run_cons_some h
    simp only [List.mem_cons] at hw
    rcases hw with rfl | hw
    · apply run_not_unsent h2
      simp only [step] at h1
      split at h1 <;> simp at h1
      subst h1; simp
    · exact ih h2 hw

/-- For ALL label lists: once the sending call of notification `i` has returned, `i` is in the
receiver's FIFO, and a message `j` whose sending call begins afterwards has not been written yet —
so `j` is written, hence (by `dispatch_order_is_write_order`) dispatched, after `i`. -/
theorem later_send_is_behind {kind : Nat → Kind} {l₁ l₂ l₃ : List Label} {i j : Nat} {s : State}
    (h : run kind init (l₁ ++ .ret i :: (l₂ ++ .send j :: l₃)) = some s) (hn : kind i = .note) :
    Label.write i ∈ l₁ ∧ Label.write j ∉ l₁ ++ .ret i :: l₂ := by
  have h' : run kind init ((l₁ ++ [.ret i]) ++ (l₂ ++ .send j :: l₃)) = some s := by
    simpa [List.append_assoc] using h
  obtain ⟨m, hm, hrest⟩ := run_append_some h'
  refine ⟨notify_returns_after_queued hm hn, ?_⟩
  have h'' : run kind init ((l₁ ++ .ret i :: l₂) ++ .send j :: l₃) = some s := by
    simpa [List.append_assoc] using h
  obtain ⟨m2, hm2, hrest2⟩ := run_append_some h''
  obtain ⟨m3, hsend, _⟩ := run_cons_some hrest2
  intro hw
  have := write_not_unsent hm2 hw
  simp only [step] at hsend
  split at hsend <;> simp at hsend
  rename_i hu
  exact this hu

/-! ### (5) transport units carrying several messages (a POST body with a JSON-RPC batch)

`bsend ps j`: `j` travels in one body with `ps` before it.  Proved for ALL runs: the body's messages
are written — hence dispatched — in body order; a synchronous member finishes before a later member
starts; the acknowledgement of the body (= `ret` of its members) is possible only when the members are
queued, so whatever is sent after the acknowledgement is behind ALL of them. -/

theorem step_after_mono {kind : Nat → Kind} {s s' : State} {l : Label} (h : step kind s l = some s')
    {p : Nat × Nat} (hp : p ∈ s.after) : p ∈ s'.after := by
  cases l <;> simp only [step] at h
  case disp k =>
    split at h
    · split at h <;> simp at h; subst h; exact hp
    · simp at h
  case ret k =>
    split at h
    · simp at h
    · split at h <;> simp at h; subst h; exact hp
  case bsend ps k =>
    split at h <;> simp at h; subst h; simp; left; exact hp
  all_goals (split at h <;> simp at h; subst h; exact hp)

theorem run_after_mono {kind : Nat → Kind} {s s' : State} {ls : List Label} (h : run kind s ls = some s')
    {p : Nat × Nat} (hp : p ∈ s.after) : p ∈ s'.after := by
  induction ls generalizing s with
  | nil => simp [run] at h; subst h; exact hp
  | cons l ls ih => obtain ⟨m, h1, h2⟩ := run_cons_some h; exact ih h2 (step_after_mono h1 hp)

theorem step_bsend_after {kind : Nat → Kind} {s s' : State} {ps : List Nat} {p j : Nat}
    (h : step kind s (.bsend ps j) = some s') (hp : p ∈ ps) : (p, j) ∈ s'.after := by
  simp only [step] at h
  split at h <;> simp at h
  subst h
  simp
  right; exact hp

theorem step_bsend_pred {kind : Nat → Kind} {s s' : State} {ps : List Nat} {p j : Nat}
    (h : step kind s (.bsend ps j) = some s') (hp : p ∈ ps ∨ p ∈ s.returned) (hs : (kind p).sync = true) :
    (p, j) ∈ s'.pred := by
  simp only [step] at h
  split at h <;> simp at h
  subst h
  simp
  right
  rcases hp with hp | hp
  · right; exact ⟨hp, hs⟩
  · left; exact ⟨hp, hs⟩

/-- For ALL label lists: the messages of one body are handed to the session in body order — when `j`
is written, every `p` that stands before it in the body has been written already. -/
theorem batch_written_in_order {kind : Nat → Kind} {l₁ l₂ l₃ : List Label} {ps : List Nat} {p j : Nat} {s : State}
    (h : run kind init (l₁ ++ .bsend ps j :: (l₂ ++ .write j :: l₃)) = some s) (hp : p ∈ ps) :
    Label.write p ∈ l₁ ++ .bsend ps j :: l₂ := by
  have h' : run kind init ((l₁ ++ .bsend ps j :: l₂) ++ .write j :: l₃) = some s := by
    simpa [List.append_assoc] using h
  obtain ⟨m, hm, hrest⟩ := run_append_some h'
  obtain ⟨m2, hw, _⟩ := run_cons_some hrest
  obtain ⟨s1, hs1, hrest1⟩ := run_append_some hm
  obtain ⟨s2, hb, hrest2⟩ := run_cons_some hrest1
  have haft : (p, j) ∈ m.after := run_after_mono hrest2 (step_bsend_after hb hp)
  simp only [step] at hw
  split at hw <;> simp at hw
  rename_i hg
  have := hg.2 (p, j) haft rfl
  rcases written_has_write (inv_init kind) hm this with q | q
  · simp [init] at q
  · exact q

/-- Order invariant for bodies: if `p` stands before `j` in one body and `j` has been written, then so
has `p`, and while both wait in the receiver's queue `p` is ahead of `j`. -/
structure BInv (s : State) : Prop where
  ord : ∀ p j, (p, j) ∈ s.after → s.phase j ≠ .unsent → s.phase j ≠ .sending →
    (s.phase p ≠ .unsent ∧ s.phase p ≠ .sending) ∧ (s.phase j = .queued → s.phase p = .queued → Ahead s.queue p j)

theorem binv_init : BInv init := ⟨by intro p j h; simp [init] at h⟩

theorem binv_step {kind : Nat → Kind} {s s' : State} {l : Label} (hinv : Inv kind s) (hb : BInv s)
    (h : step kind s l = some s') : BInv s' := by
  constructor
  intro p j hpj
  cases l <;> simp only [step] at h
  case send k =>
    split at h <;> simp at h
    rename_i hu; subst h
    simp only [setPhase_phase, setPhase_after, setPhase_queue] at hpj ⊢
    have hjk : s.phase j ≠ .unsent → s.phase j ≠ .sending → j ≠ k ∧ p ≠ k := by
      intro a b
      have := (hb.ord p j hpj a b).1
      exact ⟨by intro e; subst e; exact a hu, by intro e; subst e; exact this.1 hu⟩
    by_cases e : j = k
    · subst e; simp
    · simp only [e, if_false]
      intro a b
      have hpk := (hjk a b).2
      simp only [hpk, if_false]
      exact hb.ord p j hpj a b
  case bsend ps k =>
    split at h <;> simp at h
    rename_i hg; obtain ⟨hu, _⟩ := hg; subst h
    simp only [setPhase_phase, setPhase_queue, List.mem_append, List.mem_map, Prod.mk.injEq] at hpj ⊢
    rcases hpj with hpj | ⟨x, _, rfl, rfl⟩
    · by_cases e : j = k
      · subst e; simp
      · simp only [e, if_false]
        intro a b
        have hpk : p ≠ k := by intro e2; subst e2; exact (hb.ord p j hpj a b).1.1 hu
        simp only [hpk, if_false]
        exact hb.ord p j hpj a b
    · simp
  case write k =>
    split at h <;> simp at h
    rename_i hg; obtain ⟨hu, hord⟩ := hg; subst h
    simp only [setPhase_phase, setPhase_after, setPhase_queue] at hpj ⊢
    by_cases e : j = k
    · subst e
      simp only [if_true]
      intro _ _
      have hw := hord (p, j) hpj rfl
      have hpj' : p ≠ j := by intro e2; subst e2; exact hw.2 hu
      simp only [hpj', if_false]
      refine ⟨hw, fun _ hq => ahead_of_mem j ((hinv.qmem p).2 hq)⟩
    · simp only [e, if_false]
      intro a b
      obtain ⟨h1, h2⟩ := hb.ord p j hpj a b
      by_cases e2 : p = k
      · subst e2; exact absurd hu h1.2
      · simp only [e2, if_false]
        exact ⟨h1, fun x y => ahead_snoc k (h2 x y)⟩
  case ret k =>
    split at h
    · simp at h
    · split at h <;> simp at h; subst h; exact hb.ord p j hpj
  case disp k =>
    split at h
    · rename_i hd q hbusy hqueue
      split at h <;> simp at h
      rename_i e; subst e; subst h
      simp only [setPhase_phase, setPhase_after] at hpj ⊢
      have hnd : hd ∉ q := by have := hinv.qnodup; rw [hqueue] at this; exact (List.nodup_cons.1 this).1
      have hph : s.phase hd = .queued := (hinv.qmem hd).1 (by rw [hqueue]; simp)
      by_cases e : j = hd
      · subst e
        simp only [if_true]
        intro _ _
        obtain ⟨h1, h2⟩ := hb.ord p j hpj (by simp [hph]) (by simp [hph])
        have hpj' : p ≠ j := by
          intro e2; subst e2
          have := h2 hph hph
          rw [hqueue] at this
          exact (ahead_cons this hnd).1 rfl
        simp only [hpj', if_false]
        exact ⟨h1, by simp⟩
      · simp only [e, if_false]
        intro a b
        obtain ⟨h1, h2⟩ := hb.ord p j hpj a b
        by_cases e2 : p = hd
        · subst e2; simp
        · simp only [e2, if_false]
          refine ⟨h1, fun x y => ?_⟩
          have := h2 x y
          rw [hqueue] at this
          rcases (ahead_cons this hnd).2 with r | r
          · exact absurd r e2
          · exact r
    · simp at h
  case cb k => split at h <;> simp at h; subst h; exact hb.ord p j hpj
  case rel k =>
    split at h <;> simp at h
    rename_i hc; subst h
    simp only [setPhase_phase, setPhase_after, setPhase_queue] at hpj ⊢
    intro a b
    have a' : s.phase j ≠ .unsent := by intro e; by_cases e2 : j = k <;> simp_all
    have b' : s.phase j ≠ .sending := by intro e; by_cases e2 : j = k <;> simp_all
    obtain ⟨h1, h2⟩ := hb.ord p j hpj a' b'
    refine ⟨by by_cases e2 : p = k <;> simp_all, fun x y => ?_⟩
    have x' : s.phase j = .queued := by by_cases e2 : j = k <;> simp_all
    have y' : s.phase p = .queued := by by_cases e2 : p = k <;> simp_all
    exact h2 x' y'
  case start k =>
    split at h <;> simp at h
    rename_i hc; subst h
    simp only [setPhase_phase, setPhase_after, setPhase_queue] at hpj ⊢
    have hk : s.phase k ≠ .unsent ∧ s.phase k ≠ .sending := by rcases hc with ⟨e, _⟩ | e <;> simp [e]
    intro a b
    have a' : s.phase j ≠ .unsent := by intro e; by_cases e2 : j = k <;> simp_all
    have b' : s.phase j ≠ .sending := by intro e; by_cases e2 : j = k <;> simp_all
    obtain ⟨h1, h2⟩ := hb.ord p j hpj a' b'
    refine ⟨by by_cases e2 : p = k <;> simp_all, fun x y => ?_⟩
    have x' : s.phase j = .queued := by by_cases e2 : j = k <;> simp_all
    have y' : s.phase p = .queued := by by_cases e2 : p = k <;> simp_all
    exact h2 x' y'
  case fin k =>
    split at h <;> simp at h
    rename_i hc; subst h
    simp only [setPhase_phase, setPhase_after, setPhase_queue] at hpj ⊢
    intro a b
    have a' : s.phase j ≠ .unsent := by intro e; by_cases e2 : j = k <;> simp_all
    have b' : s.phase j ≠ .sending := by intro e; by_cases e2 : j = k <;> simp_all
    obtain ⟨h1, h2⟩ := hb.ord p j hpj a' b'
    refine ⟨by by_cases e2 : p = k <;> simp_all, fun x y => ?_⟩
    have x' : s.phase j = .queued := by by_cases e2 : j = k <;> simp_all
    have y' : s.phase p = .queued := by by_cases e2 : p = k <;> simp_all
    exact h2 x' y'

theorem binv_run {kind : Nat → Kind} {s s' : State} {ls : List Label} (hinv : Inv kind s) (hb : BInv s)
    (h : run kind s ls = some s') : BInv s' := by
  induction ls generalizing s with
  | nil => simp [run] at h; subst h; exact hb
  | cons l ls ih =>
    obtain ⟨m, h1, h2⟩ := run_cons_some h
    exact ih (inv_step hinv h1) (binv_step hinv hb h1) h2

/-- A message that is beyond the queue was handed to the dispatcher by a `disp` label. -/
theorem beyond_has_disp {kind : Nat → Kind} {s s' : State} {ls : List Label} (h : run kind s ls = some s')
    {i : Nat} (hd : s'.phase i ≠ .unsent ∧ s'.phase i ≠ .sending ∧ s'.phase i ≠ .queued) :
    (s.phase i ≠ .unsent ∧ s.phase i ≠ .sending ∧ s.phase i ≠ .queued) ∨ Label.disp i ∈ ls := by
  induction ls generalizing s with
  | nil => simp [run] at h; subst h; left; exact hd
  | cons l ls ih =>
    obtain ⟨m, h1, h2⟩ := run_cons_some h
    rcases ih h2 with hm | hm
    · by_cases hl : l = .disp i
      · right; simp [hl]
      · left
        cases l <;> simp only [step] at h1
        case disp k =>
          split at h1
          · split at h1 <;> simp at h1
            rename_i e; subst e; subst h1
            simp only [setPhase_phase] at hm
            split at hm
            · rename_i e; subst e; simp at hl
            · exact hm
          · simp at h1
        case ret k =>
          split at h1
          · simp at h1
          · split at h1 <;> simp at h1; subst h1; exact hm
        case cb k => split at h1 <;> simp at h1; subst h1; exact hm
        case start k =>
          split at h1 <;> simp at h1; subst h1
          rename_i hc
          simp only [setPhase_phase] at hm
          split at hm
          · rename_i e; subst e
            rcases hc with ⟨e, _⟩ | e <;> simp [e]
          · exact hm
        all_goals (split at h1 <;> simp at h1; subst h1; simp only [setPhase_phase] at hm; split at hm <;> simp_all)
    · right; exact List.mem_cons_of_mem _ hm

/-- For ALL label lists: the messages of one body reach the dispatcher in body order — when `j` is
dispatched, every `p` that stands before it in the body has been dispatched already (no other message,
of this body or sent after its acknowledgement, can get between them and reverse them). -/
theorem batch_dispatched_in_order {kind : Nat → Kind} {l₁ l₂ l₃ : List Label} {ps : List Nat} {p j : Nat} {s : State}
    (h : run kind init (l₁ ++ .bsend ps j :: (l₂ ++ .disp j :: l₃)) = some s) (hp : p ∈ ps) :
    Label.disp p ∈ l₁ ++ .bsend ps j :: l₂ := by
  have h' : run kind init ((l₁ ++ .bsend ps j :: l₂) ++ .disp j :: l₃) = some s := by
    simpa [List.append_assoc] using h
  obtain ⟨m, hm, hrest⟩ := run_append_some h'
  obtain ⟨m2, hdj, _⟩ := run_cons_some hrest
  obtain ⟨s1, hs1, hrest1⟩ := run_append_some hm
  obtain ⟨s2, hb, hrest2⟩ := run_cons_some hrest1
  have haft : (p, j) ∈ m.after := run_after_mono hrest2 (step_bsend_after hb hp)
  have hinv := inv_reachable hm
  have hbinv := binv_run (inv_init kind) binv_init hm
  simp only [step] at hdj
  split at hdj
  · rename_i hd q hbusy hqueue
    split at hdj <;> simp at hdj
    rename_i e; subst e
    have hnd : hd ∉ q := by have := hinv.qnodup; rw [hqueue] at this; exact (List.nodup_cons.1 this).1
    have hph : m.phase hd = .queued := (hinv.qmem hd).1 (by rw [hqueue]; simp)
    obtain ⟨h1, h2⟩ := hbinv.ord p hd haft (by simp [hph]) (by simp [hph])
    have hnq : m.phase p ≠ .queued := by
      intro hq
      have := h2 hph hq
      rw [hqueue] at this
      exact (ahead_cons this hnd).1 rfl
    rcases beyond_has_disp hm ⟨h1.1, h1.2, hnq⟩ with q | q
    · simp [init] at q
    · exact q
  · simp at hdj

/-- For ALL label lists: a synchronous member of a body finishes before the handler of any later
member of the same body starts. -/
theorem batch_sync_end_before_later_start {kind : Nat → Kind} {l₁ l₃ : List Label} {ps : List Nat} {p j : Nat} {s : State}
    (h : run kind init (l₁ ++ .bsend ps j :: (l₃ ++ [.start j])) = some s) (hp : p ∈ ps)
    (hsync : (kind p).sync = true) : Label.fin p ∈ l₁ ++ .bsend ps j :: l₃ := by
  have h' : run kind init ((l₁ ++ .bsend ps j :: l₃) ++ [.start j]) = some s := by
    simpa [List.append_assoc] using h
  obtain ⟨m, hm, hlast⟩ := run_append_some h'
  obtain ⟨s1, hs1, hrest⟩ := run_append_some hm
  obtain ⟨s2, hb, hrest⟩ := run_cons_some hrest
  have hpr : (p, j) ∈ m.pred := run_pred_mono hrest (step_bsend_pred hb (Or.inl hp) hsync)
  obtain ⟨s5, hstart, _⟩ := run_cons_some hlast
  have hd := sync_finished_when_later_starts hm hpr hstart
  rcases done_has_fin hm hd with q | q
  · simp [init] at q
  · exact q

/-- For ALL label lists: the same for a body that is sent after the sending call (or the
acknowledged body) of the synchronous message `i` returned. -/
theorem sync_end_before_later_body_start {kind : Nat → Kind} {l₁ l₂ l₃ : List Label} {ps : List Nat} {i j : Nat} {s : State}
    (h : run kind init (l₁ ++ .ret i :: (l₂ ++ .bsend ps j :: (l₃ ++ [.start j]))) = some s)
    (hsync : (kind i).sync = true) :
    Label.fin i ∈ l₁ ++ .ret i :: (l₂ ++ .bsend ps j :: l₃) := by
  have h' : run kind init ((l₁ ++ .ret i :: (l₂ ++ .bsend ps j :: l₃)) ++ [.start j]) = some s := by
    simpa [List.append_assoc] using h
  obtain ⟨m, hm, hlast⟩ := run_append_some h'
  obtain ⟨s1, hs1, hrest⟩ := run_append_some hm
  obtain ⟨s2, hret, hrest⟩ := run_cons_some hrest
  obtain ⟨s3, hs3, hrest⟩ := run_append_some hrest
  obtain ⟨s4, hsend, hrest⟩ := run_cons_some hrest
  have hr : i ∈ s3.returned := run_returned_mono hs3 (step_ret_returned hret)
  have hpr : (i, j) ∈ m.pred := run_pred_mono hrest (step_bsend_pred hsend (Or.inr hr) hsync)
  obtain ⟨s5, hstart, _⟩ := run_cons_some hlast
  have hd := sync_finished_when_later_starts hm hpr hstart
  rcases done_has_fin hm hd with q | q
  · simp [init] at q
  · exact q

/-- The acknowledgement of a notification (for a body: of each of its notifications) is enabled only
when the message is in the receiver's FIFO or beyond — an acknowledgement while a member of the body
is still outside the queue is not a step of the model. -/
theorem ack_requires_queued {kind : Nat → Kind} {s s' : State} {i : Nat}
    (h : step kind s (.ret i) = some s') (hn : kind i = .note) :
    s.phase i ≠ .unsent ∧ s.phase i ≠ .sending := by
  simp only [step] at h
  split at h
  · simp at h
  · split at h <;> simp at h
    rename_i hok
    rcases hok with ⟨_, h1, h2⟩ | ⟨h1, _⟩
    · exact ⟨h1, h2⟩
    · exact absurd hn h1

/-- For ALL label lists: once notification `i` has been acknowledged, a body member `j` whose body is
sent afterwards has not been written yet, so it is written — hence dispatched — after `i`. -/
theorem later_body_is_behind {kind : Nat → Kind} {l₁ l₂ l₃ : List Label} {ps : List Nat} {i j : Nat} {s : State}
    (h : run kind init (l₁ ++ .ret i :: (l₂ ++ .bsend ps j :: l₃)) = some s) (hn : kind i = .note) :
    Label.write i ∈ l₁ ∧ Label.write j ∉ l₁ ++ .ret i :: l₂ := by
  have h' : run kind init ((l₁ ++ [.ret i]) ++ (l₂ ++ .bsend ps j :: l₃)) = some s := by
    simpa [List.append_assoc] using h
  obtain ⟨m, hm, hrest⟩ := run_append_some h'
  refine ⟨notify_returns_after_queued hm hn, ?_⟩
  have h'' : run kind init ((l₁ ++ .ret i :: l₂) ++ .bsend ps j :: l₃) = some s := by
    simpa [List.append_assoc] using h
  obtain ⟨m2, hm2, hrest2⟩ := run_append_some h''
  obtain ⟨m3, hsend, _⟩ := run_cons_some hrest2
  intro hw
  have := write_not_unsent hm2 hw
  simp only [step] at hsend
  split at hsend <;> simp at hsend
  rename_i hg
  exact this hg.1

/-- Non-vacuity: a body of three notifications, acknowledged, then a fourth message. -/
example : (run (fun _ => .note) init
    [.send 0, .bsend [0] 1, .bsend [0, 1] 2, .write 0, .disp 0, .start 0, .write 1, .write 2, .ret 0, .ret 1, .ret 2,
     .send 3, .write 3, .ret 3, .fin 0, .disp 1, .start 1, .fin 1, .disp 2, .start 2, .fin 2, .disp 3, .start 3]).isSome = true := by
  decide

/-- Counter-example for an early acknowledgement (202 written while the tail of the body is still
outside the session's queue): the message sent after the acknowledgement overtakes the tail.  Such a
trace is rejected by the monitor, and the early `ret` is not a step of the model; neither is a write
of the tail out of body order. -/
theorem early_body_ack_breaks_order :
    holdsOn (fun _ => .note)
      (visible [.send 0, .bsend [0] 1, .ret 0, .ret 1, .send 2, .start 0, .fin 0, .start 2, .fin 2, .start 1, .fin 1]) = false
    ∧ run (fun _ => .note) init [.send 0, .bsend [0] 1, .write 0, .ret 0, .ret 1] = none
    ∧ run (fun _ => .note) init [.send 0, .bsend [0] 1, .write 1] = none := by
  refine ⟨?_, ?_, ?_⟩ <;> decide

/-! ### the property monitor accepts every run of the model -/

theorem pred_done_at_start {kind : Nat → Kind} {s s' : State} (hinv : Inv kind s) {i j : Nat}
    (hp : (i, j) ∈ s.pred) (hs : step kind s (.start j) = some s') : s.phase i = .done := by
  obtain ⟨_, _, h3⟩ := hinv.pred i j hp
  simp only [step] at hs
  split at hs <;> simp at hs
  rename_i hc
  rcases h3 with q | q | ⟨q, _⟩
  · exact q
  · rcases hc with ⟨e, _⟩ | e <;> simp [e] at q
  · rcases hc with ⟨e, _⟩ | e <;> simp [e] at q

/-- The monitor's state mirrors the model's ghost state. -/
structure Sim (s : State) (m : Mon) : Prop where
  ret : m.returned = s.returned
  pred : m.sentAfter = s.pred
  fin : ∀ i, i ∈ m.finished ↔ s.phase i = .done
  ok : m.bad = none

def Mon.stepL (kind : Nat → Kind) (m : Mon) (l : Label) : Mon :=
  match l.vis with
  | some e => Mon.step kind m e
  | none => m

theorem sim_step {kind : Nat → Kind} {s s' : State} {l : Label} {m : Mon} (hinv : Inv kind s)
    (hsim : Sim s m) (h : step kind s l = some s') : Sim s' (m.stepL kind l) := by
  cases l
  case send k =>
    simp only [step] at h
    split at h <;> simp at h
    rename_i hu; subst h
    refine ⟨by simp [Mon.stepL, Label.vis, Mon.step, hsim.ret], by simp [Mon.stepL, Label.vis, Mon.step, hsim.ret, hsim.pred], ?_, by simp [Mon.stepL, Label.vis, Mon.step, hsim.ok]⟩
    intro a
    simp only [Mon.stepL, Label.vis, Mon.step, setPhase_phase]
    by_cases e : a = k
    · subst e; simp; intro hf; have := (hsim.fin a).1 hf; simp [hu] at this
    · simp [e]; exact hsim.fin a
  case bsend ps k =>
    simp only [step] at h
    split at h <;> simp at h
    rename_i hg; obtain ⟨hu, _⟩ := hg; subst h
    refine ⟨by simp [Mon.stepL, Label.vis, Mon.step, hsim.ret], by simp [Mon.stepL, Label.vis, Mon.step, hsim.ret, hsim.pred], ?_, by simp [Mon.stepL, Label.vis, Mon.step, hsim.ok]⟩
    intro a
    simp only [Mon.stepL, Label.vis, Mon.step, setPhase_phase]
    by_cases e : a = k
    · subst e; simp; intro hf; have := (hsim.fin a).1 hf; simp [hu] at this
    · simp [e]; exact hsim.fin a
  case write k =>
    simp only [step] at h
    split at h <;> simp at h
    rename_i hg; obtain ⟨hu, _⟩ := hg; subst h
    refine ⟨hsim.ret, hsim.pred, ?_, hsim.ok⟩
    intro a
    simp only [Mon.stepL, Label.vis, setPhase_phase]
    by_cases e : a = k
    · subst e; simp; intro hf; have := (hsim.fin a).1 hf; simp [hu] at this
    · simp [e]; exact hsim.fin a
  case ret k =>
    simp only [step] at h
    split at h
    · simp at h
    · split at h <;> simp at h
      subst h
      exact ⟨by simp [Mon.stepL, Label.vis, Mon.step, hsim.ret], hsim.pred, hsim.fin, hsim.ok⟩
  case disp k =>
    simp only [step] at h
    split at h
    · rename_i hd q hb hq
      split at h <;> simp at h
      rename_i e; subst e; subst h
      have hph : s.phase hd = .queued := (hinv.qmem hd).1 (by rw [hq]; simp)
      refine ⟨hsim.ret, hsim.pred, ?_, hsim.ok⟩
      intro a
      simp only [Mon.stepL, Label.vis, setPhase_phase]
      by_cases e : a = hd
      · subst e; simp; intro hf; have := (hsim.fin a).1 hf; simp [hph] at this
      · simp [e]; exact hsim.fin a
    · simp at h
  case rel k =>
    simp only [step] at h
    split at h <;> simp at h
    rename_i hc; subst h
    refine ⟨hsim.ret, hsim.pred, ?_, hsim.ok⟩
    intro a
    simp only [Mon.stepL, Label.vis, setPhase_phase]
    by_cases e : a = k
    · subst e; simp; intro hf; have := (hsim.fin a).1 hf; simp [hc.2.2] at this
    · simp [e]; exact hsim.fin a
  case start k =>
    have hdone : ∀ p ∈ s.pred, p.2 = k → s.phase p.1 = .done := by
      intro p hp e
      have : (p.1, k) ∈ s.pred := by rw [← e]; exact hp
      exact pred_done_at_start hinv this h
    simp only [step] at h
    split at h <;> simp at h
    rename_i hc; subst h
    have hnd : s.phase k ≠ .done := by rcases hc with ⟨e, _⟩ | e <;> simp [e]
    have hfind : (m.sentAfter.find? fun p => p.2 == k && !m.finished.contains p.1) = none := by
      rw [List.find?_eq_none]
      intro p hp
      rw [hsim.pred] at hp
      simp
      intro e
      exact (hsim.fin p.1).2 (hdone p hp e)
    refine ⟨?_, ?_, ?_, ?_⟩
    · simp only [Mon.stepL, Label.vis, Mon.step, hsim.ok, hfind]; exact hsim.ret
    · simp only [Mon.stepL, Label.vis, Mon.step, hsim.ok, hfind]; exact hsim.pred
    · intro a
      simp only [Mon.stepL, Label.vis, Mon.step, hsim.ok, hfind, setPhase_phase]
      by_cases e : a = k
      · subst e; simp; intro hf; exact hnd ((hsim.fin a).1 hf)
      · simp [e]; exact hsim.fin a
    · simp only [Mon.stepL, Label.vis, Mon.step, hsim.ok, hfind]
  case cb k =>
    simp only [step] at h
    split at h <;> simp at h
    subst h
    exact hsim
  case fin k =>
    simp only [step] at h
    split at h <;> simp at h
    subst h
    refine ⟨by simp [Mon.stepL, Label.vis, Mon.step, hsim.ret], by simp [Mon.stepL, Label.vis, Mon.step, hsim.pred], ?_, by simp [Mon.stepL, Label.vis, Mon.step, hsim.ok]⟩
    intro a
    simp only [Mon.stepL, Label.vis, Mon.step, setPhase_phase, List.mem_cons]
    by_cases e : a = k
    · subst e; simp
    · simp [e]; exact hsim.fin a

theorem foldl_visible (kind : Nat → Kind) (m : Mon) (ls : List Label) :
    (visible ls).foldl (Mon.step kind) m = ls.foldl (Mon.stepL kind) m := by
  induction ls generalizing m with
  | nil => rfl
  | cons l ls ih =>
    simp only [visible, List.filterMap_cons, List.foldl_cons, Mon.stepL]
    cases hv : l.vis with
    | none => simp [← ih, visible]
    | some e => simp [← ih, visible]

theorem sim_run {kind : Nat → Kind} {s s' : State} {ls : List Label} {m : Mon} (hinv : Inv kind s)
    (hsim : Sim s m) (h : run kind s ls = some s') : Sim s' (ls.foldl (Mon.stepL kind) m) := by
  induction ls generalizing s m with
  | nil => simp [run] at h; subst h; exact hsim
  | cons l ls ih =>
    obtain ⟨s1, h1, h2⟩ := run_cons_some h
    exact ih (inv_step hinv h1) (sim_step hinv hsim h1) h2

/-- Bridging theorem: for ALL label lists that are runs of the model, the property monitor — the
predicate that is evaluated on the traces recorded from the real sessions — holds on what an observer
sees of the run. -/
theorem monitor_accepts_runs {kind : Nat → Kind} {ls : List Label} {s : State}
    (h : run kind init ls = some s) : holdsOn kind (visible ls) = true := by
  have hsim : Sim init ({} : Mon) := ⟨rfl, rfl, by intro i; simp [init], rfl⟩
  have := sim_run (inv_init kind) hsim h
  simp [holdsOn, monitor, foldl_visible, this.ok]

/-! ### ephemeral sessions (stateless streamable server, F14 repaired) -/

structure SimE (s : State) (m : Mon) : Prop where
  ret : ∀ i, i ∈ m.returned → i ∈ m.finished
  pred : ∀ p, p ∈ m.sentAfter → p.1 ∈ m.finished
  fin : ∀ i, i ∈ m.finished ↔ s.phase i = .done
  ok : m.bad = none

theorem simE_step {kind : Nat → Kind} {s s' : State} {l : Label} {m : Mon}
    (hsim : SimE s m) (h : stepE s l = some s') : SimE s' (m.stepL kind l) := by
  cases l <;> simp only [stepE] at h
  case send k =>
    split at h <;> simp at h
    rename_i hu; subst h
    refine ⟨by simpa [Mon.stepL, Label.vis, Mon.step] using hsim.ret, ?_, ?_, by simp [Mon.stepL, Label.vis, Mon.step, hsim.ok]⟩
    · intro p hp
      simp only [Mon.stepL, Label.vis, Mon.step, List.mem_append, List.mem_map, List.mem_filter] at hp ⊢
      rcases hp with hp | ⟨a, ⟨ha, _⟩, rfl⟩
      · exact hsim.pred p hp
      · exact hsim.ret a ha
    · intro a
      simp only [Mon.stepL, Label.vis, Mon.step, setPhase_phase]
      by_cases e : a = k
      · subst e; simp; intro hf; have := (hsim.fin a).1 hf; simp [hu] at this
      · simp [e]; exact hsim.fin a
  case start k =>
    split at h <;> simp at h
    rename_i hu; subst h
    have hfind : (m.sentAfter.find? fun p => p.2 == k && !m.finished.contains p.1) = none := by
      rw [List.find?_eq_none]
      intro p hp
      simp
      intro _
      exact hsim.pred p hp
    refine ⟨?_, ?_, ?_, ?_⟩
    · simp only [Mon.stepL, Label.vis, Mon.step, hsim.ok, hfind]; exact hsim.ret
    · simp only [Mon.stepL, Label.vis, Mon.step, hsim.ok, hfind]; exact hsim.pred
    · intro a
      simp only [Mon.stepL, Label.vis, Mon.step, hsim.ok, hfind, setPhase_phase]
      by_cases e : a = k
      · subst e; simp; intro hf; have := (hsim.fin a).1 hf; simp [hu] at this
      · simp [e]; exact hsim.fin a
    · simp only [Mon.stepL, Label.vis, Mon.step, hsim.ok, hfind]
  case cb k =>
    split at h <;> simp at h
    subst h; exact hsim
  case fin k =>
    split at h <;> simp at h
    subst h
    refine ⟨?_, ?_, ?_, by simp [Mon.stepL, Label.vis, Mon.step, hsim.ok]⟩
    · intro a ha
      simp only [Mon.stepL, Label.vis, Mon.step] at ha ⊢
      exact List.mem_cons_of_mem _ (hsim.ret a ha)
    · intro p hp
      simp only [Mon.stepL, Label.vis, Mon.step] at hp ⊢
      exact List.mem_cons_of_mem _ (hsim.pred p hp)
    · intro a
      simp only [Mon.stepL, Label.vis, Mon.step, setPhase_phase, List.mem_cons]
      by_cases e : a = k
      · subst e; simp
      · simp [e]; exact hsim.fin a
  case ret k =>
    split at h
    · simp at h
    · split at h <;> simp at h
      rename_i hd; subst h
      refine ⟨?_, by simpa [Mon.stepL, Label.vis, Mon.step] using hsim.pred, by simpa [Mon.stepL, Label.vis, Mon.step] using hsim.fin, by simp [Mon.stepL, Label.vis, Mon.step, hsim.ok]⟩
      intro a ha
      simp only [Mon.stepL, Label.vis, Mon.step, List.mem_cons] at ha ⊢
      rcases ha with rfl | ha
      · exact (hsim.fin a).2 hd
      · exact hsim.ret a ha
  all_goals simp at h

theorem simE_run {kind : Nat → Kind} {s s' : State} {ls : List Label} {m : Mon}
    (hsim : SimE s m) (h : runE s ls = some s') : SimE s' (ls.foldl (Mon.stepL kind) m) := by
  induction ls generalizing s m with
  | nil => simp [runE] at h; subst h; exact hsim
  | cons l ls ih =>
    simp only [runE] at h
    cases h1 : stepE s l with
    | none => simp [h1] at h
    | some s1 => simp [h1] at h; exact ih (simE_step hsim h1) h

/-- Stateless streamable server (one temporary session per POST; the POST's response, the 202 of a
notification included, is produced only after that session handled the message): for ALL label lists
that are runs of `stepE`, and whatever the kinds of the messages, the property monitor holds. -/
theorem ephemeral_runs_satisfy_monitor (kind : Nat → Kind) {ls : List Label} {s : State}
    (h : runE init ls = some s) : holdsOn kind (visible ls) = true := by
  have hsim : SimE init ({} : Mon) := ⟨by simp, by simp, by intro i; simp [init], rfl⟩
  have := simE_run (kind := kind) hsim h
  simp [holdsOn, monitor, foldl_visible, this.ok]

/-- Counter-example for the behaviour before the repair (F14): if the 202 of a notification may go out
before its handler ran (`ret 0` before `start 0`), a later call can be handled first — such a trace is
rejected by the monitor and is not a run of `stepE`. -/
theorem ephemeral_early_ack_breaks_order :
    holdsOn (fun k => if k = 0 then .note else .call)
      (visible [.send 0, .ret 0, .send 1, .start 1, .fin 1, .ret 1, .start 0, .fin 0]) = false
    ∧ runE init [.send 0, .ret 0, .send 1, .start 1, .fin 1, .ret 1, .start 0, .fin 0] = none := by
  constructor <;> decide

/-- The monitor is not vacuous: it rejects a trace in which call 1, sent after notification 0 had
returned, starts while the handler of 0 is still running. -/
example : holdsOn (fun k => if k = 0 then .note else .call)
    [.snd 0, .ret 0, .snd 1, .beg 0, .beg 1, .fin 0, .fin 1] = false := by decide

/-- …it rejects a trace in which a member of a body starts while an earlier synchronous member of the
same body is still running, and accepts the body handled in order. -/
example : holdsOn (fun _ => .note) [.snd 0, .bsnd [0] 1, .beg 0, .beg 1, .fin 0, .fin 1] = false
    ∧ holdsOn (fun _ => .note) [.snd 0, .bsnd [0] 1, .beg 0, .fin 0, .beg 1, .fin 1, .ret 0, .ret 1] = true := by
  constructor <;> decide

/-- …and does not demand anything of two calls. -/
example : holdsOn (fun _ => .call) [.snd 0, .snd 1, .beg 1, .fin 1, .beg 0, .fin 0, .ret 0, .ret 1] = true := by decide

/-! ### the regenerated classification -/

/-- `initialize` is handled synchronously by the server (the `Async` guard excludes it). -/
theorem initialize_is_synchronous : classify true true Generated.Order.methodInitialize = .init := by decide

/-- Notifications never call `Async`, on either side. -/
theorem notifications_are_synchronous (toServer : Bool) (m : String) : classify toServer false m = .note := by
  simp [classify]

/-- Every other call to the server, and every call to the client, declares itself asynchronous. -/
theorem other_calls_are_asynchronous (m : String) :
    classify false true m = .call ∧ (m ≠ Generated.Order.methodInitialize → classify true true m = .call) := by
  constructor
  · simp [classify, Generated.Order.clientSyncCalls]
  · intro h
    simp [classify, Generated.Order.serverSyncCalls]
    intro e; exact h (by simpa [Generated.Order.methodInitialize] using e)

end Order
