import McpModel.Order.Props
import McpModel.Order.EphemeralBody
/-!
Engine `order` — theorems about `stepB` (sessionless streamable server, POST bodies with several messages).
For ALL classifications, ALL label lists.
-/
set_option linter.unusedSimpArgs false
set_option linter.unusedVariables false
namespace Order

/-- The simulation between `stepB` and the property monitor. -/
structure SimB (kind : Nat → Kind) (s : State) (m : Mon) : Prop where
  ret : ∀ i, i ∈ m.returned → i ∈ m.finished
  /-- an obligation either is discharged already, or stems from the body and is what `start` waits for -/
  pred : ∀ p, p ∈ m.sentAfter → p.1 ∈ m.finished ∨ (p ∈ s.after ∧ (kind p.1).sync = true)
  fin : ∀ i, i ∈ m.finished ↔ s.phase i = .done
  ok : m.bad = none

theorem simB_step {kind : Nat → Kind} {s s' : State} {l : Label} {m : Mon}
    (hsim : SimB kind s m) (h : stepB kind s l = some s') : SimB kind s' (m.stepL kind l) := by
  cases l <;> simp only [stepB] at h
  case send k =>
    split at h <;> simp at h
    rename_i hu; subst h
    refine ⟨by simpa [Mon.stepL, Label.vis, Mon.step] using hsim.ret, ?_, ?_, by simp [Mon.stepL, Label.vis, Mon.step, hsim.ok]⟩
    · intro p hp
      simp only [Mon.stepL, Label.vis, Mon.step, List.mem_append, List.mem_map, List.mem_filter] at hp ⊢
      rcases hp with hp | ⟨a, ⟨ha, _⟩, rfl⟩
      · exact hsim.pred p hp
      · exact Or.inl (hsim.ret a ha)
    · intro a
      simp only [Mon.stepL, Label.vis, Mon.step, setPhase_phase]
      by_cases e : a = k
      · subst e; simp; intro hf; have := (hsim.fin a).1 hf; simp [hu] at this
      · simp [e]; exact hsim.fin a
  case bsend ps k =>
    split at h <;> simp at h
    rename_i hu; subst h
    refine ⟨by simpa [Mon.stepL, Label.vis, Mon.step] using hsim.ret, ?_, ?_, by simp [Mon.stepL, Label.vis, Mon.step, hsim.ok]⟩
    · intro p hp
      simp only [Mon.stepL, Label.vis, Mon.step, List.mem_append, List.mem_map, List.mem_filter] at hp ⊢
      rcases hp with (hp | ⟨a, ⟨ha, _⟩, rfl⟩) | ⟨a, ⟨ha, hs⟩, rfl⟩
      · rcases hsim.pred p hp with q | ⟨q, r⟩
        · exact Or.inl q
        · exact Or.inr ⟨Or.inl q, r⟩
      · exact Or.inl (hsim.ret a ha)
      · exact Or.inr ⟨Or.inr ⟨a, ha, rfl⟩, hs⟩
    · intro a
      simp only [Mon.stepL, Label.vis, Mon.step, setPhase_phase]
      by_cases e : a = k
      · subst e; simp; intro hf; have := (hsim.fin a).1 hf; simp [hu.1] at this
      · simp [e]; exact hsim.fin a
  case start k =>
    split at h <;> simp at h
    rename_i hu; subst h
    have hfind : (m.sentAfter.find? fun p => p.2 == k && !m.finished.contains p.1) = none := by
      rw [List.find?_eq_none]
      intro p hp
      simp
      intro hk
      rcases hsim.pred p hp with q | ⟨q, r⟩
      · exact q
      · exact (hsim.fin p.1).2 (hu.2 p q hk r)
    refine ⟨?_, ?_, ?_, ?_⟩
    · simp only [Mon.stepL, Label.vis, Mon.step, hsim.ok, hfind]; exact hsim.ret
    · simp only [Mon.stepL, Label.vis, Mon.step, hsim.ok, hfind]; exact hsim.pred
    · intro a
      simp only [Mon.stepL, Label.vis, Mon.step, hsim.ok, hfind, setPhase_phase]
      by_cases e : a = k
      · subst e; simp; intro hf; have := (hsim.fin a).1 hf; simp [hu.1] at this
      · simp [e]; exact hsim.fin a
    · simp only [Mon.stepL, Label.vis, Mon.step, hsim.ok, hfind]
  case cb k =>
    split at h <;> simp at h
    subst h; exact hsim
  case fin k =>
    split at h <;> simp at h
    subst h
    refine ⟨?_, ?_, ?_, by simp [Mon.stepL, Label.vis, Mon.step, hsim.ok]⟩
    · intro a ha
      simp only [Mon.stepL, Label.vis, Mon.step] at ha ⊢
      exact List.mem_cons_of_mem _ (hsim.ret a ha)
    · intro p hp
      simp only [Mon.stepL, Label.vis, Mon.step] at hp ⊢
      rcases hsim.pred p hp with q | q
      · exact Or.inl (List.mem_cons_of_mem _ q)
      · exact Or.inr q
    · intro a
      simp only [Mon.stepL, Label.vis, Mon.step, setPhase_phase, List.mem_cons]
      by_cases e : a = k
      · subst e; simp
      · simp [e]; exact hsim.fin a
  case ret k =>
    split at h
    · simp at h
    · split at h <;> simp at h
      rename_i hd; subst h
      refine ⟨?_, by simpa [Mon.stepL, Label.vis, Mon.step] using hsim.pred, by simpa [Mon.stepL, Label.vis, Mon.step] using hsim.fin, by simp [Mon.stepL, Label.vis, Mon.step, hsim.ok]⟩
      intro a ha
      simp only [Mon.stepL, Label.vis, Mon.step, List.mem_cons] at ha ⊢
      rcases ha with rfl | ha
      · exact (hsim.fin a).2 hd.1
      · exact hsim.ret a ha
  all_goals simp at h

theorem simB_run {kind : Nat → Kind} {s s' : State} {ls : List Label} {m : Mon}
    (hsim : SimB kind s m) (h : runB kind s ls = some s') : SimB kind s' (ls.foldl (Mon.stepL kind) m) := by
  induction ls generalizing s m with
  | nil => simp [runB] at h; subst h; exact hsim
  | cons l ls ih =>
    simp only [runB] at h
    cases h1 : stepB kind s l with
    | none => simp [h1] at h
    | some s1 => simp [h1] at h; exact ih (simB_step hsim h1) h

/-- Bridging theorem for sessionless servers WITH bodies: for ALL label lists that are runs of `stepB` — all
compositions of bodies, all interleavings, all handler durations — the property monitor holds on what an observer
sees. -/
theorem body_ephemeral_runs_satisfy_monitor (kind : Nat → Kind) {ls : List Label} {s : State}
    (h : runB kind init ls = some s) : holdsOn kind (visible ls) = true := by
  have hsim : SimB kind init ({} : Mon) := ⟨by simp, by simp, by intro i; simp [init], rfl⟩
  have := simB_run hsim h
  simp [holdsOn, monitor, foldl_visible, this.ok]

/-- Without bodies `stepB` is `stepE`: on a state whose `after` is empty every label other than `bsend` has the
same effect (so the single-message theorems and the family theorems over `stepE` describe the same machine). -/
theorem stepB_eq_stepE {kind : Nat → Kind} {s : State} (ha : s.after = []) (l : Label) (hl : ∀ ps i, l ≠ .bsend ps i) :
    stepB kind s l = stepE s l := by
  cases l <;> simp [stepB, stepE, ha]
  case bsend ps i => exact absurd rfl (hl ps i)

/-- For ALL runs: a synchronous member of a body has finished when a later member of the same body starts. -/
theorem body_member_finished_when_later_starts {kind : Nat → Kind} {s s' : State} {p j : Nat}
    (hp : (p, j) ∈ s.after) (hsync : (kind p).sync = true) (hs : stepB kind s (.start j) = some s') :
    s.phase p = .done := by
  simp only [stepB] at hs
  split at hs <;> simp at hs
  rename_i hc
  exact hc.2 (p, j) hp rfl hsync

/-- For ALL runs: when the POST that carried `i` is answered, `i` has been handled to the end — so whatever the
peer sends afterwards is handled after it. -/
theorem body_ack_requires_done {kind : Nat → Kind} {s s' : State} {i : Nat}
    (hs : stepB kind s (.ret i) = some s') : s.phase i = .done := by
  simp only [stepB] at hs
  split at hs
  · simp at hs
  · split at hs <;> simp at hs
    rename_i hc
    exact hc.1

/-- Non-vacuity: body [notification 0, call 1, notification 2]; the call is released and runs beside notification 2;
the POST is answered when all three are done; then notification 3 in a POST of its own. -/
example : (runB (fun k => if k = 1 then .call else .note) init
    [.send 0, .bsend [0] 1, .bsend [0, 1] 2, .start 0, .fin 0, .start 2, .start 1, .fin 2, .fin 1, .ret 0, .ret 1, .ret 2,
     .send 3, .start 3, .fin 3, .ret 3]).isSome = true := by decide

/-- …a later member must wait for a synchronous earlier one, and the POST is not answered while a member runs. -/
example : (runB (fun _ => .note) init [.send 0, .bsend [0] 1, .start 0, .start 1]).isNone = true
    ∧ (runB (fun _ => .note) init [.send 0, .bsend [0] 1, .start 0, .fin 0, .start 1, .ret 0]).isNone = true := by
  constructor <;> decide

end Order
