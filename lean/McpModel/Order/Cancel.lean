import McpModel.Order.Props
/-!
Engine `order` — cancellation of calls inside the pair model (C03).

The harness issues calls whose context is cancelled while they are under way (message kind `x`), with the
goroutine that performs the cancellation on the receiving connection scheduled late.  What the code does, and
which label stands for it:

  `cancel i`  the context of the sending call for `i` ends: `call` (mcp/transport.go) retires the call
              (`conn.Retire`), starts `go conn.Notify(notifications/cancelled)` and returns the context's error — the
              API call is over WITHOUT `ret i`, and it can never return normally afterwards.  Only calls can be
              cancelled (a notification has no id); the model takes calls other than `initialize` (kind `call`).
  `kill i`    on the receiving side the preempter (`canceller.Preempt`) has read the notice and its goroutine
              `go c.conn.Cancel(id)` cancels the context of the incoming call — at ANY time after `cancel i`
              (nothing is assumed about when that goroutine runs: site K1).  The notice itself is also queued as
              a notification with a no-op handler; it occupies the dispatcher for no user code and is a
              stuttering step here.
  `drop i`    the dispatcher (`handleAsync`, D1) takes the head of the queue, finds its context cancelled
              (`req.ctx.Err() != nil`), answers it with that error (`processResult`) WITHOUT entering `Handle`,
              and goes on with the next element: the head — and only the head — leaves the queue, the
              dispatcher stays free, the user handler of `i` never starts.
  a killed call that is still queued is never handed to `Handle` (`disp` is disabled for it): the check in
  `handleAsync` comes first.  A call that was dispatched before `kill` runs to its end as before.

`XState` adds the three ghost sets to `State`.  Everything is proved by REFINEMENT: a run with cancellations
projects (`xproj`: `drop i` ↦ `disp i`, `rel i`; `cancel`/`kill` ↦ nothing) to a run of `Order.step` with the same
visible events and the same final pair state, so every theorem of `Props` holds for runs with cancellations
(`xrun_refines`), in particular the ordering clause (`cancel_sync_end_before_later_start`), the FIFO theorem
(`cancel_dispatch_order_is_write_order`: what the dispatcher has taken — dispatched or dropped — followed by
the queue is what was written, in write order: a drop removes the head and changes nothing else) and the bridge
to the monitor (`cancel_monitor_accepts_runs`).  Core Lean only.
-/
set_option linter.unusedSimpArgs false
set_option linter.unusedVariables false
namespace Order

inductive XLabel where
  | base (l : Label)
  | cancel (i : Nat)
  | kill (i : Nat)
  | drop (i : Nat)
deriving DecidableEq, Repr

structure XState where
  s : State
  /-- calls whose sender gave up (the API call returned the context's error) -/
  cancelled : List Nat
  /-- incoming calls whose context the receiving connection has cancelled -/
  killed : List Nat
  /-- calls the dispatcher answered without entering the handler -/
  dropped : List Nat

def xinit : XState := { s := init, cancelled := [], killed := [], dropped := [] }

/-- Labels of the pair model that cancellation disables. -/
def blocked (x : XState) : Label → Bool
  | .ret i => x.cancelled.contains i     -- the call has already returned the context's error
  | .disp i => x.killed.contains i       -- `handleAsync` checks the context before `Handle`
  | .start i => x.dropped.contains i     -- answered without a handler
  | _ => false

/-- One atomic step of the model with cancellation. -/
def xstep (kind : Nat → Kind) (x : XState) : XLabel → Option XState
  | .base l =>
    if blocked x l = true then none else (step kind x.s l).map fun s' => { x with s := s' }
  | .cancel i =>
    if kind i = .call ∧ x.s.phase i ≠ .unsent ∧ i ∉ x.s.returned ∧ i ∉ x.cancelled then
      some { x with cancelled := i :: x.cancelled }
    else none
  | .kill i =>
    if i ∈ x.cancelled ∧ i ∉ x.killed then some { x with killed := i :: x.killed } else none
  | .drop i =>
    match x.s.busy, x.s.queue with
    | none, h :: q =>
      if h = i ∧ i ∈ x.killed ∧ kind i = .call then
        some { x with s := { (x.s.setPhase i .ready) with queue := q, busy := none }, dropped := i :: x.dropped }
      else none
    | _, _ => none

def xrun (kind : Nat → Kind) : XState → List XLabel → Option XState
  | x, [] => some x
  | x, l :: ls =>
    match xstep kind x l with
    | some x' => xrun kind x' ls
    | none => none

/-- The run of `Order.step` a run with cancellations stands for: dropping the head is the dispatcher taking it
and being released at once (no handler), the sender giving up and the receiver's `Cancel` are invisible. -/
def xproj : List XLabel → List Label
  | [] => []
  | .base l :: r => l :: xproj r
  | .drop i :: r => .disp i :: .rel i :: xproj r
  | _ :: r => xproj r

theorem xproj_append (a b : List XLabel) : xproj (a ++ b) = xproj a ++ xproj b := by
  induction a with
  | nil => rfl
  | cons l r ih => cases l <;> simp [xproj, ih]

/-- `drop i` changes the pair state exactly as `disp i` followed by `rel i`. -/
theorem drop_is_disp_rel {kind : Nat → Kind} {x x' : XState} {i : Nat} (h : xstep kind x (.drop i) = some x') :
    run kind x.s [.disp i, .rel i] = some x'.s := by
  simp only [xstep] at h
  split at h
  · rename_i hd q hb hq
    split at h
    · rename_i hc
      obtain ⟨rfl, _, hk⟩ := hc
      simp only [Option.some.injEq] at h
      subst h
      simp only [run, step, hb, hq, if_true]
      simp [State.setPhase, hk]
      funext k
      by_cases hki : k = hd <;> simp [hki]
    · simp at h
  · simp at h

theorem xstep_base {kind : Nat → Kind} {x x' : XState} {l : Label} (h : xstep kind x (.base l) = some x') :
    step kind x.s l = some x'.s := by
  simp only [xstep] at h
  split at h
  · simp at h
  · cases hs : step kind x.s l with
    | none => simp [hs] at h
    | some s' => simp [hs] at h; subst h; rfl

/-- REFINEMENT: every run with cancellations projects to a run of the pair model that ends in the same pair
state. -/
theorem xrun_refines {kind : Nat → Kind} {x x' : XState} {ls : List XLabel} (h : xrun kind x ls = some x') :
    run kind x.s (xproj ls) = some x'.s := by
  induction ls generalizing x with
  | nil => simp [xrun] at h; subst h; rfl
  | cons l r ih =>
    simp only [xrun] at h
    cases hx : xstep kind x l with
    | none => simp [hx] at h
    | some x1 =>
      simp only [hx] at h
      have hr := ih h
      cases l with
      | base l =>
        simp only [xproj, run, xstep_base hx]
        exact hr
      | cancel i =>
        simp only [xproj]
        simp only [xstep] at hx
        split at hx <;> simp at hx
        subst hx
        exact hr
      | kill i =>
        simp only [xproj]
        simp only [xstep] at hx
        split at hx <;> simp at hx
        subst hx
        exact hr
      | drop i =>
        have hd := drop_is_disp_rel hx
        show run kind x.s ([.disp i, .rel i] ++ xproj r) = some x'.s
        rw [run_append, hd]
        exact hr

/-- `xproj` adds only `disp`/`rel` labels: every other label of the projection is a base label of the run. -/
theorem mem_xproj {ls : List XLabel} {l : Label} (h : l ∈ xproj ls) (hd : ∀ i, l ≠ .disp i) (hr : ∀ i, l ≠ .rel i) :
    XLabel.base l ∈ ls := by
  induction ls with
  | nil => simp [xproj] at h
  | cons a r ih =>
    cases a with
    | base b =>
      simp only [xproj, List.mem_cons] at h
      rcases h with rfl | h
      · simp
      · exact List.mem_cons_of_mem _ (ih h)
    | cancel i => exact List.mem_cons_of_mem _ (ih (by simpa [xproj] using h))
    | kill i => exact List.mem_cons_of_mem _ (ih (by simpa [xproj] using h))
    | drop i =>
      simp only [xproj, List.mem_cons] at h
      rcases h with rfl | rfl | h
      · exact absurd rfl (hd i)
      · exact absurd rfl (hr i)
      · exact List.mem_cons_of_mem _ (ih h)

/-- The ordering clause of C03 for ALL runs with cancellations (all message sequences, all interleavings, any
call cancelled at any time, the receiver's `Cancel` arbitrarily late, any queued call dropped): if the sending
call of the synchronous message `i` returned, then the sending call of `j` began, and later the handler of `j`
starts, the handler of `i` finished before that start. -/
theorem cancel_sync_end_before_later_start {kind : Nat → Kind} {l₁ l₂ l₃ : List XLabel} {i j : Nat} {x : XState}
    (h : xrun kind xinit (l₁ ++ .base (.ret i) :: (l₂ ++ .base (.send j) :: (l₃ ++ [.base (.start j)]))) = some x)
    (hsync : (kind i).sync = true) :
    XLabel.base (.fin i) ∈ l₁ ++ .base (.ret i) :: (l₂ ++ .base (.send j) :: l₃) := by
  have hr := xrun_refines h
  simp only [xproj_append, xproj, xinit] at hr
  have := sync_end_before_later_start (l₁ := xproj l₁) (l₂ := xproj l₂) (l₃ := xproj l₃) hr hsync
  have hm : Label.fin i ∈ xproj (l₁ ++ .base (.ret i) :: (l₂ ++ .base (.send j) :: l₃)) := by
    simpa [xproj_append, xproj] using this
  exact mem_xproj hm (by intro k; simp) (by intro k; simp)

/-- Non-vacuity: notification 0 runs, call 1 is queued behind it, notifications 2 and 3 are queued behind the
call, the caller of 1 gives up, the receiver cancels it late, 4 is sent; the dispatcher drops 1 and hands over
2, 3, 4 in that order. -/
example : (xrun (fun k => if k = 1 then .call else .note) xinit
    [.base (.send 0), .base (.write 0), .base (.ret 0), .base (.disp 0), .base (.start 0),
     .base (.send 1), .base (.write 1), .base (.send 2), .base (.write 2), .base (.ret 2), .base (.send 3), .base (.write 3), .base (.ret 3),
     .cancel 1, .base (.send 4), .base (.write 4), .base (.ret 4), .kill 1, .base (.fin 0), .drop 1,
     .base (.disp 2), .base (.start 2), .base (.fin 2), .base (.disp 3), .base (.start 3), .base (.fin 3),
     .base (.disp 4), .base (.start 4)]).isSome = true := by
  decide

/-- What the dispatcher has taken from the queue, handed to a handler or dropped. -/
def takenOf (ls : List XLabel) : List Nat :=
  ls.filterMap fun | .base (.disp i) => some i | .drop i => some i | _ => none

def xwritesOf (ls : List XLabel) : List Nat := ls.filterMap fun | .base (.write i) => some i | _ => none

theorem dispsOf_xproj (ls : List XLabel) : dispsOf (xproj ls) = takenOf ls := by
  induction ls with
  | nil => rfl
  | cons a r ih =>
    cases a with
    | base b => cases b <;> simp [xproj, dispsOf, takenOf] <;> simpa [dispsOf, takenOf] using ih
    | cancel i => simpa [xproj, dispsOf, takenOf] using ih
    | kill i => simpa [xproj, dispsOf, takenOf] using ih
    | drop i => simp [xproj, dispsOf, takenOf]; simpa [dispsOf, takenOf] using ih

theorem writesOf_xproj (ls : List XLabel) : writesOf (xproj ls) = xwritesOf ls := by
  induction ls with
  | nil => rfl
  | cons a r ih =>
    cases a with
    | base b => cases b <;> simp [xproj, writesOf, xwritesOf] <;> simpa [writesOf, xwritesOf] using ih
    | cancel i => simpa [xproj, writesOf, xwritesOf] using ih
    | kill i => simpa [xproj, writesOf, xwritesOf] using ih
    | drop i => simp [xproj, writesOf, xwritesOf]; simpa [writesOf, xwritesOf] using ih

/-- FIFO with cancellations, for ALL runs: what the dispatcher has taken so far (handed to a handler, or
dropped because it was cancelled while queued), followed by the queue, is exactly what was written, in write
order.  Answering a cancelled call that is still queued removes it — and nothing else — from the head: the
messages queued behind it keep their order (seeded change C03-m16 removed it from the middle by moving the
LAST element into its place). -/
theorem cancel_dispatch_order_is_write_order {kind : Nat → Kind} {ls : List XLabel} {x : XState}
    (h : xrun kind xinit ls = some x) : takenOf ls ++ x.s.queue = xwritesOf ls := by
  have := dispatch_order_is_write_order (xrun_refines h)
  rwa [dispsOf_xproj, writesOf_xproj] at this

/-- What an observer sees of a run with cancellations (the sender giving up shows as the API call's error,
which the monitor does not read; `kill`/`drop` are internal). -/
def xvisible (ls : List XLabel) : List Ev := ls.filterMap fun | .base l => l.vis | _ => none

theorem visible_xproj (ls : List XLabel) : visible (xproj ls) = xvisible ls := by
  induction ls with
  | nil => rfl
  | cons a r ih =>
    cases a with
    | base b => simp only [xproj, visible, xvisible, List.filterMap_cons]; cases b.vis <;> simpa [visible, xvisible] using ih
    | cancel i => simpa [xproj, visible, xvisible] using ih
    | kill i => simpa [xproj, visible, xvisible] using ih
    | drop i =>
      have : visible (.disp i :: .rel i :: xproj r) = visible (xproj r) := by
        simp only [visible, List.filterMap_cons, Label.vis]
      rw [xproj, this, ih]
      simp [xvisible]

/-- Bridging theorem with cancellations: the property monitor accepts what is visible of EVERY run of the model
with cancellations. -/
theorem cancel_monitor_accepts_runs {kind : Nat → Kind} {ls : List XLabel} {x : XState}
    (h : xrun kind xinit ls = some x) : holdsOn kind (xvisible ls) = true := by
  rw [← visible_xproj]
  exact monitor_accepts_runs (xrun_refines h)

/-! ### a dropped call never runs; a cancelled call never returns normally -/

theorem xstep_dropped_mono {kind : Nat → Kind} {x x' : XState} {l : XLabel} (h : xstep kind x l = some x') {i : Nat}
    (hi : i ∈ x.dropped) : i ∈ x'.dropped := by
  cases l with
  | base b =>
    simp only [xstep] at h
    split at h
    · simp at h
    · cases hs : step kind x.s b with
      | none => simp [hs] at h
      | some s' => simp [hs] at h; subst h; exact hi
  | cancel k => simp only [xstep] at h; split at h <;> simp at h; subst h; exact hi
  | kill k => simp only [xstep] at h; split at h <;> simp at h; subst h; exact hi
  | drop k =>
    simp only [xstep] at h
    split at h
    · split at h <;> simp at h
      subst h
      exact List.mem_cons_of_mem _ hi
    · simp at h

theorem xstep_drop_dropped {kind : Nat → Kind} {x x' : XState} {i : Nat} (h : xstep kind x (.drop i) = some x') :
    i ∈ x'.dropped := by
  simp only [xstep] at h
  split at h
  · split at h <;> simp at h
    subst h
    simp
  · simp at h

theorem xrun_cons_some {kind : Nat → Kind} {x x' : XState} {l : XLabel} {ls : List XLabel}
    (h : xrun kind x (l :: ls) = some x') : ∃ m, xstep kind x l = some m ∧ xrun kind m ls = some x' := by
  simp only [xrun] at h
  cases hm : xstep kind x l with
  | none => simp [hm] at h
  | some m => exact ⟨m, rfl, by simpa [hm] using h⟩

theorem no_start_after_dropped {kind : Nat → Kind} {x x' : XState} {ls : List XLabel} {i : Nat}
    (hi : i ∈ x.dropped) (h : xrun kind x ls = some x') : XLabel.base (.start i) ∉ ls := by
  induction ls generalizing x with
  | nil => simp
  | cons l r ih =>
    obtain ⟨m, hm, hr⟩ := xrun_cons_some h
    intro hmem
    rcases List.mem_cons.mp hmem with rfl | hmem
    · have hb : blocked x (.start i) = true := by simpa [blocked] using hi
      simp only [xstep] at hm
      rw [if_pos hb] at hm
      simp at hm
    · exact ih (xstep_dropped_mono hm hi) hr hmem

theorem xrun_append_some {kind : Nat → Kind} {x x' : XState} {a b : List XLabel}
    (h : xrun kind x (a ++ b) = some x') : ∃ m, xrun kind x a = some m ∧ xrun kind m b = some x' := by
  induction a generalizing x with
  | nil => exact ⟨x, rfl, h⟩
  | cons l r ih =>
    obtain ⟨m, hm, hr⟩ := xrun_cons_some (by simpa using h)
    obtain ⟨m2, h1, h2⟩ := ih hr
    exact ⟨m2, by simp [xrun, hm, h1], h2⟩

/-- For ALL runs: the user handler of a call that was answered while still queued (`drop`) never starts. -/
theorem dropped_call_never_starts {kind : Nat → Kind} {l₁ l₂ : List XLabel} {i : Nat} {x : XState}
    (h : xrun kind xinit (l₁ ++ .drop i :: l₂) = some x) : XLabel.base (.start i) ∉ l₂ := by
  obtain ⟨m, _, h2⟩ := xrun_append_some h
  obtain ⟨m2, hd, h3⟩ := xrun_cons_some h2
  exact no_start_after_dropped (xstep_drop_dropped hd) h3

/-! ### the seeded change C03-m16 -/

/-- The log of C03-m16 (`Connection.Cancel` takes a cancelled call out of the MIDDLE of the handler queue by
moving the last element into its place): notification 0 is being handled; call 1, notifications 2 and 3 are
queued; the caller of 1 gives up; notification 4 is sent and queued; the late `Cancel` moves 4 to the place of 1,
so the handler of 4 starts before the handlers of 2 and 3 — rejected by the monitor; and handing 4 to the
dispatcher while 2 heads the queue is not a step of the model. -/
theorem swap_remove_breaks_order :
    holdsOn (fun k => if k = 1 then .call else .note)
      [.snd 0, .ret 0, .beg 0, .snd 1, .snd 2, .ret 2, .snd 3, .ret 3, .snd 4, .ret 4, .fin 0, .beg 4, .fin 4, .beg 2, .fin 2, .beg 3, .fin 3] = false
    ∧ (xrun (fun k => if k = 1 then .call else .note) xinit
        [.base (.send 0), .base (.write 0), .base (.ret 0), .base (.disp 0), .base (.start 0),
         .base (.send 1), .base (.write 1), .base (.send 2), .base (.write 2), .base (.ret 2), .base (.send 3), .base (.write 3), .base (.ret 3),
         .cancel 1, .base (.send 4), .base (.write 4), .base (.ret 4), .kill 1, .base (.fin 0), .drop 1,
         .base (.disp 4)]).isNone = true := by
  constructor <;> decide

end Order
